from vlib.layout_steps import nested_selftest


def _nc(ev):
    if ev.get("ev") == "produced" and ev["d"]["nulls"]["present"]:
        ev["d"]["nulls"]["nc"] += 1
        return True
    return False


def _kid_nc(ev):      # a null count one level down
    if ev.get("ev") == "produced":
        for k in ev["d"]["kids"]:
            if k["nulls"]["present"]:
                k["nulls"]["nc"] += 1
                return True
    return False


def _short(ev):
    d = ev.get("d", {})
    if ev.get("ev") == "produced" and d["t"]["k"] == "prim" and d["len"] > 0:
        d["bufs"][0]["nbytes"] -= 1
        return True
    return False


def _offs(ev):
    d = ev.get("d", {})
    if ev.get("ev") == "produced" and d["t"]["k"] in ("utf8", "bin", "list") and len(d["bufs"][0]["ints"]) >= 2 and d["len"] >= 1:
        d["bufs"][0]["ints"][-1] = d["bufs"][0]["ints"][0] - 1
        return True
    return False


def _key(ev):
    d = ev.get("d", {})
    if ev.get("ev") == "produced" and d["t"]["k"] == "dict" and d["len"] > 0 and not d["nulls"]["present"]:
        d["bufs"][0]["ints"][0] = d["kids"][0]["len"]
        return True
    return False


def _rows(ev):
    if ev.get("ev") == "batch" and ev["cols"]:
        ev["nrows"] += 1
        return True
    return False


def _coltype(ev):
    if ev.get("ev") == "batch" and ev["cols"]:
        ev["schema"][0]["s"] += "#"
        return True
    return False


PLAN = dict(
    id="C01",
    level="exploration",
    build=["c01"],
    mc=[
        dict(module="MC_ArrowLayout", cfg_quick="MC_ArrowLayout_quick.cfg", cfg_thorough="MC_ArrowLayout.cfg",
             workers=6, timeout_quick=900, timeout_thorough=3600, args=["-coverage", "600"]),
    ],
    drive=[dict(bin="c01", args=["c01"])],
    tv=[dict(glob="outputs-*.ndjson", module="Trace_Outputs", cfg="Trace_Outputs.cfg", corrupt=["nrows"], timeout_thorough=3600)],
    extra_steps=[
        nested_selftest("outputs-*.ndjson", "Trace_Outputs", "Trace_Outputs.cfg",
                        [("null_count", _nc), ("child_null_count", _kid_nc), ("short_buffer", _short), ("offsets", _offs), ("key", _key),
                         ("rows", _rows), ("column_type", _coltype)]),
    ],
    level_text="Finite pipelines (depth 1-3) of safe calls are run over the type zoo (incl. nested, dictionary, view, run-end, union, "
               "list-view) and over the layout mutators (sliced / padded / garbage under nulls / shuffled dictionaries / re-partitioned views / "
               "split runs): builders' finish, builder histories (every public append-style operation of every builder family, all sequences up to depth 2-3 on a fresh builder plus random longer ones, interleaved with finish / finish_cloned and continued use), From / FromIterator, make_array, new_null_array, new_empty_array, selection kernels, cast, "
               "arithmetic, boolean, temporal, sort, comparison, string kernels, row-format round trip, IPC file / stream round trip, CSV / JSON "
               "readers (on writer output and on generated text), record-batch operations. After every stage the returned array / batch is dumped "
               "physically and TLC judges it with the independent validator WellFormed / BatchWellFormed of ArrowLayout.tla (exact null counts at "
               "every nesting level, schema / column agreement). TLC also model-checks the validator itself (MC_ArrowLayout).",
    level_note="Arrays <= 64 rows; seeded random pipelines; kernels that report an error or 'not supported' produce no output and are skipped. "
               "The event format is documented at the top of spec/Trace_Outputs.tla so that other drivers (Parquet, Avro) can emit the same events.",
    technique="TLA+ operator WellFormed (ArrowLayout.tla) as oracle, TLC trace validation of recorded outputs, TLC model checking of the validator",
    rule="WellFormed(dump of every returned array) and BatchWellFormed(schema, columns, num_rows) of every returned record batch, judged by TLC per event; "
         "distinct = distinct output records",
    assumptions=[
        "the physical dump (harness/vcore/src/dump.rs) copies sizes, pointer residues and buffer contents faithfully (through Array::to_data)",
        "TLC and the Json community module are trusted",
        "alignment demanded = natural Rust alignment of the element type (what arrow-rs requires), empty buffers exempt",
    ],
)
