import json
import os
import re
import subprocess
import time
from concurrent.futures import ThreadPoolExecutor

from vlib.core import HARNESS, ToolError, log, run_tlc

# The three grammar models are "theorem" models: Init enumerates a universe (values / texts), Next stutters, the
# theorems are invariants.  TLC's -coverage instrumentation (which the generic `mc` step of vlib/core.py always
# switches on) makes the evaluation of the large recursive set expressions of these models run out of memory, and
# its purpose - the "no action is vacuous" guard - does not apply to a model without actions.  They are therefore
# run from here, without -coverage, the three of them in parallel.
MODELS = [
    ("MC_CsvGrammar", "MC_CsvGrammar_quick.cfg", "MC_CsvGrammar.cfg"),
    ("MC_JsonGrammar", "MC_JsonGrammar_quick.cfg", "MC_JsonGrammar.cfg"),
    ("MC_AvroEncoding", "MC_AvroEncoding_quick.cfg", "MC_AvroEncoding.cfg"),
]


def grammar_models(check):
    def one(m):
        module, q, t = m
        cfg = q if check.tier == "quick" else t
        t0 = time.time()
        res = run_tlc(module, cfg, os.path.join(check.work, "md_" + module), workers=2 if check.tier == "quick" else 4,
                      timeout=900 if check.tier == "quick" else 5400, java_opts="-Xss256m", xmx="6g")
        return module, cfg, res, time.time() - t0
    # the spec -> impl replay (1 TLC worker + the driver) runs next to the models
    with ThreadPoolExecutor(max_workers=4 if check.tier == "quick" else 2) as ex:
        replay = ex.submit(avro_blocks_replay, check)
        results = list(ex.map(one, MODELS))
        replay.result()
    for module, cfg, res, dt in results:
        out = res["out"]
        if res["timeout"]:
            raise ToolError(f"TLC {module} timed out")
        bad = re.search(r"Error: Invariant (\w+) is violated", out)
        if bad:
            tail = out[out.find("Error:"):][:6000]
            check.violation(f"TLC model {module}: theorem {bad.group(1)} is violated",
                            dict(kind="model", module=module, cfg=cfg, tlc_output=tail))
            continue
        if "Error:" in out or res["rc"] != 0 or res["distinct"] == 0:
            log(out[-3000:])
            raise ToolError(f"TLC {module} failed")
        check.mc_states += res["states"]
        check.mc_distinct += res["distinct"]
        check.mc_runs.append(dict(module=module, cfg=cfg, states=res["states"], distinct=res["distinct"], wall_s=round(dt, 1),
                                  mode="exhaustive"))
        log(f"[mc] {module} {cfg}: {res['states']} states, {res['distinct']} distinct ({dt:.0f}s)")


def avro_blocks_replay(check):
    """spec -> impl: TLC writes, for every value of five schemas and every blocking of arrays / maps the Avro specification
    allows (one block, one block per item, negative counts with byte sizes, mixed), the body bytes and the value they denote
    (Gen_AvroBlocks.tla, after checking Decode(body) = value in the specification itself); the driver frames each body as
    a message and the real arrow-avro Decoder must return exactly that value (the writer only ever emits the first form)."""
    cases = os.path.join(check.work, "avro_cases.ndjson")
    t0 = time.time()
    res = run_tlc("Gen_AvroBlocks", "Gen_AvroBlocks.cfg" if check.tier == "quick" else "Gen_AvroBlocks_thorough.cfg",
                  os.path.join(check.work, "md_gen_avro"), workers=1, timeout=1800, env_extra={"OUT": cases}, java_opts="-Xss256m", xmx="4g")
    if "Error:" in res["out"] or "Assumption" in res["out"] or not os.path.exists(cases):
        log(res["out"][-3000:])
        raise ToolError("TLC could not generate the Avro block cases (or the specification does not read its own blockings back)")
    n = sum(1 for _ in open(cases))
    r = subprocess.run([os.path.join(HARNESS, "target", "release", "c17"), "replay-avro", "--cases", cases],
                       stdout=subprocess.PIPE, stderr=subprocess.STDOUT, text=True, timeout=1800)
    if r.returncode != 0:
        log(r.stdout[-3000:])
        raise ToolError("c17 replay-avro failed")
    mism = 0
    for line in r.stdout.splitlines():
        if line.startswith("MISMATCH "):
            mism += 1
            if mism <= 3:
                check.violation("arrow-avro Decoder differs from AvroEncoding.tla on a TLC-generated blocking of an array / map",
                                dict(kind="gen", module="Gen_AvroBlocks", case=json.loads(line[9:])))
        m = re.match(r"REPLAYED (\d+)", line)
        if m:
            check.gen_cases += int(m.group(1))
    check.mc_runs.append(dict(module="Gen_AvroBlocks", mode="generate", cases=n, wall_s=round(time.time() - t0, 1)))
    with open(cases) as f:
        lines = f.read().splitlines()
    if lines:
        check.samples.append(dict(kind="tlc_generated_case", module="Gen_AvroBlocks", case=json.loads(lines[len(lines) // 2])))
    log(f"[gen] Gen_AvroBlocks: {n} (schema, value, blocking) cases with their bytes replayed into the arrow-avro Decoder, "
        f"{mism} mismatches ({time.time() - t0:.0f}s)")


PLAN = dict(
    id="C17",
    level="model_checking",
    build=["c17"],
    drive=[dict(bin="c17", args=["run"], timeout=3000)],
    tv=[dict(glob="text-*.ndjson", module="Trace_TextFormats", cfg="Trace_TextFormats.cfg",
             corrupt=["cells", "utf8", "rows_out", "outcome", "msgs", "text"], timeout=3000)],
    extra_steps=[grammar_models],
    level_text="The three formats are specified as TLA+ operators on character / byte sequences, written from the standards and independent of "
               "the implementation: CsvGrammar.tla (RFC 4180 field / record splitting with the arrow-csv Format options - delimiter, quote, "
               "escape, terminator, CR / LF / CRLF, quoted line breaks, doubled quotes - and the writer's quoting rule), JsonGrammar.tla (an "
               "RFC 8259 recogniser + value extractor: objects, arrays, strings with every escape incl. \\uXXXX and surrogate pairs, the number "
               "grammar, literals, white space, line-delimited streams - and the writer's string-escape rule), AvroEncoding.tla (zig-zag "
               "varints on 64-bit longs via limb arithmetic, length-prefixed bytes / strings, fixed, enum, float / double byte order, array and "
               "map blocks incl. negative counts with byte sizes, records, unions, object-container-file header / blocks / sync, single-object "
               "prefix).  TLC model-checks the round-trip theorems exhaustively on small universes: Split(Join(recs)) = recs for every record "
               "matrix (<= 3 fields of <= 2 characters over {delimiter, quote, CR, LF, escape, terminator, a}; 9 writer formats; all texts <= 6 "
               "characters: totality, plain-text characterisation, fixed point); Parse(Write(v)) = v for every JSON value of depth <= 2 over a "
               "leaf set with all kinds, every string <= 3 over 18 boundary characters, every token string <= 5 (totality, fixed point), the "
               "number production against a declarative definition, \\uXXXX / surrogate pairs; Decode(Encode(v)) = v for every value of 26 "
               "schemas over boundary longs (0, +-1, 63/64, -64/-65, 8191/8192, +-2^31, 2^63-1, -2^63) and byte strings, the Avro "
               "specification's varint table, all blockings of arrays, DecLong on every byte string <= 5 over boundary bytes, "
               "OcfParse(OcfWrite(..)).  spec -> impl: TLC writes every blocking of arrays / maps the Avro specification allows (several "
               "blocks, negative counts with byte sizes - forms the arrow-avro writer never emits) with the value it denotes "
               "(Gen_AvroBlocks.tla) and the real Decoder must return that value.  The real code is bound to these operators by trace validation (Trace_TextFormats.tla), TLC evaluating "
               "the grammar on the logged text / bytes of every event: (a) round trips - CSV writer -> reader over the supported type set "
               "(booleans, all integer widths with extremes, floats incl. subnormal / max / shortest-round-trip cases, decimals, dates, times, "
               "timestamps with and without zone, strings with delimiters, quotes, line breaks, control and non-BMP characters, dictionaries, "
               "Null) under every writer option (delimiter, quote, escape / double_quote, terminator, header, null sentinel, quote style, "
               "date / time formats), JSON writer -> reader (line-delimited and array framing, explicit_nulls, StructMode::ObjectOnly / "
               "ListOnly, nested lists / structs / maps, dictionaries, binary, decimals, temporals), Avro writer -> reader (object container "
               "files with null / deflate / snappy / zstandard / bzip2 / xz, single-object, Confluent and Apicurio framing, raw bodies, nullable "
               "unions, general unions, nested records / arrays / maps, logical types): rows out = rows in and schema equal; (b) the "
               "independent-parser clauses decided by the specification: the fields arrow-csv returns for every text <= 4 (thorough 6) over "
               "{delimiter, quote, CR, LF, a, space} with 1..3 columns, for random longer texts under 6 formats and for every writer output "
               "must equal CsvGrammar!Split(text) (records of another width must be an error), and the writer's text must equal "
               "CsvGrammar!Join(fields); every JSON text the recogniser accepts and whose values fit the schema must be accepted by "
               "arrow-json with exactly the values JsonGrammar!Parse extracts (generated documents with random white space, escape forms, "
               "number forms, key order, unknown / missing keys; mutated near-valid texts; every writer output, which must itself be RFC 8259 "
               "and denote the rows it was given); the bytes of Avro block payloads / single-object bodies must equal "
               "AvroEncoding!Encode(rows) under the schema the writer declared, decode back to the same rows, and the container / prefix "
               "framing must parse (magic, metadata map with avro.schema = the declared JSON - itself checked with JsonGrammar!Parse - and "
               "avro.codec, sync markers, block counts).",
    level_note="Decided by the specification: CSV field splitting and the writer's quoting / escaping / terminator rule (exact text) for quote "
               "styles Necessary / Always / Never; JSON recognition, string (un)escaping, the VALUE of every number lexeme read into an integer "
               "column (Int8..Int64, UInt8..UInt64: mantissa x 10^exponent computed exactly on limbs - a lexeme denoting an integer in range "
               "must decode to exactly that integer, `1E+2` = 100; pinned from the code: out of range is an error, a non-integral value of <= 15 "
               "significant digits is truncated towards zero; every lexeme of sign x {0,1,25,9007199254740993} x {,.0,.5,.50} x "
               "{,e0,E+2,e-1,e3} and the 64-bit extremes with exponents into every width), booleans, nulls, "
               "nesting, missing / unknown keys; float values only when the lexeme spells an integer below 10^15 ([-] int [.0*] [e[+]n]) - "
               "for all other floats only the lexical shape is decided and the round trip identity (bit pattern in = bit pattern out) is "
               "relational; Avro bytes for the fragment boolean / int / long / float / double / bytes / string / fixed / array / map / record / "
               "union with logical types date, time-millis / -micros, (local-)timestamp-millis / -micros / -nanos on their base types. "
               "The round-trip drivers also nest children whose nulls are logical (run-end encoded values with null runs, dictionaries with "
               "null values / null keys, the Null type) in list / large list / fixed-size list / struct / map with explicit_nulls on and off "
               "(dictionaries are read back as their value type: tokens denote values); Avro reads run under a watchdog (a reader that does "
               "not return is outcome `hang`).  "
               "Relational only (identity of the round trip through row tokens): float formatting (shortest round trip), decimal / temporal "
               "formatting and parsing, QuoteStyle::NonNumeric, compressed Avro blocks (codec fidelity), Avro decimal / duration / uuid / enum "
               "layouts, the CRC-64-AVRO fingerprint value (only required to be the same on every message).  Not judged: texts outside the "
               "grammars (the readers are more lenient), JSON documents that do not fit the schema, duplicate object keys, unpaired surrogate "
               "escapes, writer options the reader cannot be configured for (custom date / time formats: text-level clauses only), types the "
               "Avro reader returns as another Arrow type (Int8/16 -> Int32, UInt64 -> Int64, Float16 -> Float32, Time32(s) -> ms, "
               "Time64(ns) -> us, Timestamp(s) -> ms, Interval(YearMonth) -> MonthDayNano, Large* -> plain, Date64 -> Timestamp(ms)). "
               "Pinned from documented behaviour: csv-core skips empty lines and accepts a last record without line break; arrow-avro "
               "names union fields after their Avro types and normalises the zone \"UTC\" to \"+00:00\" (the driver uses those).  Quick tier "
               "~11 k events, thorough ~180 k.",
    technique="TLA+ grammars as operators, TLC exhaustive model checking of the round-trip theorems on small universes, TLC trace validation of "
              "recorded writer / reader executions with the grammar evaluated on the logged text and bytes",
    rule="Trace_TextFormats.tla: csv_split - reader fields = CsvGrammar!Split(text) or error on a width mismatch; csv_rt - text = "
         "CsvGrammar!Join(cells), Split(text) = cells = all-Utf8 read-back, typed read-back rows = rows written (when the null sentinel differs "
         "from every value and quoting is not switched off for a field that needs it); json_text - for every text JsonGrammar!ParseStream "
         "accepts and whose documents fit the schema: reader ok and decoded trees = the denoted values (and = the rows written, for writer "
         "output); json_rt - writer text is RFC 8259 with one document / element per row, rows out = rows in; avro - rows out = rows in, "
         "container / prefix parse, block data = AvroEncoding!Encode(rows) and Decode(data) = rows under the declared schema; distinct = "
         "distinct event records",
    assumptions=[
        "row tokens computed by the harness through public accessors identify logical values (vcore::tok); value trees / Avro values are "
        "projections of the input arrays made by the driver (harness/p/c17/src/json.rs tree_of, avro.rs avro_value)",
        "the field strings of non-string CSV columns are what arrow_cast::display::ArrayFormatter produces with the writer's options (the "
        "typed round trip through the reader's parsers is the check on them); string cells are the array values themselves",
        "the Avro schema tree is derived from the schema JSON the writer declared (parsed by the driver with serde_json; the JSON text "
        "itself is validated by JsonGrammar!Parse and compared with the avro.schema entry of the container)",
        "TLC and the Json community module are trusted",
        "types for which a writer or reader reports 'not supported / not implemented' are skipped, not judged",
    ],
)
