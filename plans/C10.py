PLAN = dict(
    id="C10",
    level="model_checking",
    build=["c10"],
    mc=[dict(module="MC_Order", cfg_quick="MC_Order_quick.cfg", cfg_thorough="MC_Order.cfg",
             workers=6, timeout_quick=600, timeout_thorough=3000, args=["-coverage", "600"])],
    drive=[dict(bin="c10", args=["c10"])],
    tv=[
        dict(glob="order-*.ndjson", module="Trace_Order", cfg="Trace_Order.cfg", stateful=True,
             reset_ops=["new"], corrupt=["out", "err"]),
    ],
    level_text="The total order of arrow-rs is a TLA+ definition (Order.tla: Cmp per key kind with SortOptions, IEEE-754 totalOrder computed "
               "from the bit pattern, nested child options, sort acceptance with limits, lexicographic order, rank, partition, comparison "
               "kernels). TLC model-checks the order theorems (total preorder, antisymmetry up to key equality, mirror law of the four "
               "option combinations, null placement at every depth) and the consistency of the derived definitions exhaustively over "
               "small key universes and all columns up to MaxCol rows (MC_Order). The real kernels are bound to it by trace validation: "
               "every recorded call of make_comparator, sort_to_indices, sort, sort_limit, lexsort_to_indices, lexsort, "
               "LexicographicalComparator, rank, partition and cmp::* is judged by TLC against Order.tla on the logged order keys.",
    level_note="Bounded: MC constants in spec/MC_Order*.cfg. Traces: every type of vcore::mk::all_types() the kernels support, random / "
               "low-cardinality / all-null columns up to 40 (quick) or 130 (thorough) rows in several physical realisations, all four "
               "SortOptions, limits 0..len+1, 1-3 column tuples, dictionary and run-end operands, scalars; plus every column of length "
               "<= 3 (quick) / 4 (thorough) over small value domains. Instability is allowed (any valid permutation is accepted).",
    technique="TLA+ operators as the oracle, TLC model checking of the order theorems, TLC trace validation of recorded kernel calls",
    rule="TLC checks the laws of Order.tla for every triple of keys / every column within the MC constants; each recorded kernel call "
         "(event) is validated by TLC against Order.tla; distinct = distinct event records",
    assumptions=[
        "order keys written by the harness (vcore::key) denote the logical values: bit patterns are only split into limbs, dictionary / "
        "run-end arrays are projected to the values they denote, a union whose selected child is null is a null (Array::logical_nulls)",
        "TLC and the Json community module are trusted",
        "types for which a kernel reports 'not supported / not implemented / no natural order / nested comparison' are skipped, not judged",
    ],
)
