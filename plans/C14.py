import os
import re
import subprocess
import time

from vlib.core import HARNESS, ToolError, log, run_tlc


def csv_replay(check):
    """spec -> impl: TLC writes, for every CSV class text up to a length, the records CsvRecords.tla specifies;
    the driver feeds each text to the real arrow-csv Decoder under all 2^(n-1) chunkings and compares."""
    cfg = "Gen_CsvRecords.cfg" if check.tier == "quick" else "Gen_CsvRecords_thorough.cfg"
    cases = os.path.join(check.work, "csv_cases.ndjson")
    t0 = time.time()
    res = run_tlc("Gen_CsvRecords", cfg, os.path.join(check.work, "md_gen_csv"), workers=1, timeout=1800,
                  env_extra={"OUT": cases}, java_opts="-Xss512m", xmx="6g")
    if "Error:" in res["out"] or not os.path.exists(cases):
        log(res["out"][-3000:])
        raise ToolError("TLC could not generate the CSV cases")
    n = sum(1 for _ in open(cases))
    r = subprocess.run([os.path.join(HARNESS, "target", "release", "c14"), "replay-csv", "--cases", cases],
                       stdout=subprocess.PIPE, stderr=subprocess.STDOUT, text=True, timeout=3600)
    if r.returncode != 0:
        log(r.stdout[-3000:])
        raise ToolError("c14 replay-csv failed")
    import json
    mism = 0
    for line in r.stdout.splitlines():
        if line.startswith("MISMATCH "):
            mism += 1
            if mism <= 3:
                check.violation("arrow-csv Decoder differs from CsvRecords.tla on a TLC-generated text (some chunking)",
                                dict(kind="gen", module="Gen_CsvRecords", case=json.loads(line[9:])))
        m = re.match(r"REPLAYED (\d+)", line)
        if m:
            check.gen_cases += int(m.group(1))
        m = re.match(r"DRIVER c14-replay-csv cases=(\d+) sessions=(\d+)", line)
        if m:
            check.extra_cov["csv_replay_sessions"] = int(m.group(2))
    check.mc_runs.append(dict(module="Gen_CsvRecords", cfg=cfg, mode="generate", cases=n, wall_s=round(time.time() - t0, 1)))
    with open(cases) as f:
        lines = f.read().splitlines()
    if lines:
        check.samples.append(dict(kind="tlc_generated_case", module="Gen_CsvRecords", case=json.loads(lines[len(lines) // 2])))
    log(f"[gen] Gen_CsvRecords: {n} texts with their specified records replayed into arrow-csv under every chunking "
        f"({check.extra_cov.get('csv_replay_sessions', 0)} sessions), {mism} mismatches ({time.time() - t0:.0f}s)")


def faithful_avro_model(check):
    """the transcription of what RecordDecoder::decode does on an incomplete body (Faithful = TRUE) must make TLC
    find the chunk dependence of DESIGN 5.1 in the model (known finding C14-avro-soe-body-cut)"""
    t0 = time.time()
    res = run_tlc("MC_AvroSoe", "MC_AvroSoe_faithful.cfg", os.path.join(check.work, "md_soe_faithful"), workers=2, timeout=900,
                  java_opts="-Xss256m", xmx="4g")
    if "Invariant I_ChunkIndependent is violated" in res["out"]:
        check.notes.append("MC_AvroSoe with Faithful = TRUE (row decoder transcribed as implemented): TLC finds a violation of "
                           "I_ChunkIndependent, i.e. re-derives known finding C14-avro-soe-body-cut at the model level")
        log(f"[mc] MC_AvroSoe MC_AvroSoe_faithful.cfg: chunk dependence of the implemented row decoder re-derived "
            f"(expected violation of I_ChunkIndependent) ({time.time() - t0:.0f}s)")
    else:
        log(res["out"][-2000:])
        raise ToolError("the faithful Avro single-object model no longer exhibits the known finding; update spec / known_findings.txt")


MC = dict(workers=6, java_opts="-Xss256m")

PLAN = dict(
    id="C14",
    level="model_checking",
    build=["c14"],
    mc=[
        dict(module="MC_ChunkDecoder", cfg_quick="MC_ChunkDecoder_quick.cfg", cfg_thorough="MC_ChunkDecoder.cfg",
             timeout_quick=900, timeout_thorough=5400, **MC),
        dict(module="MC_IpcFraming", cfg_quick="MC_IpcFraming_quick.cfg", cfg_thorough="MC_IpcFraming.cfg",
             timeout_quick=900, timeout_thorough=5400, **MC),
        dict(module="MC_IpcFraming", cfg="MC_IpcFraming_meta2.cfg", tiers=("thorough",), timeout=5400, **MC),
        dict(module="MC_IpcFraming", cfg="MC_IpcFraming_w4.cfg", tiers=("thorough",), timeout=5400, **MC),
        dict(module="MC_AvroOcf", cfg_quick="MC_AvroOcf_quick.cfg", cfg_thorough="MC_AvroOcf.cfg",
             timeout_quick=900, timeout_thorough=5400, may_be_unused=["SoeStep"], **MC),
        dict(module="MC_AvroOcf", cfg="MC_AvroOcf_2blocks.cfg", tiers=("thorough",), timeout=5400, may_be_unused=["SoeStep"], **MC),
        dict(module="MC_AvroSoe", cfg_quick="MC_AvroSoe_quick.cfg", cfg_thorough="MC_AvroSoe.cfg",
             timeout_quick=900, timeout_thorough=5400, may_be_unused=["OcfStep"], **MC),
        dict(module="MC_CsvRecords", cfg_quick="MC_CsvRecords_quick.cfg", cfg_thorough="MC_CsvRecords.cfg",
             timeout_quick=900, timeout_thorough=5400, **MC),
    ],
    drive=[dict(bin="c14", args=["c14"])],
    tv=[
        dict(glob="chunk-*.ndjson", module="Trace_Chunk", cfg="Trace_Chunk.cfg", stateful=True, reset_ops=["oneshot"],
             corrupt=["batches", "out", "schema", "rows", "bs"], timeout_quick=2400, timeout_thorough=9000),
        dict(glob="ipccall-*.ndjson", module="Trace_Ipc", cfg="Trace_Ipc.cfg", stateful=True, reset_ops=["ipcinput"],
             corrupt=["consumed", "gave", "nb", "out"], timeout_quick=2400, timeout_thorough=9000),
    ],
    extra_steps=[csv_replay, faithful_avro_model],
    level_text="TLC exhaustively model-checks the chunk-independence theorem on the decoder models: the generic push-decoder "
               "session (ChunkDecoder.tla: every abstract input up to a length, ALL 2^(n-1) chunkings also with empty chunks, byte / "
               "record granularity, strict / lenient end of input, early flushes) and the byte-level refinements IpcFraming.tla "
               "(StreamDecoder states Header / Message / Body / Finished, continuation marker, length prefix, zero-copy and scratch "
               "paths, EOS, truncation), AvroFraming.tla (zig-zag varints split anywhere, OCF header and blocks read through a "
               "chunked BufRead, single-object prefix / body machine with schema switches at flush) and CsvRecords.tla (the csv-core "
               "automaton with quotes and CR LF across chunk boundaries, RecordDecoder and the documented decode / flush loop). The "
               "real decoders are bound to the specifications by (a) trace validation: sessions of IPC StreamDecoder, CSV Decoder, "
               "JSON Decoder, Avro Reader over a chunked source, Avro single-object / Confluent Decoder, ParquetMetaDataPushDecoder "
               "and the Flight decoder on writer-produced and damaged inputs under every single split point, all partitions over a "
               "window of structural positions, one byte at a time, with empty chunks, random multi-splits, batch sizes {1,2,3,7,1024} "
               "- TLC (Trace_Chunk.tla) requires the same outcome class, rows, schema for every chunking, batches within batch_size "
               "and equality with the one-shot reader; for a sample of the IPC sessions every single decode call (bytes offered, bytes "
               "consumed, batch returned) must be the one IpcFraming.tla predicts from the framing of the input (Trace_Ipc.tla, W = 4); "
               "(b) replay of TLC-generated CSV texts with their specified records into "
               "arrow-csv under all chunkings.",
    level_note="Bounded: MC constants in spec/MC_*.cfg (fixed-width fields of the framings are shrunk: W, G, S, F; varint digits are "
               "base 4). The JSON tape decoder, the Parquet metadata decoder and the Flight decoder have no byte-level model: they are "
               "covered by the generic theorem and by trace validation only. Flight 'chunking' is the readiness schedule of the inner "
               "stream. Rows are identified by the canonical tokens of vcore::tok; schemas by a hash of their Debug form; error "
               "outcomes by phase and error variant, never by message.",
    technique="TLA+ state machines (generic + byte-level refinements), TLC exhaustive model checking over all chunkings, TLC trace "
              "validation of recorded decoder sessions, replay of TLC-generated cases",
    rule="Trace_Chunk.tla: every session (format, input, batch size, cuts) must have the outcome class, concatenated rows and schema "
         "of the single-chunk session of the same input, no batch above batch_size, and the single-chunk session must equal the "
         "one-shot reader (StreamReader, csv::Reader, json::Reader, avro Reader, ParquetMetaDataReader); known finding "
         "C14-avro-soe-body-cut is identified by (Avro single-object / Confluent framing, a cut strictly inside a record body, "
         "decode ParseError or flush row-count mismatch); distinct = distinct event records",
    assumptions=[
        "row tokens computed by the harness through public accessors identify logical values (vcore::tok)",
        "TLC and the Json community module are trusted",
        "each decoder is driven exactly by the protocol of its documentation (harness/p/c14/src/*.rs head comments)",
        "four differences between StreamDecoder and StreamReader that do not depend on the chunking are pinned in Trace_Chunk.tla "
        "(RefAgrees): empty body last without EOS, end of input inside a length prefix, bytes after EOS, empty input",
    ],
)
