import json
import os
import re
import subprocess


def gen_and_validate(check):
    """spec -> impl: TLC prints every behaviour of MC_Ownership of length GenDepth (one shortest history per
    distinct state at that depth); the driver replays each on real objects, recording a trace that is then
    validated by Trace_Ownership like any other (so TLC, not the harness, judges every step)."""
    from vlib import core
    cfg = "Gen_Ownership_quick.cfg" if check.tier == "quick" else "Gen_Ownership.cfg"
    res = core.run_tlc("MC_Ownership", cfg, os.path.join(check.work, "md_gen"), workers=4, timeout=1800,
                       java_opts="-Xss256m", xmx="8g")
    if "Error:" in res["out"] or res["rc"] != 0:
        core.log(res["out"][-3000:])
        raise core.ToolError("TLC GEN MC_Ownership failed")
    cases = sorted(set(json.loads('"' + m + '"') for m in re.findall(r'^"CASE (.*)"$', res["out"], re.M)))
    if not cases:
        raise core.ToolError("GEN MC_Ownership produced no behaviours")
    path = os.path.join(check.work, "cases_MC_Ownership.ndjson")
    with open(path, "w") as f:
        f.write("\n".join(cases) + "\n")
    r = subprocess.run([os.path.join(core.HARNESS, "target", "release", "c16"), "replay", "--cases", path, "--out", check.work],
                       stdout=subprocess.PIPE, stderr=subprocess.STDOUT, text=True, timeout=1800)
    m = re.search(r"REPLAYED (\d+)", r.stdout)
    if r.returncode != 0 or not m:
        core.log(r.stdout[-3000:])
        raise core.ToolError("c16 replay failed")
    check.gen_cases += int(m.group(1))
    check.mc_states += res["states"]
    check.mc_distinct += res["distinct"]
    check.mc_runs.append(dict(module="MC_Ownership", cfg=cfg, states=res["states"], distinct=res["distinct"],
                              mode="generate", cases=len(cases)))
    check.samples.append(dict(kind="tlc_generated_behaviour", module="MC_Ownership", case=json.loads(cases[len(cases) // 2])))
    core.log(f"[gen] MC_Ownership {cfg}: {len(cases)} behaviours from TLC replayed on real objects")
    saved = check.plan["tv"]
    check.plan["tv"] = [dict(glob="gen-*.ndjson", module="Trace_Ownership", cfg="Trace_OwnershipGen.cfg", stateful=True,
                             reset_ops=["reset"], corrupt=["rcs", "views", "pool"])]
    try:
        check.validate_traces()
    finally:
        check.plan["tv"] = saved


PLAN = dict(
    id="C16",
    level="model_checking",
    build=["c16"],
    mc=[dict(module="MC_Ownership", cfg_quick="MC_Ownership_quick.cfg", cfg_thorough="MC_Ownership.cfg",
             workers=6, timeout_quick=900, timeout_thorough=5400, xmx="12g",
             may_be_unused=["A_StreamExport", "A_StreamNext", "A_NewNested", "A_Shrink"]),    # off in the quick model; own models / GEN
        # nested arrays (two custom regions) and their export / import / stream, 2 handle slots + the derived region
        dict(module="MC_Ownership", cfg="MC_Ownership_nested.cfg", workers=6, timeout=900, xmx="8g",
             may_be_unused=["A_WrapN", "A_Shrink"]),     # need three handle slots / the shrink model
        # Buffer::shrink_to_fit and empty prefix slices (capacity / reservation follow the wanted size, incl. 0)
        dict(module="MC_Ownership", cfg_quick="MC_Ownership_shrink.cfg", cfg_thorough="MC_Ownership_shrink3.cfg", workers=6,
             timeout=3600, xmx="8g", may_be_unused=["A_WrapN", "A_StreamExport", "A_StreamNext", "A_NewNested"]),
        # all histories of 4 handle slots over 2 regions (every drop order of 4 references)
        dict(module="MC_Ownership", cfg="MC_Ownership_4h.cfg", tiers=("thorough",), workers=6, timeout=5400, xmx="12g",
             may_be_unused=["A_StreamExport", "A_StreamNext", "A_NewNested", "A_Shrink"])],
    drive=[dict(bin="c16", args=["c16"], timeout=1800)],
    tv=[
        dict(glob="own-*.ndjson", module="Trace_Ownership", cfg="Trace_Ownership.cfg", stateful=True, reset_ops=["reset"],
             timeout_thorough=5400, corrupt=["hs", "rcs", "views", "vviews", "nviews", "relc", "pool", "ok"]),
    ],
    extra_steps=[gen_and_validate],
    level_text="TLC exhaustively model-checks the ownership state machine (Ownership.tla: regions with standard / Vec / custom "
               "owners and exported C structs; handles = Buffers, slices, arrays with and without validity, arrays of nested types "
               "(validity, dictionary, struct, list, dictionary-in-list: one custom-owned region per buffer), exported and imported "
               "FFI arrays and C streams; every history of new / clone / slice / wrap-in-array / export / import / drop / into_mutable / into_vec / "
               "unary_mut / try_unary_mut (succeeding and failing closure) / BooleanBuffer ^= / shrink_to_fit / claim, i.e. every drop order and "
               "interleaving) against: no live handle refers to released memory, what a live handle shows never changes, every "
               "owner is released exactly once and exactly when its last reference goes, content changes only in a step that starts "
               "with a single reference, the pool equals the live claimed regions, an imported array mirrors the exported one. The "
               "real code is bound in both directions: every behaviour TLC generates up to a depth is replayed on real objects, and "
               "random histories (incl. handles dropped concurrently from several real threads) are recorded; in both cases TLC "
               "validates after every call the strong counts (Buffer::strong_count), the visible values and validity of every live "
               "handle, the drop counter of every custom owner (which scribbles the memory), the release-callback count of every "
               "exported struct, TrackingMemoryPool::used(), and the success / same-address report of every in-place attempt.",
    level_note="Bounded: MC constants in spec/MC_Ownership*.cfg (2-3 regions incl. derived ones, 3-4 handle slots, states "
               "identified up to handle-slot numbering); threads are modelled as interleaved atomic steps; real multi-threaded "
               "drops are validated on the state after the join. Standard / Vec-owned regions have no observable release, so a "
               "premature free of those is only seen through pool accounting; custom owners and exported structs are counted.",
    technique="TLA+ state machine, TLC model checking, TLC-generated behaviours replayed on real objects, TLC trace validation "
              "of recorded executions",
    rule="TLC explores every history of Ownership.tla within the MC constants; behaviours generated by TLC and random recorded "
         "histories of real Buffers / arrays / FFI structs / TrackingMemoryPool are validated call by call by TLC against "
         "Ownership.tla; distinct = distinct event records",
    assumptions=[
        "Buffer::strong_count, FFI set_release / set_private_data (used to count release callbacks) and "
        "TrackingMemoryPool::used are trusted observers",
        "release of standard allocations is not observable without a memory checker",
        "TLC and the Json community module are trusted",
    ],
)
