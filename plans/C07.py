PLAN = dict(
    id="C07",
    level="model_checking",
    build=["c07"],
    mc=[
        dict(module="MC_Truncate", cfg_quick="MC_Truncate_quick.cfg", cfg_thorough="MC_Truncate.cfg", workers=2,
             timeout_quick=600, timeout_thorough=2400),
        dict(module="MC_Stats", cfg_quick="MC_Stats_quick.cfg", cfg_thorough="MC_Stats.cfg", workers=4,
             timeout_quick=600, timeout_thorough=2400),
    ],
    drive=[dict(bin="c07", args=["c07"])],
    tv=[
        dict(glob="stats-*.ndjson", module="Trace_Stats", cfg="Trace_Stats.cfg", stateful=True, reset_ops=["new"],
             corrupt=["min", "max", "nulls", "rows", "first", "cvmin", "cvnulls", "nv", "order", "bloom"]),
    ],
    level_text="Stats.tla states what a reported statistic must satisfy with respect to the values it covers (B1 bounds under the column's "
               "order with the NaN rule, B2 exact flags attained, B3 exact counts, B4 declared boundary order, B5 offset index delimits the "
               "pages' rows and bytes, B6 bloom filter has no false negative, B7 the same through StatisticsConverter), on order keys compared "
               "by Order.tla (signed / unsigned integers, decimals as integers whatever their physical type, IEEE totalOrder from the bit "
               "pattern, unsigned bytes); Truncate.tla states the bound property of truncated binary / string statistics and transcribes the "
               "documented truncation rule. TLC proves, over bounded universes, that the documented rule implies the property (MC_Truncate: "
               "every byte string of length <= 4 over {00,'a',7F,80,FF} and every UTF-8 string of <= 3 code points over the width / surrogate / "
               "maximum boundaries, at every truncation length) and that the documented running-statistics rules imply B1-B4 for every page "
               "sequence of a float column (MC_Stats). The real writer is bound to it by trace validation: for every column chunk of files "
               "written with ArrowWriter (and, for BYTE_ARRAY decimals, the low-level column writer) TLC receives the values decoded from each "
               "page alone and judges the footer statistics, column index, offset index, page header statistics, bloom probes and "
               "StatisticsConverter arrays.",
    level_note="Bounded: MC constants in spec/MC_Truncate*.cfg, spec/MC_Stats*.cfg. Traces are random (seeded): 51 column types (all integer "
               "widths and signedness, float16/32/64 with NaNs and signed zeros, decimals stored as INT32 / INT64 / FIXED_LEN_BYTE_ARRAY / "
               "BYTE_ARRAY, temporal types, intervals, strings with multi-byte characters and long common prefixes, binary, fixed size binary, "
               "booleans, lists, dictionaries), random / ascending / descending / constant sequences, pages of 1-8 rows, statistics levels "
               "None / Chunk / Page, truncation lengths None / 1 / 2 / 3 / 64, bloom filters with tiny to large ndv, writer versions 1 and 2. "
               "Not decided: bloom false-positive rate, hash fidelity (insertion and probing use the same public API).",
    technique="TLA+ operators as the oracle, TLC model checking of the truncation theorem and the statistics machine, TLC trace validation of written files",
    rule="TLC checks TruncationSound for every (string, length) of the MC universes and B1-B4 in every state of the statistics machine; "
         "every recorded page / column chunk is validated by TLC against Stats.tla; distinct = distinct event records",
    assumptions=[
        "order keys written by the harness (vcore::key) denote the values: Parquet physical values are mapped to Arrow values by the format's type mapping only (widths, unsigned reinterpretation, big-endian two's complement decimals)",
        "the values covered by a page are those decoded from that page alone with the crate's own page and column readers",
        "the column's sort order is the natural order of its Arrow logical type (intervals: none)",
        "TLC and the Json community module are trusted",
    ],
)
