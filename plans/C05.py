PLAN = dict(
    id="C05",
    level="model_checking",
    build=["c05"],
    mc=[
        dict(module="MC_Dremel", cfg_quick="MC_Dremel_quick.cfg", cfg_thorough="MC_Dremel.cfg",
             workers=4, timeout_quick=900, timeout_thorough=3000),
        dict(module="MC_ParquetWrite", cfg_quick="MC_ParquetWrite_quick.cfg", cfg_thorough="MC_ParquetWrite.cfg",
             workers=4, timeout_quick=600, timeout_thorough=3000),
        dict(module="MC_ParquetWrite", cfg="MC_ParquetWrite_bytes.cfg", workers=4, timeout=3000, tiers=("thorough",)),
        dict(module="MC_ParquetWrite", cfg="MC_ParquetWrite_nolimit.cfg", workers=4, timeout=3000, tiers=("thorough",)),
    ],
    drive=[dict(bin="c05", args=["c05"])],
    tv=[
        dict(glob="rt-*.ndjson", module="Trace_ParquetRoundTrip", cfg="Trace_ParquetRoundTrip.cfg", stateful=True,
             reset_ops=["new", "par"], corrupt=["rout", "rg", "gs", "b", "types_out", "nullable_out", "names_out", "nrows"]),
        dict(glob="lv-*.ndjson", module="Trace_ParquetRoundTrip", cfg="Trace_ParquetRoundTrip.cfg",
             corrupt=["maxdef", "maxrep"]),
    ],
    level_text="Dremel.tla defines record shredding (Shred) and, independently, record assembly (Assemble) over optional / required "
               "leaves, structs, lists and maps; TLC checks Assemble(Shred(v)) = v, level bounds and record delimiting for every column of "
               "every schema of the bounded universe (MC_Dremel). ParquetWrite.tla is the ArrowWriter as a state machine (write with the "
               "row-group split loop, flush, close, per-column mini batches, data page limits, dictionary fallback, column writers "
               "interleaved and closed in any order, chunks appended in schema order); TLC checks row conservation in order, row-group "
               "sizes (and their documented closed form GroupSizes), equal rows in all columns, page partitioning, the dictionary-page "
               "prefix rule and quiescence after close for every history within the constants (MC_ParquetWrite). The real writer and reader "
               "are bound to both by trace validation: every write()/flush()/close() of recorded ArrowWriter sessions is judged call by call "
               "(flushed row groups, buffered rows, footer, offset index, page kinds, schema and row tokens read back), files written by "
               "ArrowColumnWriters on threads in chosen completion orders are judged the same way, and the definition / repetition levels "
               "and leaf values read with the low-level column reader are compared with Dremel!Shred of the logged logical values.",
    level_note="Bounded: MC constants in spec/MC_Dremel*.cfg and spec/MC_ParquetWrite*.cfg. Traces are random (seeded): schemas over the type "
               "zoo of vcore::mk plus nested / dictionary / run-end / decimal shapes of harness/p/c05, <= 48 (quick) / 130 (thorough) rows, "
               "random WriterProperties (version, encodings per leaf, dictionary on/off and tiny dictionary page limit, page byte / row limits, "
               "write batch size, row group row / byte limits, 7 compression codecs, statistics levels, bloom filters, content-defined "
               "chunking, offset index on/off). Bit-level fidelity of encodings and codecs is decided only through the identity law. "
               "Types / configurations the writer reports as unsupported are skipped; a writer error is a refusal (not judged).",
    technique="TLA+ state machine + operators, TLC model checking, TLC trace validation of recorded executions",
    rule="TLC explores every schema/column of the Dremel universe and every write/flush/close history, column interleaving, completion "
         "order, fallback point and size-driven decision of ParquetWrite.tla within the MC constants; every recorded ArrowWriter call, "
         "parallel-writer file and level stream is validated by TLC against ParquetWrite!GroupSizes / the file invariants / Dremel!Shred; "
         "distinct = distinct event records",
    assumptions=[
        "row tokens computed by the harness through public accessors identify logical values (vcore::tok); dictionary and run-end columns are compared by the values they denote",
        "Field::dict_id (deprecated, not part of Field equality) is left out of the logged type strings",
        "decimal values are generated within the declared precision",
        "the low-level column reader is an instrument: it is driven until the footer's level count is reached (an empty data page makes it report end of column once)",
        "TLC and the Json community module are trusted",
    ],
)
