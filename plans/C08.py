import json
import os
import re
import subprocess

from vlib.layout_steps import nested_selftest


def _tlc_cases(check, module, cfg, workers, timeout, env=None, what="generate"):
    """run TLC on a model whose invariant Emit prints `"CASE <json>"` lines; returns the distinct cases.
    An invariant violation of the model itself is a violation of the check (as in core.model_check)."""
    from vlib import core
    res = core.run_tlc(module, cfg, os.path.join(check.work, "md_" + module + "_" + cfg), workers=workers, timeout=timeout,
                       env_extra=env, java_opts="-Xss256m", xmx="8g", extra_args=["-coverage", "600"])
    out = res["out"]
    if res["timeout"]:
        raise core.ToolError(f"TLC {module} {cfg} timed out after {timeout}s")
    bad = re.search(r"Error: (Invariant (\w+) is violated|Deadlock reached)", out)
    if bad:
        check.violation(f"TLC model {module}: {bad.group(1)}", dict(kind="model", module=module, cfg=cfg, tlc_output=out[out.find("Error:"):][:6000]))
        return []
    if "Error:" in out or res["rc"] != 0:
        core.log(out[-3000:])
        raise core.ToolError(f"TLC {module} {cfg} failed")
    zero = core.coverage_zero_actions(out)
    if zero:
        raise core.ToolError(f"vacuity: actions never taken in {module}: {zero}")
    cases = sorted(set(json.loads('"' + m + '"') for m in re.findall(r'^"CASE (.*)"$', out, re.M)))
    if not cases:
        raise core.ToolError(f"{module} {cfg} produced no cases")
    check.mc_states += res["states"]
    check.mc_distinct += res["distinct"]
    check.mc_runs.append(dict(module=module, cfg=cfg, states=res["states"], distinct=res["distinct"], mode=what, cases=len(cases)))
    path = os.path.join(check.work, f"cases_{module}.ndjson")
    with open(path, "w") as f:
        f.write("\n".join(cases) + "\n")
    return cases, path


def _run_driver(check, args, timeout=3600):
    from vlib import core
    binp = os.path.join(core.HARNESS, "target", "release", "c08")
    r = subprocess.run([binp] + args + ["--tier", check.tier, "--seed", str(check.seed), "--out", check.work],
                       stdout=subprocess.PIPE, stderr=subprocess.STDOUT, text=True, timeout=timeout)
    if r.returncode != 0:
        core.log(r.stdout[-3000:])
        raise core.ToolError(f"c08 {args[0]} failed rc={r.returncode}")
    for line in r.stdout.splitlines():
        if line.startswith("DRIVER"):
            core.log("[gen] " + line)
            for kv in line.split()[2:]:
                if "=" in kv:
                    k, v = kv.split("=", 1)
                    if v.isdigit():
                        check.extra_cov[f"{args[0]}_{k}"] = check.extra_cov.get(f"{args[0]}_{k}", 0) + int(v)
    m = re.search(r"REPLAYED (\d+)", r.stdout)
    return int(m.group(1)) if m else 0


def gen_and_validate(check):
    """spec -> impl.  (1) Variant: TLC model-checks the laws of VariantFormat.tla over the bounded universes and prints
    every tight valid encoding with the value it denotes; the driver enumerates the same universes against
    Variant::try_new / VariantMetadata::try_new.  (2) Structural corruption plans: the driver writes the region maps
    of its valid files, TLC enumerates every plan (Gen_Untrusted), the driver applies each one and runs the safe
    readers.  Both produce traces that Trace_Untrusted judges like any other."""
    from concurrent.futures import ThreadPoolExecutor
    from vlib import core
    q = check.tier == "quick"

    def variant():
        got = _tlc_cases(check, "MC_Variant", "MC_Variant_quick.cfg" if q else "MC_Variant.cfg", workers=4,
                         timeout=900 if q else 5400, what="exhaustive+generate")
        if got:
            cases, path = got
            n = _run_driver(check, ["variant", "--cases", path])
            check.gen_cases += n
            check.samples.append(dict(kind="tlc_generated_case", module="MC_Variant", case=json.loads(cases[len(cases) // 2])))
            core.log(f"[gen] MC_Variant: {len(cases)} tight valid encodings / universes from TLC; {n} byte strings replayed into Variant::try_new")

    def plans():
        _run_driver(check, ["shapes"])
        got = _tlc_cases(check, "Gen_Untrusted", "Gen_Untrusted_quick.cfg" if q else "Gen_Untrusted.cfg", workers=2,
                         timeout=900 if q else 3600, env={"SHAPES": os.path.join(check.work, "shapes.ndjson")})
        if got:
            cases, path = got
            n = _run_driver(check, ["gen", "--cases", path], timeout=7200)
            check.gen_cases += n
            check.samples.append(dict(kind="tlc_generated_case", module="Gen_Untrusted", case=json.loads(cases[len(cases) // 2])))
            core.log(f"[gen] Gen_Untrusted: {len(cases)} structural corruption plans from TLC applied to real files, {n} reader sessions")

    # the two generators are independent: run them side by side
    with ThreadPoolExecutor(max_workers=2) as ex:
        for f in [ex.submit(variant), ex.submit(plans)]:
            f.result()
    saved = check.plan["tv"]
    check.plan["tv"] = [
        dict(glob="untrusted-gen-*.ndjson", module="Trace_Untrusted", cfg="Trace_Untrusted.cfg", corrupt=["outcome", "newlen"],
             stateful=True, reset_ops=["none"], timeout_thorough=7200),
    ]
    try:
        check.validate_traces()
    finally:
        check.plan["tv"] = saved


def _ok_batch(ev):
    return ev.get("ev") == "session" and ev.get("outcome") == "ok" and ev.get("batches") and not ev["batches"][0]["big"] and ev["batches"][0]["cols"]


def _rows(ev):
    if _ok_batch(ev):
        ev["batches"][0]["nrows"] += 1
        return True
    return False


def _coltype(ev):
    if _ok_batch(ev):
        ev["batches"][0]["schema"][0]["s"] += "#"
        return True
    return False


def _nc(ev):
    if _ok_batch(ev):
        for c in ev["batches"][0]["cols"]:
            if c["nulls"]["present"]:
                c["nulls"]["nc"] += 1
                return True
    return False


def _short(ev):
    if _ok_batch(ev):
        for c in ev["batches"][0]["cols"]:
            if c["t"]["k"] == "prim" and c["len"] > 0:
                c["bufs"][0]["nbytes"] -= 1
                return True
    return False


def _offs(ev):
    if _ok_batch(ev):
        for c in ev["batches"][0]["cols"]:
            if c["t"]["k"] in ("utf8", "bin", "list") and len(c["bufs"][0]["ints"]) >= 2 and c["len"] >= 1:
                c["bufs"][0]["ints"][-1] = c["bufs"][0]["ints"][0] - 1
                return True
    return False


def _declared(ev):
    if _ok_batch(ev) and ev["batches"][0]["decl"]:
        ev["batches"][0]["decl"][0]["nullable"] = not ev["batches"][0]["decl"][0]["nullable"]
        return True
    return False


def _vf(ev):
    if _ok_batch(ev):
        ev["batches"][0]["vf"] = False
        return True
    return False


def _panic(ev):
    if ev.get("ev") == "session" and ev.get("outcome") == "err":
        ev["outcome"] = "panic"
        ev["wfile"] = "some/file.rs"
        ev["msg"] = "an unknown panic"
        return True
    return False


def _variant_tok(ev):
    if ev.get("ev") == "variant" and ev.get("outcome") == "ok":
        ev["tok"] += "#"
        return True
    return False


def _variant_accepts(ev):       # an encoding the real code rejected, presented as accepted
    if ev.get("ev") == "variant" and ev.get("outcome") == "err" and ev.get("src") == "trunc":
        ev["outcome"] = "ok"
        return True
    return False


PLAN = dict(
    id="C08",
    level="fault_enumeration",
    build=["c08"],
    mc=[dict(module="MC_Untrusted", cfg_quick="MC_Untrusted_quick.cfg", cfg_thorough="MC_Untrusted.cfg", workers=4,
             timeout_quick=600, timeout_thorough=3600)],
    drive=[dict(bin="c08", args=["c08"], timeout=7200)],
    tv=[dict(glob="untrusted-drive-*.ndjson", module="Trace_Untrusted", cfg="Trace_Untrusted.cfg",
             corrupt=["outcome", "newlen", "nb"], stateful=True, reset_ops=["none"], timeout_thorough=7200)],
    extra_steps=[
        nested_selftest("untrusted-drive-*.ndjson", "Trace_Untrusted", "Trace_Untrusted.cfg",
                        [("rows", _rows), ("column_type", _coltype), ("null_count", _nc), ("short_buffer", _short), ("offsets", _offs),
                         ("declared_schema", _declared), ("self_validation", _vf), ("unknown_panic", _panic),
                         ("variant_value", _variant_tok), ("variant_accepts_invalid", _variant_accepts)]),
        gen_and_validate,
    ],
    level_text="Fault enumeration over untrusted input. Valid files of every format (Arrow IPC file / stream, Flight messages, Parquet "
               "with several encodings / codecs / page versions, Avro OCF and single-object, CSV, JSON) are written by arrow-rs, their "
               "structure is mapped into regions (magic numbers, fixed-width and variable-width length / offset / count fields, metadata, "
               "payload, lines), and corrupted in four ways: (a) every structural corruption plan that TLC enumerates from Untrusted.tla "
               "for the region map of each real file (bit flips, byte sets, truncation at region boundaries +-1, inflation of length fields "
               "x2 / +1 / 2^31-1 / 2^32-1 / -1 / 0 with and without keeping the enclosing length consistent, duplicated / dropped regions "
               "and frames, regions and frames spliced in from another file), (b) single-byte corruptions, (c) truncations, (d) cross-splices. "
               "Every corrupted input is read by the safe reader APIs (FileReader, FileDecoder, StreamReader, StreamDecoder, "
               "FlightRecordBatchStream, flight_data_to_batches, ParquetMetaDataReader, SerializedFileReader pages and rows, "
               "ParquetRecordBatchReader with and without page index, Avro Reader / Decoder, CSV and JSON readers with given and inferred "
               "schema) in isolated worker processes under panic capture, a CPU watchdog and a capping allocator. TLC judges every session: "
               "the outcome must be ok or err, every returned batch must be well formed by the independent validator of ArrowLayout.tla and "
               "agree with the declared schema, and the harness must have applied the plan as the specification defines it. The Variant "
               "binary format is specified as a validator / decoder (VariantFormat.tla); TLC model-checks its laws over all byte strings of "
               "bounded universes, and every string of those universes plus corruptions of valid encodings is fed to Variant::try_new / "
               "VariantMetadata::try_new with full traversal: acceptance must imply validity and the decoded value must be the specified one.",
    level_note="The quantifier 'all byte strings' is sampled (exhaustive only over the Variant universes and, in the thorough tier, over "
               "every single-byte position x {00, FF, ^01, ^80} and every truncation length of every base file). Time and allocation "
               "bounds are observations of the harness (4 s CPU per session, 16 MiB + 64 x input size), not something TLC proves. "
               "Batches too large to dump are only checked by the crate's own validate_full (recorded as an observation).",
    technique="TLA+ outcome protocol + structural corruption planner (TLC-enumerated plans replayed into the real readers), TLA+ validators "
              "(ArrowLayout, VariantFormat) as oracle, TLC model checking of the validators' laws, TLC trace validation of every session",
    rule="per session: outcome in {ok, err} /\\ BatchWellFormed(schema, columns, rows) of every returned batch /\\ schema agreement /\\ plan "
         "effect = Untrusted!PlanNewLen / PlanFirstTouched; per Variant event: accepted => VariantValid /\\ token = Decode; distinct = distinct "
         "session records",
    assumptions=[
        "the physical dump (harness/vcore/src/dump.rs) copies sizes, pointer residues and buffer contents faithfully",
        "panic capture, the CPU watchdog and the capping allocator of harness/p/c08 observe panics, hangs and oversized requests",
        "TLC and the Json community module are trusted",
    ],
)
