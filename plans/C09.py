from vlib.layout_steps import info_stats, nested_selftest

DEFINITE = {"offset_out_of_order", "offset_first_negative", "null_buf_short", "buffer0_one_byte_short", "key_eq_dictionary_len",
            "utf8_byte_ff", "run_end_repeated", "view_offset_past_buffer", "listview_size_negative"}


def _nc(ev):          # an accepted control whose reported null count is bumped
    if ev.get("ev") == "cand" and ev["accepted"] and ev["corr"] == "none" and ev["d"]["nulls"]["present"]:
        ev["d"]["nulls"]["nc"] += 1
        return True
    return False


def _len(ev):         # an accepted control claiming 1000 more rows than its buffers hold
    if ev.get("ev") == "cand" and ev["accepted"] and ev["corr"] == "none" and ev["d"]["t"]["k"] == "prim" and ev["d"]["len"] > 0:
        ev["d"]["len"] += 1000
        return True
    return False


def _offs(ev):        # an accepted utf8 control whose first offset becomes negative
    d = ev.get("d", {})
    if ev.get("ev") == "cand" and ev["accepted"] and ev["corr"] == "none" and d["t"]["k"] == "utf8" and d["bufs"][0]["ints"]:
        d["bufs"][0]["ints"][0] = -1
        return True
    return False


def _got(ev):         # the produced array is malformed although the candidate was fine
    if ev.get("ev") == "cand" and ev["accepted"] and ev["has_got"] and ev["got"]["t"]["k"] == "prim" and ev["got"]["len"] > 0:
        ev["got"]["bufs"][0]["nbytes"] = 0
        return True
    return False


def _crash(ev):
    if ev.get("ev") == "cand" and ev["accepted"] and ev["corr"] == "none":
        ev["crashed"] = True
        return True
    return False


def _batch(ev):       # a rejected batch candidate with a short column, flipped to accepted
    if ev.get("ev") == "candbatch" and not ev["accepted"] and ev["corr"] == "column_one_shorter":
        ev["accepted"] = True
        return True
    return False


PLAN = dict(
    id="C09",
    level="exploration",
    build=["c09"],
    mc=[
        dict(module="MC_ArrowLayout", cfg_quick="MC_ArrowLayout_quick.cfg", cfg_thorough="MC_ArrowLayout.cfg",
             workers=6, timeout_quick=900, timeout_thorough=3600, args=["-coverage", "600"]),
        dict(module="MC_Utf8", cfg_quick="MC_Utf8_quick.cfg", cfg_thorough="MC_Utf8.cfg", workers=4,
             timeout_quick=600, timeout_thorough=3600, args=["-coverage", "600"]),
    ],
    drive=[dict(bin="c09", args=["c09"])],
    tv=[dict(glob="layout-*.ndjson", module="Trace_Layout", cfg="Trace_Layout.cfg", corrupt=["accepted"], timeout_thorough=3600,
             corrupt_filter=lambda e: e.get("ev") == "cand" and e["accepted"] is True and any(e["corr"].startswith(x) for x in DEFINITE))],
    extra_steps=[
        nested_selftest("layout-*.ndjson", "Trace_Layout", "Trace_Layout.cfg",
                        [("null_count", _nc), ("length", _len), ("offset", _offs), ("result", _got), ("crash", _crash), ("batch", _batch)]),
        info_stats("layout-*.ndjson", "Trace_Layout", "Trace_Layout.cfg", max_files=1),
    ],
    level_text="Bounded systematic enumeration: every corruption kind (one offset out of order / negative / out of bounds, one key / type id / "
               "dense offset / view field / run end out of range, length+offset overflow and near-overflow, short and misaligned buffers, wrong "
               "child type / count / length, wrong null count, invalid UTF-8 of every class, each individual offset / view moved into the middle of a code point while the buffer stays valid UTF-8, validity bitmap too short or on a type without one) "
               "x every type family x {first, middle, last element} x {offset 0, sliced} is materialised with real buffers and passed to every validating entry point of arrow-rs "
               "(ArrayData::try_new, ArrayDataBuilder::build with and without align_buffers, build_unchecked + validate_full incl. nested children, "
               "typed try_new constructors and checked buffer constructors, RecordBatch::try_new(_with_options), to_ffi -> from_ffi -> validate_full "
               "incl. a tampered C struct). The verdict of each call is re-judged by TLC with the independent validator WellFormed of "
               "ArrowLayout.tla (written from the Arrow format specification): accepted => WellFormed(candidate) and WellFormed(result) and no "
               "crash while every safe accessor / formatter / kernel walks the result (in a forked child). TLC also model-checks the validator "
               "itself (MC_ArrowLayout: Logical defined on every well-formed layout, closure under slicing; MC_Utf8: table-driven UTF-8 validity "
               "= validity by decoding).",
    level_note="Arrays <= 8 rows; type zoo of harness/p/c09/src/main.rs::zoo(); a panic (not a crash) while exercising an accepted "
               "well-formed array is counted (sampled_panic_on_wellformed), not a violation of the property text; rejected-but-well-formed "
               "candidates (constructors may be stricter) are counted only. from_ffi itself is unsafe and unvalidated in this tree: the "
               "checked import is from_ffi + validate_full, and only corruptions whose import is memory safe are sent through it.",
    technique="TLA+ operator WellFormed (ArrowLayout.tla) as oracle, TLC trace validation of recorded constructor verdicts, TLC model checking of the validator",
    rule="accepted => WellFormed(candidate dumped from its parts before the call) /\\ WellFormed(result) /\\ ~crashed, judged by TLC per event; "
         "distinct = distinct (entry point, candidate) records",
    assumptions=[
        "the physical dump (harness/vcore/src/dump.rs) copies sizes, pointer residues and buffer contents faithfully; integers are clamped to +-2^30 and the specification saturates",
        "TLC and the Json community module are trusted",
        "alignment demanded = natural Rust alignment of the element type (what arrow-rs requires), empty buffers exempt",
    ],
)
