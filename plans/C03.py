PLAN = dict(
    id="C03",
    level="model_checking",
    build=["vk"],
    mc=[dict(module="MC_Coalescer", cfg_quick="MC_Coalescer_quick.cfg", cfg_thorough="MC_Coalescer.cfg",
             workers_quick=6, workers_thorough=12, timeout_quick=600, timeout_thorough=5400)],
    gen=[dict(module="Gen_Coalescer", cfg="Gen_Coalescer.cfg", bin="vk", args=["c03replay"], workers=1,
              args_quick=["-simulate", "num=400", "-depth", "12"], args_thorough=["-simulate", "num=6000", "-depth", "12"],
              timeout_quick=300, timeout_thorough=1500)],
    drive=[dict(bin="vk", args=["c03"])],
    tv=[
        dict(glob="select-*.ndjson", module="Trace_Select", cfg="Trace_Select.cfg", corrupt=["out", "err"]),
        dict(glob="coalescer-*.ndjson", module="Trace_Coalescer", cfg="Trace_Coalescer.cfg", stateful=True,
             reset_ops=["new"], corrupt=["out", "buffered", "has"]),
    ],
    level_text="TLC exhaustively model-checks the BatchCoalescer state machine (Coalescer.tla: every push / filtered push / push by indices / finish / pop / limit change history within small constants) against the size, conservation, order and FIFO invariants; the selection kernels are TLA+ operators (Select.tla). The real code is bound to both by trace validation: every recorded kernel call over all data types and physical layouts, and every step of random BatchCoalescer histories, must be explained by the specification (TLC evaluates the expected result of every event).",
    level_note="Bounded: MC constants in spec/MC_Coalescer*.cfg; traces are random (seeded) over the type zoo of harness/vcore/src/mk.rs. Row identity is the canonical token of vcore::tok. Types a kernel reports as unsupported are skipped.",
    technique="TLA+ state machine + operators, TLC model checking, TLC trace validation of recorded executions",
    rule="TLC explores every push/filter/indices/finish/pop/set-limit history of Coalescer.tla within the MC constants; "
         "recorded calls of filter/take/concat/interleave/zip/merge_n/nullif/shift/slice/dictionary-gc over every data type and "
         "physical realisation, and recorded BatchCoalescer histories, are validated event by event by TLC against Select.tla / "
         "Coalescer.tla; distinct = distinct event records",
    assumptions=[
        "row tokens computed by the harness through public accessors identify logical values (vcore::tok)",
        "TLC and the Json community module are trusted",
        "types for which a kernel reports 'not supported / not implemented' are skipped, not judged",
    ],
)
