PLAN = dict(
    id="C20",
    level="model_checking",
    build=["c20"],
    mc=[dict(module="MC_Like", cfg_quick="MC_Like_quick.cfg", cfg_thorough="MC_Like.cfg", workers=4,
             timeout_quick=400, timeout_thorough=1800, require_all_actions=False)],
    drive=[dict(bin="c20", args=["run"])],
    tv=[dict(glob="like-*.ndjson", module="Trace_Like", cfg="Trace_Like.cfg", corrupt=["out", "err"])],
    level_text="Like.tla defines LIKE/ILIKE (%, _, backslash escapes, Unicode simple case folding on the driver alphabet), "
               "starts_with/ends_with/contains, byte- and character-based substring (with the UTF-8 char-boundary error rule), "
               "length/bit_length and concat_elements on sequences of code points / bytes. TLC model-checks the matcher against an "
               "independent NFA position-set definition and the prefix/suffix/contains reductions for every pattern and string up to "
               "length 4 over an alphabet with %, _, backslash and ASCII / non-ASCII case pairs. The real kernels are bound by trace "
               "validation: every pattern of length <= 3 over {%,_,\\,a,A,e-acute} against every string of length <= 3 (exhaustive), "
               "plus random longer strings/patterns, array and scalar patterns, Utf8/LargeUtf8/Utf8View/dictionary/binary encodings; "
               "TLC recomputes every row of every recorded call.",
    level_note="Regular expressions are only judged for escaped-literal patterns (= contains, with flag i = case-insensitive contains); "
               "full regex semantics and full Unicode case folding are outside the specification (folding table covers the driver alphabet). "
               "Outputs are additionally checked with ArrayData::validate_full (valid UTF-8) as an observation.",
    technique="TLA+ operators (LIKE matcher, substring, UTF-8 boundaries) model-checked by TLC; TLC trace validation of recorded kernel calls",
    rule="exhaustive small universe (patterns<=3 x strings<=3) + seeded random cases; each event is one kernel call judged row by row by TLC; distinct = distinct event records",
    assumptions=[
        "Unicode simple case folding of the driver alphabet is transcribed correctly in Like.tla (Fold)",
        "TLC and the Json community module are trusted",
    ],
)
