PLAN = dict(
    id="C11",
    level="model_checking",
    build=["c11"],
    mc=[
        dict(module="MC_RowFormat", cfg_quick="MC_RowFormat_quick.cfg", cfg_thorough="MC_RowFormat.cfg",
             workers=6, timeout_quick=600, timeout_thorough=3000, args=["-coverage", "600"]),
        dict(module="MC_RowFormat", cfg="MC_RowFormat_long.cfg", workers=6, timeout=3000, tiers=["thorough"], args=["-coverage", "600"]),
    ],
    drive=[dict(bin="c11", args=["c11"])],
    tv=[
        dict(glob="rows-*.ndjson", module="Trace_RowFormat", cfg="Trace_RowFormat.cfg", stateful=True,
             reset_ops=["new"], corrupt=["bytes", "cmp", "err"]),
    ],
    level_text="RowFormat.tla states the laws of the row format on rows (order keys, encoded bytes): byte order = lexicographic order of the "
               "values under the per-field SortOptions (the order of Order.tla), byte equality iff logical equality, decode of any selection, "
               "binary-array round trip, Row Ord/Eq = byte order; and a byte-level model of the encoding (sentinels, sign flip, float "
               "transform, descending inversion, block-based variable-length encoding, lists). TLC model-checks the encoding theorems "
               "(order preservation, injectivity, prefix-freeness, decodability, pre-computed length) exhaustively on a scaled-down "
               "instance (blocks of 2 and 4 bytes). The real RowConverter is bound to the laws by trace validation: every row produced by "
               "convert_columns / append over several input arrays of one converter is compared by TLC with every other row of that "
               "converter, decodes and round trips are compared with the logged values.",
    level_note="Bounded: MC constants in spec/MC_RowFormat*.cfg. Traces: every field type of vcore::mk::all_types() plus nested "
               "combinations, every SortOptions per field, 2-3 field tuples, <= ~45 rows per converter (all pairs), byte strings cut "
               "around the 8- and 32-byte block boundaries with sentinel-like bytes, several physical realisations of the same rows. "
               "Byte-for-byte agreement with the spec encoding is not demanded (a different order-preserving encoding is allowed).",
    technique="TLA+ laws + byte-level encoding model, TLC model checking of the encoding theorems, TLC trace validation of recorded converter histories",
    rule="TLC checks the encoding theorems for every value within the MC constants; each recorded converter event (conversion with all "
         "row pairs, Ord/Eq probes, decode, binary round trip) is validated by TLC against RowFormat.tla / Order.tla; distinct = distinct event records",
    assumptions=[
        "order keys written by the harness (vcore::key) denote the logical values; a union value is (type id, child value) with a null child "
        "kept as a value of its type id, as the row format documents",
        "TLC and the Json community module are trusted",
        "field types RowConverter::new rejects are skipped",
    ],
)
