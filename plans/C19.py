PLAN = dict(
    id="C19",
    level="exploration",
    build=["c19"],
    mc=[dict(module="MC_BitOps", cfg_quick="MC_BitOps_quick.cfg", cfg_thorough="MC_BitOps.cfg",
             workers=6, timeout_quick=300, timeout_thorough=1800),
        dict(module="MC_BitBuilder", cfg_quick="MC_BitBuilder_quick.cfg", cfg_thorough="MC_BitBuilder.cfg",
             workers=6, timeout_quick=300, timeout_thorough=1800)],
    drive=[dict(bin="c19", args=["c19"], timeout_quick=600, timeout_thorough=3600)],
    tv=[
        dict(glob="ops-*.ndjson", module="Trace_BitOps", cfg="Trace_BitOps.cfg", xmx="4g", timeout_quick=900,
             timeout_thorough=5400,
             corrupt=["count", "idx", "runs", "uw", "un", "fq", "d1", "bnot", "tt", "asu", "aso", "ret", "out", "m", "ex",
                      "outs", "uw_r", "ud1_r", "ex_r"]),
        dict(glob="kf-*.ndjson", module="Trace_BitOps", cfg="Trace_BitOps.cfg", xmx="3g", timeout_thorough=3600,
             corrupt=["d1", "ret"]),
        dict(glob="builder-*.ndjson", module="Trace_BitOps", cfg="Trace_BitOps.cfg", stateful=True, reset_ops=["bnew"],
             xmx="3g", timeout_thorough=3600, corrupt=["bits", "len"]),
    ],
    level_text="Exhaustive exploration of the stated grid with a TLA+ oracle: every bit-mask primitive of arrow-buffer "
               "(construction from bits / closures / iterators, slice / sliced / bit_slice, not / and / or / xor / and-not and "
               "the op-assign forms, unary / binary / quaternary word operations given as truth tables - allocating and in place -, "
               "set_bits, count_set_bits, find_nth_set_bit_position, has_true / has_false, BitIterator (incl. nth / nth_back / last / "
               "max / count), BitIndexIterator / BitIndexU32Iterator, BitSliceIterator, BitChunks, UnalignedBitChunk, NullBuffer "
               "union / union_many / contains / expand, equality, BooleanBufferBuilder and NullBufferBuilder) is called at every "
               "bit offset 0..=130 x every length 0..=200 (thorough; the boundary lattice {0,1,7,8,9,63,64,65,127,128,129,130} x "
               "{..,200} in the quick tier) with all-zero, all-one, alternating, single-bit and random contents, on 64-byte aligned "
               "and on byte-shifted base pointers; TLC recomputes every result from the logged logical bits with the operators of "
               "BitOps.tla (Trace_BitOps). In-place forms log the whole destination before and after (frame condition Outside); "
               "read-only forms run twice with complemented surrounding bits and both runs must agree. MC_BitOps model-checks the "
               "operator laws on all short sequences, MC_BitBuilder the packed BooleanBufferBuilder machine against its abstract "
               "effect.",
    level_note="Two-operand primitives walk every (left offset, length) of the grid with one right offset of equal and one of "
               "different sub-word alignment, plus the boundary cube offsets x offsets x lengths (a seeded twelfth of it in the quick "
               "tier); lengths above 200 are sampled: a large-size stage runs every primitive with a word / 16-word-block fast path at "
               "lengths {512, 1023, 1024, 1025, 2047, 2048, 4096+k} x offsets {0,1,7,8,63,64,65} x contents {all 0, all 1, one 0 in "
               "all-1 and one 1 in all-0 in the prefix word / first block / middle / last block / suffix word, random} (scalar "
               "results: whole product in both tiers; long results, logged run-length encoded and compared with RLE(expected): whole "
               "product in thorough, a seeded eighth in quick), plus a few random lengths up to 1600. The builders are driven by (builder length, source offset, "
               "length) triples of the same grid followed by random calls.",
    technique="TLA+ operators on bit sequences as the oracle, TLC trace validation of recorded calls over an exhaustive "
              "(offset, length, content, alignment) grid, TLC model checking of operator laws and of the builder machine",
    rule="every recorded call is an evaluation: TLC recomputes the result of the primitive with the BitOps.tla operator on the "
         "logged logical input bits and compares it with what arrow-buffer returned (plus Outside() on logged destinations and "
         "equality of the two runs with different surrounding bits); distinct = distinct event records",
    assumptions=[
        "the driver's bit extraction (get bit i of a byte slice) and placement of logical bits into buffers is right; it is "
        "six lines of code and is cross-checked by the events themselves (e.g. the destination must hold the input before an "
        "in-place call)",
        "word functions are bitwise (given by truth tables); closures that mix bit positions have no bit-sequence meaning",
        "TLC and the Json community module are trusted",
    ],
)
