PLAN = dict(
    id="C15",
    level="model_checking",
    build=["c15"],
    mc=[
        dict(module="MC_PushDecoder", cfg_quick="MC_PushDecoder_quick.cfg", cfg_thorough="MC_PushDecoder.cfg",
             workers=6, timeout_quick=900, timeout_thorough=5400),
        dict(module="MC_PushDecoder", cfg="MC_PushDecoder_noindex.cfg", workers=6, timeout=900, tiers=("thorough",)),
        # liveness: under a fair environment (strong fairness on exact delivery) the decoder finishes
        dict(module="MC_PushDecoder", cfg="MC_PushDecoder_live.cfg", workers=6, timeout=900,
             may_be_unused=["PushSubset", "PushSuperset", "PushEarly", "ClearAll", "Rebuild"]),
    ],
    drive=[dict(bin="c15", args=[])],
    tv=[
        dict(glob="fronts-*.ndjson", module="Trace_PushDecoder", cfg="Trace_PushDecoder.cfg", stateful=True,
             reset_ops=["new"], corrupt=["toks", "n", "res", "boundary"]),
    ],
    level_text="The ParquetPushDecoder protocol is an explicit TLA+ state machine (PushDecoder.tla: row-group frontier with selection slicing and offset/limit budget, per-row-group filter / data phases with their DataRequests computed from the page index by the transcribed scan_ranges / expand_to_batch_boundaries, the non-coalescing PushBuffers with exact-match clearing, batch and reader hand-off styles, into_builder rebuilds) over an abstract file of 2 row groups x 2 columns with misaligned pages and a dictionary page. TLC explores every delivery schedule of the environment (exact, partial, superset up to the whole file, early, clear, rebuild) for every configuration within the MC constants and checks: the rows produced are always a prefix of ParquetScan!Expected(cfg) and equal it at Finished (schedule independence), every requested range lies in the file and in a needed column chunk of the active row group, a request never repeats a range just supplied, exact delivery bounds the number of requests, every page a reader touches (every page of a cache batch for cached predicate columns) was fetched, batches have 1..batch_size rows; and, under a fair environment, termination (liveness). The real code is bound by trace validation: recorded runs of the real ParquetPushDecoder (try_decode and try_next_reader styles, into_builder rebuilds and refusals, metadata given or push-decoded) under seeded adversarial schedules, of the async ParquetRecordBatchStream (stream and next_row_group styles) over an AsyncFileReader returning Pending at will, vectored or per range, metadata given or fetched, and of the synchronous reader, for the same files and options, are validated event by event: in-bounds and in-chunk requests, sufficiency, request bound, 1..batch_size batches, and every front-end producing exactly Expected(cfg) recomputed by TLC from the logged configuration.",
    level_note="Bounded: MC constants in spec/MC_PushDecoder*.cfg (liveness on a smaller instance). Traces: seeded random files (<= 200 rows) x configurations of C06 x schedules; real byte ranges are checked against the file length and the column-chunk ranges of the metadata, not against the abstract page units (the specification allows the decoder to ask for less, and in any grouping). Real concurrency of handed-off readers is not modelled (readers are drained sequentially, interleaved with decoder calls). into_builder rebuilds change batch size and selection policy only.",
    technique="TLA+ state machine, TLC model checking (safety + liveness), TLC trace validation of recorded executions",
    rule="TLC explores every environment schedule of PushDecoder.tla for every configuration within the MC constants; recorded runs of the sync reader, "
         "the push decoder and the async stream under adversarial I/O are validated event by event by TLC against ParquetScan.tla / the protocol properties; "
         "distinct = distinct event records",
    assumptions=[
        "rows are identified by the id column the drivers write; every other column is a function of the id (asserted on the full read)",
        "predicate functions are pure and row-wise; their values on a plain full read are recorded and combined by the specification",
        "deliveries never split a requested range across two supplied ranges (documented non-coalescing requirement of PushBuffers)",
        "TLC and the Json community module are trusted",
    ],
)
