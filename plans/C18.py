import os
import re
import subprocess
import time
from concurrent.futures import ThreadPoolExecutor

from vlib.core import HARNESS, TV_JAVA_OPTS, ToolError, log, run_tlc


def lossy_writer_model(check):
    """non-vacuity of W1-W4 / W7: the same abstract machine with (a) a writer that ignores the count returned by
    `write` (loses the rest of a short write), (b) a writer whose terminating call, retried after a failure, does
    nothing and reports success (`finished` set before the write) must violate the writer invariants in TLC"""
    for cfg, what in (("MC_FaultIO_lossy.cfg", "a writer that ignores the count returned by write"),
                      ("MC_FaultIO_forgetful.cfg", "a writer whose retried terminating call reports success without writing")):
        t0 = time.time()
        res = run_tlc("MC_FaultIO", cfg, os.path.join(check.work, "md_neg"), workers=2, timeout=600,
                      java_opts="-Xss256m", xmx="4g")
        out = res["out"]
        if "Invariant I_W3 is violated" in out or "Invariant I_Writer is violated" in out:
            check.notes.append(f"MC_FaultIO with {cfg} ({what}): TLC finds a violation of the writer invariants, i.e. they are not vacuous")
            log(f"[mc] MC_FaultIO {cfg}: defective writer rejected by the model as expected ({time.time() - t0:.0f}s)")
        else:
            log(out[-3000:])
            raise ToolError(f"{cfg}: the defective writer was not rejected by the writer invariants")


def detection_selftest(check):
    """the driver's deliberately defective writers / readers (harness/p/c18/src/selftest.rs: write instead of write_all,
    swallowed write / flush errors, `finished` set before the fallible write of the trailer, unwrap on an I/O error, bytes re-sent after a short write, Interrupted reported as a
    failure, a made-up error, a reader taking a source error for the end of data, a partial last row, a cut footer file
    accepted) must be rejected event by event by Trace_FaultIO; their well-behaved counterparts must be accepted"""
    t0 = time.time()
    r = subprocess.run([os.path.join(HARNESS, "target", "release", "c18"), "selftest", "--out", check.work],
                       stdout=subprocess.PIPE, stderr=subprocess.STDOUT, text=True, timeout=600)
    m = re.search(r"DRIVER c18-selftest events=(\d+) controls=(\d+)", r.stdout)
    if r.returncode != 0 or not m:
        log(r.stdout[-2000:])
        raise ToolError("c18 selftest failed")
    n_bad, n_good = int(m.group(1)), int(m.group(2))

    def tv(name):
        return run_tlc("Trace_FaultIO", "Trace_FaultIO.cfg", os.path.join(check.work, "md_" + name), workers=1, timeout=600,
                       env_extra={"TRACE": os.path.join(check.work, name + ".ndjson")}, java_opts=TV_JAVA_OPTS, xmx="2g")
    with ThreadPoolExecutor(max_workers=2) as ex:
        bad, good = list(ex.map(tv, ["bad-00", "good-00"]))
    rejected = {int(i) for i in re.findall(r'<<"REJECT", (\d+),', bad["out"])}
    if rejected != set(range(1, n_bad + 1)) or "KNOWN" in bad["out"]:
        log(bad["out"][-3000:])
        raise ToolError(f"detection self-test: Trace_FaultIO rejected {sorted(rejected)} of the {n_bad} defective sessions")
    if "REJECT" in good["out"] or "KNOWN" in good["out"] or "Error:" in good["out"] or good["rc"] != 0:
        log(good["out"][-3000:])
        raise ToolError("detection self-test: Trace_FaultIO rejected a session of the well-behaved control writer / reader")
    check.extra_cov["selftest_defective_sessions_rejected"] = n_bad
    check.extra_cov["selftest_control_sessions_accepted"] = n_good
    log(f"[selftest] Trace_FaultIO: {n_bad}/{n_bad} sessions of deliberately defective writers / readers rejected, "
        f"{n_good}/{n_good} control sessions accepted ({time.time() - t0:.0f}s)")


PLAN = dict(
    id="C18",
    level="fault_enumeration",
    build=["c18"],
    mc=[dict(module="MC_FaultIO", cfg_quick="MC_FaultIO_quick.cfg", cfg_thorough="MC_FaultIO.cfg",
             workers_quick=2, workers_thorough=4, timeout_quick=400, timeout_thorough=2400)],
    drive=[dict(bin="c18", args=["run"], timeout=3000)],
    tv=[
        dict(glob="fio-*.ndjson", module="Trace_FaultIO", cfg="Trace_FaultIO.cfg",
             corrupt=["acc_len", "acc_digest", "sret", "ares", "got", "outcome", "rb_rows"],
             # (the CSV read-back rule leaves the last row of a cut text unconstrained)
             corrupt_filter=lambda e: not (e.get("op") == "wsess" and e.get("rb", "none") != "none" and e.get("rb_cls") == "csv")),
    ],
    extra_steps=[lossy_writer_model, detection_selftest],
    level_text="Every sink call index of every writer session (arrow-ipc FileWriter / StreamWriter, parquet ArrowWriter and AsyncArrowWriter, arrow-csv Writer, "
               "arrow-json LineDelimitedWriter / ArrayWriter, arrow-avro OCF and single-object writers; direct, BufWriter-wrapped and "
               "*_buffered variants; finish / close / into_inner / flush / sync scripts) gets a fault of every kind (dead sink, one-shot "
               "error, short write, Interrupted, Ok(0)); every source call index of every reader session (IPC FileReader / StreamReader, "
               "ParquetRecordBatchReader and SerializedFileReader over a faulty ChunkReader, CSV / JSON / Avro readers) gets an error, a "
               "one-shot error, a short read and Interrupted; every produced file is read back cut at every length (all lengths up to 2 KiB "
               "files in the quick tier, both ends + a stride for larger ones; all lengths up to 16 KiB in the thorough tier). Each session "
               "is one event; TLC (Trace_FaultIO.tla over FaultOps.tla) re-derives the sink's behaviour from the logged call log and judges "
               "W0-W4 (no panic / hang; a sink failure is reported by the issuing or a later API call; all-ok sessions delivered every "
               "byte; accepted bytes are a prefix of the fault-free output, by length + digest projections; short / Interrupted writes are "
               "invisible; W7: when every reported failure came from a terminating call, a later terminating call reports success only with "
               "the complete output in the sink - every writer has scripts that retry a failed finish once and twice or follow it by close / "
               "into_inner, with one-shot and persistent faults at every sink call of the terminating phase; W5: Parquet never reports a successful finish / close after a failed row group; W6: when a terminating call succeeds "
               "after a reported failure, the accepted bytes read back with the format's reader never contain a row that was not written) and T1-T3 (cut footer files rejected; self-delimiting formats yield a prefix; source faults yield an error or "
               "the fault-free rows). The abstract writer (std BufWriter + write_all protocol) and reader (read_exact framing, footer "
               "validation) machines of FaultIO.tla are model-checked for every fault index / kind / capacity / cut.",
    level_note="Quick tier: at most 60 fault indices per session script (all of them when the script has <= 60 calls, else first / last / "
               "around flushes + a spread), thorough 400. Output equality is decided on (length, FNV-1a digest) projections computed by "
               "the harness; the Avro container is compared modulo its 16 random sync bytes. After a reported one-shot error the prefix "
               "clause is not applied (writer state unspecified; the terminating call may still emit bytes). A terminating call that "
               "returns Ok after an earlier call of the same session reported the failure (csv close, json finish: nothing left to write) "
               "is counted (driver ok_after_err) but not judged. Faults inside compression codecs and async writers are not covered.",
    technique="fault enumeration over every sink / source call index and truncation length; TLA+ properties evaluated by TLC trace "
              "validation; TLC model checking of the abstract fault protocol",
    rule="one event per session (fault plan x API script) or truncation length; TLC evaluates FaultOps!WriterOk / ReadOk / CutOk on the "
         "logged call logs, API results, length + digest projections and row tokens; distinct = distinct event records",
    assumptions=[
        "the harness sink / source wrappers behave as logged (their call logs are re-checked by TLC against FaultOps!SinkAnswers)",
        "FNV-1a 64 digests of accepted bytes vs the fault-free prefix decide byte equality (collision probability negligible)",
        "row tokens computed through public accessors identify logical values (vcore::tok)",
        "a cut file never ends in bytes that form a valid footer (model assumption of FaultIO.tla; the real readers are checked at every cut)",
        "TLC and the Json community module are trusted",
    ],
)
