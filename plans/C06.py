PLAN = dict(
    id="C06",
    level="model_checking",
    build=["c06"],
    mc=[
        dict(module="MC_RowSelection", cfg_quick="MC_RowSelection_quick.cfg", cfg_thorough="MC_RowSelection.cfg",
             workers=6, timeout_quick=600, timeout_thorough=5400),
        dict(module="MC_ParquetScan", cfg_quick="MC_ParquetScan_quick.cfg", cfg_thorough="MC_ParquetScan.cfg",
             workers=6, timeout_quick=600, timeout_thorough=5400),
        dict(module="MC_ParquetScan", cfg="MC_ParquetScan_rg22.cfg", workers=6, timeout=5400, tiers=("thorough",)),
    ],
    drive=[dict(bin="c06", args=[])],
    tv=[
        dict(glob="rowsel-*.ndjson", module="Trace_RowSelection", cfg="Trace_RowSelection.cfg",
             corrupt=["out", "rc", "sk", "tot", "any", "out2", "eq"]),
        dict(glob="scan-*.ndjson", module="Trace_ParquetScan", cfg="Trace_ParquetScan.cfg",
             corrupt=["toks", "blens", "err"]),
        # the configuration grid of MC_ParquetScan on a real 3 + 2 row file
        dict(glob="tiny-*.ndjson", module="Trace_ParquetScan", cfg="Trace_ParquetScan.cfg",
             corrupt=["toks", "blens"]),
    ],
    level_text="The selection algebra and the scan semantics are explicit TLA+ (RowSelection.tla, ParquetScan.tla). TLC model-checks (MC_RowSelection) that every run-list algorithm of the crate, transcribed from selection/{mod,selector,algebra,ranges}.rs (and_then, intersection, union, split_off, offset, limit, trim, from_filters, from_consecutive_ranges, scan_ranges, expand_to_batch_boundaries, normalisation), denotes the corresponding operation on row positions for every pair of run lists within the MC constants, including empty runs; and (MC_ParquetScan) that the read plan the readers build (with_predicate chain, offset/limit as selection operations, trim, selectors / mask / auto cursors, row-group-at-a-time budget) returns exactly Expected(cfg) = full read then row groups, selection, predicates in order, offset, limit, in batches of 1..batch_size rows, for every configuration of a tiny file. The real code is bound to the specification by trace validation: every recorded call of the public RowSelection API in both backings, and every recorded scan of real Parquet files (varied row-group / page layouts, offset index on/off, flat, list and struct columns, nullable columns, v1/v2 pages, dictionary, compression) through ParquetRecordBatchReaderBuilder under random and boundary configurations must be explained by the specification: TLC recomputes the expected rows from the logged configuration and the predicate values recorded on a plain full read.",
    level_note="Bounded: MC constants in spec/MC_RowSelection*.cfg, spec/MC_ParquetScan*.cfg. Traces are seeded random plus row-group / page boundary configurations on files of <= 200 rows. offset / limit / trim / expand_to_batch_boundaries are crate-private: they are model-checked as transcriptions and bound to the code only through the scans that use them. Batch boundaries are not compared, only 1 <= rows <= batch size. Row selections always span exactly the rows of the chosen row groups (the documented contract).",
    technique="TLA+ operators + state machine, TLC model checking, TLC trace validation of recorded executions",
    rule="TLC explores every pair of run lists (MC_RowSelection) and every scan configuration of a tiny file (MC_ParquetScan) within the MC constants; "
         "recorded RowSelection API calls and recorded scans of real files are validated event by event by TLC against RowSelection.tla / ParquetScan.tla; "
         "distinct = distinct event records",
    assumptions=[
        "rows are identified by the id column the drivers write; every other column is a function of the id, and the full read used as reference returns ids 0..N-1 (asserted by the driver)",
        "predicate functions are pure and row-wise; their values on a plain full read are recorded and combined by the specification",
        "row tokens computed by the harness through public accessors identify logical values (vcore::tok)",
        "TLC and the Json community module are trusted",
    ],
)
