import os
import time

from vlib.core import ToolError, log, run_tlc


def tracker_ahead_in_model(check):
    """IpcDict.tla transcribes the order of side effects of the writer (the tracker is updated while a batch's
    dictionaries are visited, before anything is written).  With ContinueAfterError = TRUE the unconditional round-trip
    invariant must be violated: TLC re-derives known finding C04-file-delta-tracker-ahead at the model level."""
    t0 = time.time()
    res = run_tlc("MC_IpcDict", "MC_IpcDict_kf.cfg", os.path.join(check.work, "md_ipcdict_kf"), workers=2, timeout=900,
                  java_opts="-Xss256m", xmx="4g")
    if "Invariant R1_Unconditional is violated" in res["out"]:
        check.notes.append("MC_IpcDict with ContinueAfterError = TRUE and the unconditional invariant R1_Unconditional: TLC finds the "
                           "file-writer / delta-handling history in which a refused write leaves the tracker ahead of the file "
                           "(known finding C04-file-delta-tracker-ahead re-derived at the model level)")
        log(f"[mc] MC_IpcDict MC_IpcDict_kf.cfg: tracker-ahead history re-derived (expected violation of R1_Unconditional) ({time.time() - t0:.0f}s)")
    else:
        log(res["out"][-2000:])
        raise ToolError("the dictionary model no longer exhibits known finding C04-file-delta-tracker-ahead; update spec / known_findings.txt")


MC = dict(java_opts="-Xss256m", xmx="8g")
INV = "R1_RoundTrip R1s_StreamExact R2_FileNoReplacement R3_OneMessagePerAcceptedBatch I_Order I_Sync I_Refusals"

PLAN = dict(
    id="C04",
    level="model_checking",
    build=["c04"],
    mc=[
        dict(module="MC_IpcDict", cfg_quick="MC_IpcDict_quick.cfg", cfg_thorough="MC_IpcDict.cfg", workers=4,
             timeout_quick=900, timeout_thorough=3600, **MC),
        dict(module="MC_IpcDict", cfg="MC_IpcDict_deep.cfg", workers=4, timeout=3600, tiers=("thorough",), **MC),
        dict(module="MC_IpcDict", cfg="MC_IpcDict_stop.cfg", workers=4, timeout=3600, tiers=("thorough",), **MC),
        # every history of <= 4 writes over <= 2 ids, one representative per evolution class
        dict(module="MC_IpcDict", cfg="MC_IpcDict_w4.cfg", workers=4, timeout=5400, tiers=("thorough",), **MC),
        # long random histories (<= 6 writes, <= 3 ids, dictionaries of <= 3 values over 3 symbols), simulation mode
        dict(module="MC_IpcDict", cfg="MC_IpcDict_sim.cfg", workers=4, timeout=420, tiers=("thorough",),
             args=["-simulate", "num=100000", "-depth", "10"], **MC),
    ],
    gen=[
        # every session of <= 2 writes over <= 2 dictionary ids (exhaustive), replayed into the real writers / readers
        dict(module="Gen_IpcDict", cfg_quick="Gen_IpcDict_quick.cfg", cfg_thorough="Gen_IpcDict.cfg", bin="c04", args=["replay"],
             args_quick=[], args_thorough=[], workers=1, timeout=900),
        # every session of <= 3 writes (one representative per evolution class)
        dict(module="Gen_IpcDict", cfg="Gen_IpcDict_w3.cfg", bin="c04", args=["replay"], args_quick=[], args_thorough=[], workers=2,
             timeout=2400, tiers=("thorough",)),
        # long random sessions (<= 6 writes, <= 3 ids, dictionaries of <= 3 values)
        dict(module="Gen_IpcDict", cfg="Gen_IpcDict_deep.cfg", bin="c04", args=["replay"], workers=1,
             args_quick=["-simulate", "num=300", "-depth", "9"], args_thorough=["-simulate", "num=8000", "-depth", "9"],
             timeout_quick=600, timeout_thorough=2400),
    ],
    drive=[dict(bin="c04", args=["run"])],
    tv=[
        dict(glob="rt-*.ndjson", module="Trace_IpcRoundTrip", cfg="Trace_IpcRoundTrip.cfg", stateful=True, reset_ops=["new"],
             corrupt=["res", "n", "cols", "err"],
             corrupt_filter=lambda e: e.get("op") != "write" or str(e.get("res", "")).startswith("ok")),
        dict(glob="flight-*.ndjson", module="Trace_IpcRoundTrip", cfg="Trace_IpcRoundTrip.cfg", corrupt=["res", "err"]),
    ],
    extra_steps=[tracker_ahead_in_model],
    level_text="IpcDict.tla is the dictionary state machine of the IPC writers and readers, transcribed from the code with its order of "
               "side effects: per dictionary id the DictionaryTracker entry (values + array identity for the ptr_eq shortcut), "
               "compare_dictionaries / insert_column deciding none | new | replaced | delta | error under Resend / Delta handling for the "
               "file writer (error_on_replacement) and the stream writers, the emitted message sequence (schema, dictionary batches with "
               "isDelta and the values they carry, record batches, EOS) and the readers (stream readers apply dictionary messages in "
               "order, the file reader loads every dictionary block before any batch). TLC explores every history of dictionary "
               "evolutions (same array, equal copy, extended, shrunk, changed, reversed, emptied) within the constants for both writers "
               "and both handlings and checks the round-trip invariant (every accepted batch is resolved to the values it was written "
               "with, or the writer refused it), no replacement in a file, one message per accepted batch, framing order and "
               "tracker/reader synchronisation. The model is bound to the code in both directions: TLC-generated sessions are replayed "
               "into FileWriter+FileReader, StreamWriter+StreamReader, StreamEncoder+StreamDecoder and FlightDataEncoder+decoder with the "
               "predicted outcomes, dictionary messages and resolved values; recorded sessions of the real writers over the whole type "
               "zoo (sliced / re-laid-out inputs, empty and zero-column batches, all write options, projections, Flight splitting and "
               "hydration) and over a nesting grid (every type family with its own buffer-slicing code as the child of every container "
               "kind, written unsliced / with the batch sliced at an odd offset / with the child carrying its own offset / both) are stepped through the same machine by TLC (Trace_IpcRoundTrip.tla), which computes the expected outcome and "
               "message sequence of every write and judges schema, batch count, rows, projection law and alignment / footer layout.",
    level_note="Bounded: MC constants in spec/MC_IpcDict*.cfg (quick: 2 ids x <= 3 writes, one representative per evolution class; thorough: "
               "<= 2 ids x <= 3 writes with the full evolution set, <= 2 ids x <= 4 writes with representatives, 1 id x <= 5 writes over 3 "
               "symbols, random histories of <= 6 writes over <= 3 ids; Gen: all sessions of <= 2 writes (thorough: <= 3) plus random "
               "sessions of <= 6 writes over <= 3 ids). In the model a batch references every dictionary entry and a "
               "null; real key vectors, nested dictionaries and all other types are covered by trace validation only. Traces are random "
               "(seeded). Row identity is the canonical token of vcore::tok; dictionary equality in the specification is equality of "
               "value tokens (ArrayData equality in the code). Compression codec fidelity is covered only through the identity law. "
               "Flight: batch boundaries after splitting and dictionary ids are not compared (rows after concatenation, messages after "
               "collapsing runs of record batches); sessions whose schema the Flight encoder cannot hydrate (no cast) are skipped. "
               "Writers that report a type as unsupported are skipped, not judged. Nesting grid: 11 containers x 17 families x 4 slicing modes "
               "= 744 triples, each in >= 2 sessions per run (DRIVER line nest_triples_in_2_or_more_sessions); pairs that meet a known finding "
               "on sliced batches (union / run-end below list, large list, map) are kept in sessions of their own.",
    technique="TLA+ state machine (IPC dictionary tracker / reader), TLC model checking, TLC-generated sessions replayed into the code, "
              "TLC trace validation of recorded writer sessions",
    rule="TLC explores every write history of IpcDict.tla within the MC constants and checks " + INV + "; TLC-generated sessions "
         "(exhaustive for <= 2 writes, simulated for <= 6 writes) are replayed into the real writers / readers; recorded sessions "
         "(new / write / finish / read events, Flight sessions) are validated event by event by TLC against IpcDict.tla; distinct = distinct "
         "event records",
    assumptions=[
        "row tokens computed by the harness through public accessors identify logical values (vcore::tok)",
        "the harness lists a batch's dictionaries in the writer's visiting order (checked: TLC compares the ids of the emitted dictionary messages)",
        "TLC and the Json community module are trusted",
        "schemas a writer / Flight encoder reports as unsupported are skipped, not judged",
    ],
)
