PLAN = dict(
    id="C02",
    level="exploration",
    build=["c02"],
    mc=[dict(module="MC_Congruence", cfg="MC_Congruence.cfg", workers=2, timeout=300)],
    drive=[dict(bin="c02", args=["run"])],
    tv=[
        dict(glob="obs-*.ndjson", module="Trace_Congruence", cfg="Trace_Congruence.cfg", corrupt=["o"]),
        dict(glob="eq-*.ndjson", module="Trace_Congruence", cfg="Trace_Congruence.cfg", corrupt=["r", "got"]),
    ],
    level_text="Congruence.tla states the property as a memo discipline: every kernel observation <<key, out>> (key = kernel, options, "
               "data type and the LOGICAL input: the row tuple for row-wise kernels, the whole canonical columns for whole-array kernels; "
               "out = logical output or error outcome) must extend or agree with a function. TLC checks on a small model that step-wise "
               "acceptance is equivalent to functionality of the observation set, and then validates the observations recorded from the real "
               "kernels (arith, cmp, boolean, cast safe/strict, length, date_part, like, sort, rank, partition, aggregates, row format) over "
               "several physical realisations of each logical column (sliced/padded, validity buffer added or dropped, garbage under nulls, "
               "shuffled dictionaries, repartitioned views, split runs) - the per-row memo also yields commutation with take/slice/concat - "
               "plus `==` probes (equal iff type, length, null positions and values coincide) and read-back probes (value(i), iterators, "
               "formatter, slice, to_data/make_array).",
    level_note="Whether the memoised function is the right function is decided by C03/C10-C13/C20. Inputs are random (seeded) over the type zoo; "
               "observations are sorted by key by the driver (so that TLC's memo stays small) and identical observations are capped at 3 copies.",
    technique="TLA+ memo state machine (functionality of kernel observations), TLC model check of the discipline, TLC trace validation of recorded kernel observations",
    rule="one observation per (kernel, options, type, logical row tuple) or per whole logical column; distinct = distinct event records; non-trivial = key observed from at least two physical realisations (driver reports keys_observed_more_than_once)",
    assumptions=[
        "row tokens computed by the harness through public accessors identify logical values (vcore::tok)",
        "layout mutators preserve the logical column (checked: realisations whose tokens differ are discarded and read-back probes are validated)",
    ],
)
