def _universe(chk):
    """evidence: what part of the exploration is exhaustive"""
    chk.extra_cov["exhaustive_universes"] = [
        "ArrowNativeTypeOp {add,sub,mul}_{checked,wrapping}, div/mod_{checked,wrapping}, kernel rem: all 256 x 256 operand pairs of i8 and of u8",
        "ArrowNativeTypeOp neg_{checked,wrapping}: all values of i8, u8, i16, u16",
        "arrow_arith::numeric::{neg,neg_wrapping}: all values of the 8- and 16-bit integer types (and with the failing rows under nulls)",
        "arrow_arith::numeric binary kernels: all 256 values of Int8 / UInt8 against a scalar, both operand orders (every scalar in the thorough tier)",
        "arrow_arith::boolean: every pair of columns of length <= 3 over {false, true, null}",
        "thorough tier: every 16-bit left operand against 9 boundary right operands, 12 native operations",
    ]


PLAN = dict(
    id="C12",
    level="exploration",
    build=["c12"],
    mc=[
        dict(module="MC_Arith", cfg_quick="MC_Arith_ints_quick.cfg", cfg_thorough="MC_Arith_ints_thorough.cfg",
             workers=6, timeout_quick=900, timeout_thorough=2400, args=["-coverage", "600"]),
        dict(module="MC_Arith", cfg_quick="MC_Arith_big_quick.cfg", cfg_thorough="MC_Arith_big_thorough.cfg",
             workers=6, timeout_quick=1200, timeout_thorough=5400, args=["-coverage", "600"]),
    ],
    drive=[dict(bin="c12", args=["c12"])],
    tv=[
        dict(glob="arith-*.ndjson", module="Trace_Arith", cfg="Trace_Arith.cfg", corrupt=["out", "err", "ov"],
             timeout_quick=1500, timeout_thorough=7200),
    ],
    level_text="The arithmetic is defined in TLA+ (spec/BigNum.tla: sign + base-10^4 limb integers; spec/Arith.tla: checked / wrapping "
               "operations per width and signedness, decimal result-type and rescaling rules, aggregates as folds, Kleene logic). "
               "Every recorded call is re-computed by TLC (trace validation, spec/Trace_Arith.tla). Exhaustive: all i8 x i8 and u8 x u8 "
               "operand pairs for add/sub/mul/div/rem (checked and wrapping) at the ArrowNativeTypeOp level, all 8-bit values against "
               "scalars through arrow_arith::numeric, unary negation over all 8- and 16-bit values, all boolean column pairs of length <= 3. "
               "Boundary-dense + random above (16/32/64/128/256-bit integers, Decimal32/64/128/256 with equal and different scales, "
               "timestamp +- duration, timestamp - timestamp, date - date, duration +- duration, interval +- interval, interval * int64, "
               "date / timestamp (fixed-offset zone) +- day-time interval).",
    level_note="Not decided: IEEE-754 float results (only null propagation, error freedom and totalOrder min/max), calendar-dependent "
               "date/timestamp +- year-month / month-day-nano interval arithmetic (months), named time zones, interval * float. 16-bit binary operations are exhaustive on the left operand "
               "against a boundary set on the right only in the thorough tier. Witnesses (quotient for a remainder, multiple of 2^w "
               "for a wrapped product / sum) are computed by the driver and re-checked by TLC against an equation with a unique solution.",
    technique="TLA+ operator definitions (BigNum/Arith), TLC model checking of definitional identities, TLC trace validation of recorded kernel calls",
    rule="TLC evaluates Arith.tla on every recorded call of ArrowNativeTypeOp::{add,sub,mul,div,mod,neg}_{checked,wrapping}, "
         "arrow_arith::numeric::{add,sub,mul,div,rem,neg}(+_wrapping) (array/array, array/scalar, scalar/array), "
         "arrow_arith::aggregate::{sum,sum_checked,product_checked,min,max,bit_and,bit_or,bit_xor,bool_and,bool_or,min_boolean,max_boolean}, "
         "arrow_arith::boolean::{and_kleene,or_kleene,and,or,and_not,not,is_null,is_not_null}, arrow_arith::arity::{unary,binary,try_unary,try_binary}, "
         "arrow_arith::arithmetic::multiply_fixed_point{,_checked}, arrow_arith::bitwise::{bitwise_and,or,xor,and_not,not,shift_left,shift_right} (8/16-bit): "
         "exact result when representable in the result's physical type, error otherwise, result modulo 2^w for wrapping forms, documented "
         "decimal result precision/scale, null exactly where an input is null, null slots never evaluated; distinct = distinct event records",
    extra_steps=[_universe],
    assumptions=[
        "the driver's limb encoder (vcore::big) and logical projection through public accessors are faithful (a corrupted field is rejected: binding self-test)",
        "TLC and the Json community module are trusted",
        "type combinations the specification does not cover (calendar / float dependent, refused by the kernel) are recorded but not judged",
    ],
)
