PLAN = dict(
    id="C13",
    level="exploration",
    build=["c13"],
    mc=[dict(module="MC_Cast", cfg="MC_Cast.cfg", workers=6, timeout=1800, args=["-coverage", "600"])],
    drive=[dict(bin="c13", args=["c13"])],
    tv=[
        dict(glob="cast-*.ndjson", module="Trace_Cast", cfg="Trace_Cast.cfg", corrupt=["e_strict", "s_out", "f_out", "fwd"],
             timeout_quick=1500, timeout_thorough=7200),
    ],
    level_text="Exhaustive over the ordered pairs of a finite type grid (73 data types: every primitive, decimals of the four widths, dates / times / "
               "timestamps of every unit with and without fixed-offset zones, durations, intervals, string / binary kinds, dictionary, run-end, list kinds, "
               "struct, map, union): can_cast_types against the dispatcher (K1); for the families whose semantics is integer arithmetic (integer, boolean, "
               "decimal, date, time, timestamp, duration) the cast value is defined in TLA+ (spec/Cast.tla CastVal over spec/BigNum.tla) and TLC re-computes "
               "strict and safe outcomes of every recorded cast (exhaustive for 8-bit sources, range / rounding / unit boundaries + random above); for every "
               "other flat family TLC checks the strict/safe duality row-wise from the recorded per-row strict outcomes (K2, K3); re-encodings and lossless "
               "casts are inverted (K4); values are formatted and parsed back (K5); DataType Display is parsed back over a generated type zoo (K6).",
    level_note="Not decided: the numeric value of float <-> integer / decimal / text conversions and of text parsing (only duality and round-trip identities), "
               "text -> date / timestamp / interval / float parsing (only duality and round trips), time-zone database semantics (fixed offsets only), nested targets in the duality law (K1 and re-encoding only), Time32/Time64 values outside a day, "
               "decimal inputs beyond their declared precision. Calendar conversions are specified inside chrono's date range only.",
    technique="TLA+ operator definitions (Cast/BigNum), TLC model checking of cast laws on a small universe, TLC trace validation of recorded casts",
    rule="TLC evaluates, on every recorded event: K1 can_cast_types(a,b) => no 'unsupported' outcome and empty / all-null columns cast; CastVal(a,b,v) for the exact families "
         "(strict errs iff some valid row is not representable, safe nulls exactly those rows, identical values elsewhere); K2/K3 for other flat families from per-row "
         "strict outcomes; K4 cast then inverse = identity for re-encodings of one logical type and for casts the specification calls lossless; K5 parse(format(x)) = x; "
         "K6 DataType::from_str(to_string(t)) = t; text -> integer / duration / decimal / boolean / time of day: the lexical definition TextVal of Cast.tla "
         "(language + denoted value) against the string casts in both modes and Parser::parse, exhaustively for every string of length <= 4 over "
         "{' ', TAB, '+', '-', '0', '1', '9', '.', 'e', 'x', ':'} and on decorated boundary numerals; distinct = distinct event records",
    assumptions=[
        "the driver's limb encoder (vcore::big) and logical row tokens (vcore::tok) are faithful (a corrupted field is rejected: binding self-test)",
        "TLC and the Json community module are trusted",
        "an ArrowError::CastError whose text says 'not supported' is the dispatcher's 'no such cast' outcome",
        "the per-row strict outcome of a value is observed by casting a fresh one-row column holding that value (decoded first for dictionary / run-end columns)",
    ],
)
