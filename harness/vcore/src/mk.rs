//! Random input arrays for every data type (inputs only: never an oracle).
use crate::rng::Rng;
use arrow_array::types::*;
use arrow_array::*;
use arrow_buffer::{ArrowNativeType, BooleanBuffer, Buffer, NullBuffer, OffsetBuffer, ScalarBuffer, i256};
use arrow_schema::{DataType, Field, Fields, IntervalUnit, TimeUnit, UnionFields, UnionMode};
use std::sync::Arc;

#[derive(Clone, Copy, PartialEq, Debug)]
pub enum Profile {
    /// any bit pattern (type boundaries, NaNs, out-of-calendar temporals, out-of-precision decimals)
    Wild,
    /// small values that every formatter / file format can represent
    Tame,
}

#[derive(Clone, Copy)]
pub struct Cfg {
    pub profile: Profile,
    /// percentage of null slots (0 = no validity buffer at all, most of the time)
    pub null_pct: usize,
}

impl Cfg {
    pub fn wild(null_pct: usize) -> Cfg {
        Cfg { profile: Profile::Wild, null_pct }
    }
    pub fn tame(null_pct: usize) -> Cfg {
        Cfg { profile: Profile::Tame, null_pct }
    }
}

pub fn nulls(rng: &mut Rng, len: usize, cfg: Cfg) -> Option<NullBuffer> {
    if cfg.null_pct == 0 {
        return if rng.chance(20) { Some(NullBuffer::new_valid(len)) } else { None };
    }
    let bits: Vec<bool> = (0..len).map(|_| !rng.chance(cfg.null_pct)).collect();
    Some(NullBuffer::from(bits))
}

fn prim_bytes(rng: &mut Rng, width: usize, len: usize, cfg: Cfg, float: bool) -> Vec<u8> {
    let mut out = Vec::with_capacity(width * len);
    for _ in 0..len {
        let mode = if cfg.profile == Profile::Tame { rng.below(2) } else { rng.below(8) };
        let mut b = vec![0u8; width];
        match mode {
            0 | 1 | 2 => {
                if float {
                    // small floats incl. signed zeros
                    let v = [0.0f64, -0.0, 1.0, -1.0, 2.5, -2.5, 100.0, 0.1][rng.below(8)];
                    match width {
                        2 => b.copy_from_slice(&half::f16::from_f64(v).to_le_bytes()),
                        4 => b.copy_from_slice(&(v as f32).to_le_bytes()),
                        _ => b.copy_from_slice(&v.to_le_bytes()),
                    }
                } else {
                    b[0] = rng.below(5) as u8;
                }
            }
            3 => b.iter_mut().for_each(|x| *x = 0xFF), // -1 / MAX unsigned / NaN
            4 => {
                b.iter_mut().for_each(|x| *x = 0xFF);
                b[width - 1] = 0x7F; // MAX signed
            }
            5 => b[width - 1] = 0x80, // MIN signed / -0.0
            _ => b.iter_mut().for_each(|x| *x = rng.next() as u8),
        }
        out.extend_from_slice(&b);
    }
    out
}

fn prim<T: ArrowPrimitiveType>(rng: &mut Rng, dt: &DataType, len: usize, cfg: Cfg, float: bool) -> ArrayRef {
    let w = std::mem::size_of::<T::Native>();
    let bytes = prim_bytes(rng, w, len, cfg, float);
    let buf = Buffer::from_vec(bytes);
    // Buffer::from_vec(Vec<u8>) is 1-aligned only by type; copy into a typed vec for alignment
    let values: ScalarBuffer<T::Native> = {
        let v: Vec<T::Native> = buf
            .as_slice()
            .chunks_exact(w)
            .map(|c| {
                let mut x = T::Native::default();
                unsafe { std::ptr::copy_nonoverlapping(c.as_ptr(), &mut x as *mut T::Native as *mut u8, w) };
                x
            })
            .collect();
        v.into()
    };
    Arc::new(PrimitiveArray::<T>::new(values, nulls(rng, len, cfg)).with_data_type(dt.clone()))
}

/// small in-range values for a primitive type (Tame profile of types whose
/// full range is not displayable / storable everywhere)
fn tame_i64(rng: &mut Rng, lo: i64, hi: i64) -> i64 {
    match rng.below(6) {
        0 => lo,
        1 => hi,
        2 => 0.clamp(lo, hi),
        _ => rng.range(lo, hi),
    }
}

const ALPHABET: &[&str] = &["a", "b", "A", "", "é", "ß", "日", "😀", " ", ",", "\"", "\n", "%", "_", "\\", "0", "z"];

pub fn rand_string(rng: &mut Rng, cfg: Cfg) -> String {
    // exact byte lengths around the inline limit of views (12) and the row-format block sizes
    if rng.chance(15) {
        let n = *rng.pick(&[4usize, 8, 11, 12, 12, 12, 13, 16, 32, 33]);
        return (0..n).map(|_| (b'a' + rng.below(6) as u8) as char).collect();
    }
    let n = match rng.below(10) {
        0 => 0,
        1..=5 => rng.below(4),
        6..=7 => 10 + rng.below(6), // around the 12-byte inline limit of views
        _ => 20 + rng.below(30),
    };
    let mut s = String::new();
    for _ in 0..n {
        if cfg.profile == Profile::Tame && rng.chance(70) {
            s.push((b'a' + rng.below(4) as u8) as char);
        } else {
            s.push_str(ALPHABET[rng.below(ALPHABET.len())]);
        }
    }
    s
}

pub fn rand_bytes(rng: &mut Rng) -> Vec<u8> {
    let n = match rng.below(10) {
        0 => 0,
        1..=5 => rng.below(4),
        6..=7 => 10 + rng.below(6),
        _ => 20 + rng.below(30),
    };
    (0..n)
        .map(|_| match rng.below(4) {
            0 => 0u8,
            1 => 0xFF,
            _ => rng.next() as u8,
        })
        .collect()
}

fn opt_strings(rng: &mut Rng, len: usize, cfg: Cfg) -> Vec<Option<String>> {
    // a small pool so that duplicates occur
    let pool: Vec<String> = (0..4).map(|_| rand_string(rng, cfg)).collect();
    (0..len)
        .map(|_| {
            if cfg.null_pct > 0 && rng.chance(cfg.null_pct) {
                None
            } else if rng.chance(50) {
                Some(pool[rng.below(pool.len())].clone())
            } else {
                Some(rand_string(rng, cfg))
            }
        })
        .collect()
}

fn opt_bytes(rng: &mut Rng, len: usize, cfg: Cfg) -> Vec<Option<Vec<u8>>> {
    (0..len)
        .map(|_| if cfg.null_pct > 0 && rng.chance(cfg.null_pct) { None } else { Some(rand_bytes(rng)) })
        .collect()
}

fn offsets<O: OffsetSizeTrait>(rng: &mut Rng, len: usize) -> (OffsetBuffer<O>, usize) {
    let mut v = Vec::with_capacity(len + 1);
    let mut acc = 0usize;
    v.push(O::usize_as(0));
    for _ in 0..len {
        acc += [0, 0, 1, 1, 2, 3][rng.below(6)];
        v.push(O::usize_as(acc));
    }
    (OffsetBuffer::new(v.into()), acc)
}

fn keys<K: ArrowDictionaryKeyType>(rng: &mut Rng, len: usize, m: usize, cfg: Cfg) -> PrimitiveArray<K> {
    let v: Vec<Option<K::Native>> = (0..len)
        .map(|_| {
            if m == 0 || (cfg.null_pct > 0 && rng.chance(cfg.null_pct)) {
                None
            } else {
                Some(K::Native::from_usize(rng.below(m)).unwrap())
            }
        })
        .collect();
    PrimitiveArray::<K>::from_iter(v)
}

fn run_ends<R: RunEndIndexType>(rng: &mut Rng, len: usize) -> (PrimitiveArray<R>, usize) {
    let mut ends = vec![];
    let mut acc = 0usize;
    while acc < len {
        acc = (acc + 1 + rng.below(3)).min(len);
        ends.push(R::Native::from_usize(acc).unwrap());
    }
    let n = ends.len();
    (PrimitiveArray::<R>::from_iter_values(ends), n)
}

/// a random array of `len` rows of type `dt`
pub fn array(rng: &mut Rng, dt: &DataType, len: usize, cfg: Cfg) -> ArrayRef {
    use DataType::*;
    let tame = cfg.profile == Profile::Tame;
    macro_rules! tame_prim {
        ($t:ty, $lo:expr, $hi:expr) => {{
            let v: Vec<<$t as ArrowPrimitiveType>::Native> =
                (0..len).map(|_| tame_i64(rng, $lo, $hi) as <$t as ArrowPrimitiveType>::Native).collect();
            Arc::new(PrimitiveArray::<$t>::new(v.into(), nulls(rng, len, cfg)).with_data_type(dt.clone())) as ArrayRef
        }};
    }
    match dt {
        Null => Arc::new(NullArray::new(len)),
        Boolean => {
            let bits: Vec<bool> = (0..len).map(|_| rng.chance(50)).collect();
            Arc::new(BooleanArray::new(BooleanBuffer::from(bits), nulls(rng, len, cfg)))
        }
        Int8 => prim::<Int8Type>(rng, dt, len, cfg, false),
        Int16 => prim::<Int16Type>(rng, dt, len, cfg, false),
        Int32 => prim::<Int32Type>(rng, dt, len, cfg, false),
        Int64 => prim::<Int64Type>(rng, dt, len, cfg, false),
        UInt8 => prim::<UInt8Type>(rng, dt, len, cfg, false),
        UInt16 => prim::<UInt16Type>(rng, dt, len, cfg, false),
        UInt32 => prim::<UInt32Type>(rng, dt, len, cfg, false),
        UInt64 => prim::<UInt64Type>(rng, dt, len, cfg, false),
        Float16 => prim::<Float16Type>(rng, dt, len, cfg, true),
        Float32 => prim::<Float32Type>(rng, dt, len, cfg, true),
        Float64 => prim::<Float64Type>(rng, dt, len, cfg, true),
        Decimal32(p, _) if tame => { let m = 10i64.pow((*p as u32).min(9)) - 1; tame_prim!(Decimal32Type, -m, m) }
        Decimal64(p, _) if tame => { let m = 10i64.pow((*p as u32).min(18)) - 1; tame_prim!(Decimal64Type, -m, m) }
        Decimal128(p, _) if tame => { let m = 10i64.pow((*p as u32).min(18)) - 1; tame_prim!(Decimal128Type, -m, m) }
        Decimal256(p, _) if tame => {
            let m = 10i64.pow((*p as u32).min(18)) - 1;
            let v: Vec<i256> = (0..len).map(|_| i256::from_i128(tame_i64(rng, -m, m) as i128)).collect();
            Arc::new(PrimitiveArray::<Decimal256Type>::new(v.into(), nulls(rng, len, cfg)).with_data_type(dt.clone()))
        }
        Decimal32(_, _) => prim::<Decimal32Type>(rng, dt, len, cfg, false),
        Decimal64(_, _) => prim::<Decimal64Type>(rng, dt, len, cfg, false),
        Decimal128(_, _) => prim::<Decimal128Type>(rng, dt, len, cfg, false),
        Decimal256(_, _) => prim::<Decimal256Type>(rng, dt, len, cfg, false),
        Date32 if tame => tame_prim!(Date32Type, -700000, 2900000),
        Date32 => prim::<Date32Type>(rng, dt, len, cfg, false),
        Date64 if tame => {
            let v: Vec<i64> = (0..len).map(|_| tame_i64(rng, -700000, 2900000) * 86_400_000).collect();
            Arc::new(PrimitiveArray::<Date64Type>::new(v.into(), nulls(rng, len, cfg)))
        }
        Date64 => prim::<Date64Type>(rng, dt, len, cfg, false),
        Time32(TimeUnit::Second) if tame => tame_prim!(Time32SecondType, 0, 86399),
        Time32(TimeUnit::Second) => prim::<Time32SecondType>(rng, dt, len, cfg, false),
        Time32(_) if tame => tame_prim!(Time32MillisecondType, 0, 86_399_999),
        Time32(_) => prim::<Time32MillisecondType>(rng, dt, len, cfg, false),
        Time64(TimeUnit::Microsecond) if tame => tame_prim!(Time64MicrosecondType, 0, 86_399_999_999),
        Time64(TimeUnit::Microsecond) => prim::<Time64MicrosecondType>(rng, dt, len, cfg, false),
        Time64(_) if tame => tame_prim!(Time64NanosecondType, 0, 86_399_999_999_999),
        Time64(_) => prim::<Time64NanosecondType>(rng, dt, len, cfg, false),
        Timestamp(TimeUnit::Second, _) if tame => tame_prim!(TimestampSecondType, -60_000_000_000, 250_000_000_000),
        Timestamp(TimeUnit::Second, _) => prim::<TimestampSecondType>(rng, dt, len, cfg, false),
        Timestamp(TimeUnit::Millisecond, _) if tame => tame_prim!(TimestampMillisecondType, -60_000_000_000_000, 250_000_000_000_000),
        Timestamp(TimeUnit::Millisecond, _) => prim::<TimestampMillisecondType>(rng, dt, len, cfg, false),
        Timestamp(TimeUnit::Microsecond, _) if tame => tame_prim!(TimestampMicrosecondType, -60_000_000_000_000_000, 250_000_000_000_000_000),
        Timestamp(TimeUnit::Microsecond, _) => prim::<TimestampMicrosecondType>(rng, dt, len, cfg, false),
        Timestamp(TimeUnit::Nanosecond, _) if tame => tame_prim!(TimestampNanosecondType, -9_000_000_000_000_000_000, 9_000_000_000_000_000_000),
        Timestamp(TimeUnit::Nanosecond, _) => prim::<TimestampNanosecondType>(rng, dt, len, cfg, false),
        Duration(TimeUnit::Second) => prim::<DurationSecondType>(rng, dt, len, cfg, false),
        Duration(TimeUnit::Millisecond) => prim::<DurationMillisecondType>(rng, dt, len, cfg, false),
        Duration(TimeUnit::Microsecond) => prim::<DurationMicrosecondType>(rng, dt, len, cfg, false),
        Duration(TimeUnit::Nanosecond) => prim::<DurationNanosecondType>(rng, dt, len, cfg, false),
        Interval(IntervalUnit::YearMonth) => prim::<IntervalYearMonthType>(rng, dt, len, cfg, false),
        Interval(IntervalUnit::DayTime) => prim::<IntervalDayTimeType>(rng, dt, len, cfg, false),
        Interval(IntervalUnit::MonthDayNano) => prim::<IntervalMonthDayNanoType>(rng, dt, len, cfg, false),
        Utf8 => Arc::new(StringArray::from(opt_strings(rng, len, cfg))),
        LargeUtf8 => Arc::new(LargeStringArray::from(opt_strings(rng, len, cfg))),
        Utf8View => Arc::new(StringViewArray::from_iter(opt_strings(rng, len, cfg))),
        Binary => Arc::new(BinaryArray::from_iter(opt_bytes(rng, len, cfg))),
        LargeBinary => Arc::new(LargeBinaryArray::from_iter(opt_bytes(rng, len, cfg))),
        BinaryView => Arc::new(BinaryViewArray::from_iter(opt_bytes(rng, len, cfg))),
        FixedSizeBinary(n) => {
            let n = *n as usize;
            let bytes: Vec<u8> = (0..n * len).map(|_| if rng.chance(30) { rng.below(3) as u8 } else { rng.next() as u8 }).collect();
            Arc::new(FixedSizeBinaryArray::try_new_with_len(n as i32, Buffer::from_vec(bytes), nulls(rng, len, cfg), len).unwrap())
        }
        List(f) => {
            let (o, n) = offsets::<i32>(rng, len);
            let child = array(rng, f.data_type(), n, child_cfg(cfg, f));
            Arc::new(ListArray::new(f.clone(), o, child, nulls(rng, len, cfg)))
        }
        LargeList(f) => {
            let (o, n) = offsets::<i64>(rng, len);
            let child = array(rng, f.data_type(), n, child_cfg(cfg, f));
            Arc::new(LargeListArray::new(f.clone(), o, child, nulls(rng, len, cfg)))
        }
        ListView(f) => list_view::<i32>(rng, f, len, cfg),
        LargeListView(f) => list_view::<i64>(rng, f, len, cfg),
        FixedSizeList(f, n) => {
            let child = array(rng, f.data_type(), len * (*n as usize), child_cfg(cfg, f));
            Arc::new(FixedSizeListArray::try_new_with_length(f.clone(), *n, child, nulls(rng, len, cfg), len).unwrap())
        }
        Struct(fields) => {
            let cols: Vec<ArrayRef> = fields.iter().map(|f| array(rng, f.data_type(), len, child_cfg(cfg, f))).collect();
            if fields.is_empty() {
                Arc::new(StructArray::new_empty_fields(len, nulls(rng, len, cfg)))
            } else {
                Arc::new(StructArray::new(fields.clone(), cols, nulls(rng, len, cfg)))
            }
        }
        Map(f, ordered) => {
            let (o, n) = offsets::<i32>(rng, len);
            let Struct(kv) = f.data_type() else { panic!("map entries") };
            // keys: non-null
            let k = array(rng, kv[0].data_type(), n, Cfg { null_pct: 0, ..cfg });
            let k = strip_nulls(k);
            let v = array(rng, kv[1].data_type(), n, child_cfg(cfg, &kv[1]));
            let entries = StructArray::new(kv.clone(), vec![k, v], None);
            Arc::new(MapArray::new(f.clone(), o, entries, nulls(rng, len, cfg), *ordered))
        }
        Dictionary(k, v) => {
            let m = 1 + rng.below(5);
            let np = if rng.chance(30) { 25 } else { 0 };
            let values = array(rng, v, m, Cfg { null_pct: np, ..cfg });
            match k.as_ref() {
                Int8 => Arc::new(DictionaryArray::new(keys::<Int8Type>(rng, len, m, cfg), values)),
                Int16 => Arc::new(DictionaryArray::new(keys::<Int16Type>(rng, len, m, cfg), values)),
                Int32 => Arc::new(DictionaryArray::new(keys::<Int32Type>(rng, len, m, cfg), values)),
                Int64 => Arc::new(DictionaryArray::new(keys::<Int64Type>(rng, len, m, cfg), values)),
                UInt8 => Arc::new(DictionaryArray::new(keys::<UInt8Type>(rng, len, m, cfg), values)),
                UInt16 => Arc::new(DictionaryArray::new(keys::<UInt16Type>(rng, len, m, cfg), values)),
                UInt32 => Arc::new(DictionaryArray::new(keys::<UInt32Type>(rng, len, m, cfg), values)),
                _ => Arc::new(DictionaryArray::new(keys::<UInt64Type>(rng, len, m, cfg), values)),
            }
        }
        RunEndEncoded(r, v) => match r.data_type() {
            Int16 => {
                let (e, n) = run_ends::<Int16Type>(rng, len);
                let vals = array(rng, v.data_type(), n, cfg);
                Arc::new(RunArray::try_new(&e, vals.as_ref()).unwrap())
            }
            Int32 => {
                let (e, n) = run_ends::<Int32Type>(rng, len);
                let vals = array(rng, v.data_type(), n, cfg);
                Arc::new(RunArray::try_new(&e, vals.as_ref()).unwrap())
            }
            _ => {
                let (e, n) = run_ends::<Int64Type>(rng, len);
                let vals = array(rng, v.data_type(), n, cfg);
                Arc::new(RunArray::try_new(&e, vals.as_ref()).unwrap())
            }
        },
        Union(fields, mode) => {
            let ids: Vec<i8> = fields.iter().map(|(i, _)| i).collect();
            if ids.is_empty() {
                // a union without variants has no rows
                return new_empty_array(dt);
            }
            let tids: Vec<i8> = (0..len).map(|_| ids[rng.below(ids.len())]).collect();
            match mode {
                UnionMode::Sparse => {
                    let kids: Vec<ArrayRef> = fields.iter().map(|(_, f)| array(rng, f.data_type(), len, cfg)).collect();
                    Arc::new(UnionArray::try_new(fields.clone(), tids.into(), None, kids).unwrap())
                }
                UnionMode::Dense => {
                    let mut counts = std::collections::HashMap::new();
                    let offs: Vec<i32> = tids
                        .iter()
                        .map(|t| {
                            let c = counts.entry(*t).or_insert(0i32);
                            *c += 1;
                            *c - 1
                        })
                        .collect();
                    let kids: Vec<ArrayRef> = fields
                        .iter()
                        .map(|(i, f)| array(rng, f.data_type(), *counts.get(&i).unwrap_or(&0) as usize, cfg))
                        .collect();
                    Arc::new(UnionArray::try_new(fields.clone(), tids.into(), Some(offs.into()), kids).unwrap())
                }
            }
        }
        other => panic!("gen: unsupported type {other:?}"),
    }
}

fn child_cfg(cfg: Cfg, f: &Field) -> Cfg {
    if f.is_nullable() { cfg } else { Cfg { null_pct: 0, ..cfg } }
}

/// remove the (all-valid) validity buffer of an array, where the type permits
fn strip_nulls(a: ArrayRef) -> ArrayRef {
    if a.null_count() == 0 && a.nulls().is_some() {
        let d = a.to_data().into_builder().nulls(None).build().unwrap();
        make_array(d)
    } else {
        a
    }
}

fn list_view<O: OffsetSizeTrait>(rng: &mut Rng, f: &Arc<Field>, len: usize, cfg: Cfg) -> ArrayRef {
    let clen = rng.below(2 * len + 2);
    let child = array(rng, f.data_type(), clen, child_cfg(cfg, f));
    let mut offs = Vec::with_capacity(len);
    let mut sizes = Vec::with_capacity(len);
    for _ in 0..len {
        let o = rng.below(clen + 1);
        let s = rng.below((clen - o).min(3) + 1);
        offs.push(O::usize_as(o));
        sizes.push(O::usize_as(s));
    }
    Arc::new(GenericListViewArray::<O>::new(f.clone(), offs.into(), sizes.into(), child, nulls(rng, len, cfg)))
}

fn fld(name: &str, t: DataType, nullable: bool) -> Arc<Field> {
    Arc::new(Field::new(name, t, nullable))
}

/// flat (non-nested) types
pub fn flat_types() -> Vec<DataType> {
    use DataType::*;
    vec![
        Boolean, Int8, Int16, Int32, Int64, UInt8, UInt16, UInt32, UInt64, Float16, Float32, Float64,
        Decimal32(9, 2), Decimal64(18, 3), Decimal128(38, 10), Decimal256(76, 5),
        Date32, Date64, Time32(TimeUnit::Second), Time32(TimeUnit::Millisecond),
        Time64(TimeUnit::Microsecond), Time64(TimeUnit::Nanosecond),
        Timestamp(TimeUnit::Second, None), Timestamp(TimeUnit::Millisecond, Some("+01:00".into())),
        Timestamp(TimeUnit::Microsecond, None), Timestamp(TimeUnit::Nanosecond, Some("UTC".into())),
        Duration(TimeUnit::Second), Duration(TimeUnit::Millisecond), Duration(TimeUnit::Microsecond), Duration(TimeUnit::Nanosecond),
        Interval(IntervalUnit::YearMonth), Interval(IntervalUnit::DayTime), Interval(IntervalUnit::MonthDayNano),
        Utf8, LargeUtf8, Utf8View, Binary, LargeBinary, BinaryView, FixedSizeBinary(3), FixedSizeBinary(0),
    ]
}

/// nested / encoded types
pub fn nested_types() -> Vec<DataType> {
    use DataType::*;
    let kv = fld(
        "entries",
        Struct(Fields::from(vec![Field::new("key", Utf8, false), Field::new("value", Int32, true)])),
        false,
    );
    vec![
        Null,
        List(fld("item", Int32, true)),
        List(fld("item", Utf8, false)),
        LargeList(fld("item", Utf8View, true)),
        ListView(fld("item", Int16, true)),
        LargeListView(fld("item", Utf8, true)),
        FixedSizeList(fld("item", Int8, true), 2),
        FixedSizeList(fld("item", Boolean, true), 0),
        Struct(Fields::from(vec![Field::new("a", Int32, true), Field::new("b", Utf8, true)])),
        Struct(Fields::from(vec![
            Field::new("l", List(fld("item", Float32, true)), true),
            Field::new("s", Struct(Fields::from(vec![Field::new("x", Boolean, true)])), true),
        ])),
        List(fld("item", Struct(Fields::from(vec![Field::new("a", Int8, true), Field::new("b", LargeBinary, true)])), true)),
        List(fld("item", List(fld("item", Int64, true)), true)),
        Map(kv, false),
        Dictionary(Box::new(Int8), Box::new(Utf8)),
        Dictionary(Box::new(UInt16), Box::new(Int64)),
        Dictionary(Box::new(Int32), Box::new(LargeUtf8)),
        Dictionary(Box::new(Int64), Box::new(Decimal128(20, 2))),
        List(fld("item", Dictionary(Box::new(Int8), Box::new(Utf8)), true)),
        RunEndEncoded(fld("run_ends", Int32, false), fld("values", Utf8, true)),
        RunEndEncoded(fld("run_ends", Int16, false), fld("values", Int64, true)),
        RunEndEncoded(fld("run_ends", Int64, false), fld("values", Float64, true)),
        Union(UnionFields::try_new(vec![0, 1], vec![Field::new("i", Int32, true), Field::new("s", Utf8, true)]).unwrap(), UnionMode::Sparse),
        Union(UnionFields::try_new(vec![3, 7], vec![Field::new("i", Int64, true), Field::new("b", Boolean, true)]).unwrap(), UnionMode::Dense),
    ]
}

pub fn all_types() -> Vec<DataType> {
    let mut v = flat_types();
    v.extend(nested_types());
    v
}

/// array lengths that cross the word / SIMD-lane / byte boundaries
pub fn rand_len(rng: &mut Rng, max: usize) -> usize {
    let cands = [0usize, 1, 2, 3, 5, 7, 8, 9, 15, 16, 17, 31, 32, 33, 63, 64, 65, 100, 127, 128, 129, 130];
    loop {
        let n = if rng.chance(60) { rng.below(10) } else { *rng.pick(&cands) };
        if n <= max {
            return n;
        }
    }
}
