//! Limb encoding of wide integers for the TLA+ module `BigNum` (C12, C13).
//!
//! A value on the wire is the JSON array `[sign, l0, l1, ...]`: sign 0 (>= 0) or
//! 1 (< 0), then the base-10^4 limbs of the magnitude, least significant first,
//! without a most significant zero limb; zero is `[0]`.  This is an encoder only:
//! all arithmetic on these values is done by TLC.
use serde_json::Value;

/// encode a decimal string (optional leading '-' or '+', digits)
pub fn wire_dec(s: &str) -> Value {
    let (neg, digits) = match s.as_bytes().first() {
        Some(b'-') => (true, &s[1..]),
        Some(b'+') => (false, &s[1..]),
        _ => (false, s),
    };
    let digits = digits.trim_start_matches('0');
    let mut out: Vec<Value> = Vec::with_capacity(2 + digits.len() / 4);
    out.push(Value::from(if neg && !digits.is_empty() { 1 } else { 0 }));
    let b = digits.as_bytes();
    let mut end = b.len();
    while end > 0 {
        let start = end.saturating_sub(4);
        let limb: u32 = std::str::from_utf8(&b[start..end]).unwrap().parse().unwrap();
        out.push(Value::from(limb));
        end = start;
    }
    Value::Array(out)
}

/// encode anything whose `Display` is a decimal integer (i8..i128, u8..u128, i256, BigInt)
pub fn wire<T: std::fmt::Display>(v: T) -> Value {
    wire_dec(&v.to_string())
}

/// a column of wide integers
pub fn wires<T: std::fmt::Display>(vs: impl IntoIterator<Item = T>) -> Value {
    Value::Array(vs.into_iter().map(wire).collect())
}

/// decode (for replay tools and self-checks of the encoder)
pub fn unwire(v: &Value) -> String {
    let a = v.as_array().expect("wire value");
    let mut s = String::new();
    if a[0].as_i64() == Some(1) {
        s.push('-');
    }
    if a.len() == 1 {
        return "0".into();
    }
    for (i, l) in a[1..].iter().rev().enumerate() {
        let l = l.as_u64().unwrap();
        if i == 0 { s.push_str(&l.to_string()) } else { s.push_str(&format!("{l:04}")) }
    }
    s
}

#[cfg(test)]
mod tests {
    use super::*;
    #[test]
    fn round_trip() {
        for s in ["0", "-0", "7", "-9999", "10000", "-10001", "170141183460469231731687303715884105727", "-100000000"] {
            let w = wire_dec(s);
            let back = unwire(&w);
            assert_eq!(back, if s == "-0" { "0" } else { s });
        }
        assert_eq!(wire(10000u32), serde_json::json!([0, 0, 1]));
        assert_eq!(wire(-12345678i64), serde_json::json!([1, 5678, 1234]));
    }
}
