pub fn hello(){}
