//! vcore: shared pieces of the conformance harness.
//!
//! Nothing in this crate is an oracle.  It (a) projects real arrays into the
//! logical / physical models the TLA+ specifications talk about, (b) generates
//! and re-lays-out input arrays, (c) writes ndjson traces for TLC.

pub mod big;
pub mod dump;
pub mod key;
pub mod mk;
pub mod mutate;
pub mod rng;
pub mod tok;
pub mod trace;

pub use rng::Rng;
pub use serde_json::{json, Value};
pub use trace::Trace;

use std::panic::{catch_unwind, AssertUnwindSafe};

/// Run `f`, turning a panic into `Err(message)`: a panic in code under test is data.
pub fn guarded<T>(f: impl FnOnce() -> T) -> Result<T, String> {
    GUARD.with(|g| g.set(g.get() + 1));
    let r = catch_unwind(AssertUnwindSafe(f));
    GUARD.with(|g| g.set(g.get() - 1));
    match r {
        Ok(v) => Ok(v),
        Err(e) => Err(if let Some(s) = e.downcast_ref::<&str>() {
            s.to_string()
        } else if let Some(s) = e.downcast_ref::<String>() {
            s.clone()
        } else {
            "panic".to_string()
        }),
    }
}

/// Silence the default panic hook (panics are captured with `guarded`).
pub fn quiet_panics() {
    let default = std::panic::take_hook();
    std::panic::set_hook(Box::new(move |info| {
        if GUARD.with(|g| g.get()) == 0 {
            default(info);
        }
    }));
}

thread_local! {
    static GUARD: std::cell::Cell<u32> = const { std::cell::Cell::new(0) };
}

/// Common command line: `<bin> <driver> --tier T --seed S --out DIR [--replay FILE]`
pub struct Args {
    pub driver: String,
    pub tier: String,
    pub seed: u64,
    pub out: String,
    pub replay: Option<String>,
    pub cases: Option<String>,
    pub extra: Vec<String>,
}

impl Args {
    pub fn parse() -> Args {
        let mut a = Args {
            driver: String::new(),
            tier: "quick".into(),
            seed: 1,
            out: ".".into(),
            replay: None,
            cases: None,
            extra: vec![],
        };
        let mut it = std::env::args().skip(1);
        while let Some(x) = it.next() {
            match x.as_str() {
                "--tier" => a.tier = it.next().unwrap(),
                "--seed" => a.seed = it.next().unwrap().parse().unwrap_or(1),
                "--out" => a.out = it.next().unwrap(),
                "--replay" => a.replay = it.next(),
                "--cases" => a.cases = it.next(),
                _ if a.driver.is_empty() => a.driver = x,
                _ => a.extra.push(x),
            }
        }
        a
    }
    pub fn thorough(&self) -> bool {
        self.tier == "thorough"
    }
    /// `q` in the quick tier, `t` in the thorough tier
    pub fn scale(&self, q: usize, t: usize) -> usize {
        if self.thorough() { t } else { q }
    }
}
