//! Small deterministic PRNG (splitmix64); seeded from VERIF_SEED by the drivers.
#[derive(Clone)]
pub struct Rng(pub u64);

impl Rng {
    pub fn new(seed: u64) -> Rng {
        Rng(seed.wrapping_mul(0x9E3779B97F4A7C15) ^ 0xD1B54A32D192ED03)
    }
    pub fn next(&mut self) -> u64 {
        self.0 = self.0.wrapping_add(0x9E3779B97F4A7C15);
        let mut z = self.0;
        z = (z ^ (z >> 30)).wrapping_mul(0xBF58476D1CE4E5B9);
        z = (z ^ (z >> 27)).wrapping_mul(0x94D049BB133111EB);
        z ^ (z >> 31)
    }
    /// uniform in 0..n (n > 0)
    pub fn below(&mut self, n: usize) -> usize {
        (self.next() % (n as u64)) as usize
    }
    /// uniform in lo..=hi
    pub fn range(&mut self, lo: i64, hi: i64) -> i64 {
        lo + (self.next() % ((hi - lo + 1) as u64)) as i64
    }
    pub fn chance(&mut self, pct: usize) -> bool {
        self.below(100) < pct
    }
    pub fn pick<'a, T>(&mut self, xs: &'a [T]) -> &'a T {
        &xs[self.below(xs.len())]
    }
    pub fn fork(&mut self) -> Rng {
        Rng::new(self.next())
    }
}
