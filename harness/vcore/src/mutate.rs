//! Layout mutators: different physical realisations of the same logical column.
//! Every realisation is checked by the caller (`rows(realised) == rows(original)`
//! is logged as a `realise` event and required by the specification), so a
//! wrong mutator is rejected rather than trusted.
use crate::mk::{self, Cfg};
use crate::rng::Rng;
use arrow_array::cast::AsArray;
use arrow_array::types::*;
use arrow_array::*;
use arrow_buffer::{ArrowNativeType, BooleanBuffer, Buffer, NullBuffer, OffsetBuffer, ScalarBuffer};
use arrow_data::ArrayData;
use arrow_schema::DataType;
use std::sync::Arc;

/// [garbage prefix | a | garbage suffix] sliced back to `a`: non-zero offset at
/// every nesting level the slice reaches, usually not byte aligned.
pub fn pad_slice(rng: &mut Rng, a: &ArrayRef) -> Option<ArrayRef> {
    let np = if a.null_count() > 0 || rng.chance(50) { 30 } else { 0 };
    pad_slice_with(rng, a, np)
}

/// as `pad_slice`, the padding rows having `null_pct` percent nulls (0: the result keeps
/// "no validity buffer" when `a` has none)
pub fn pad_slice_with(rng: &mut Rng, a: &ArrayRef, null_pct: usize) -> Option<ArrayRef> {
    let pre = 1 + rng.below(9);
    let post = rng.below(4);
    let cfg = Cfg::wild(null_pct);
    let (p, s) = match a.data_type() {
        // dictionaries / unions etc. are padded with copies of their own rows so that the
        // concatenation does not need to merge unrelated children
        DataType::Dictionary(_, _) | DataType::Union(_, _) | DataType::RunEndEncoded(_, _) => {
            if a.is_empty() {
                return None;
            }
            (a.slice(0, pre.min(a.len())), a.slice(0, post.min(a.len())))
        }
        t => (mk::array(rng, t, pre, cfg), mk::array(rng, t, post, cfg)),
    };
    let pre = p.len();
    let parts: Vec<&dyn Array> = vec![p.as_ref(), a.as_ref(), s.as_ref()];
    let all = arrow_select_concat(&parts)?;
    Some(all.slice(pre, a.len()))
}

// concat without depending on arrow-select: MutableArrayData
fn arrow_select_concat(parts: &[&dyn Array]) -> Option<ArrayRef> {
    let datas: Vec<ArrayData> = parts.iter().map(|a| a.to_data()).collect();
    let refs: Vec<&ArrayData> = datas.iter().collect();
    let r = crate::guarded(|| {
        let mut m = arrow_data::transform::MutableArrayData::new(refs.clone(), false, 0);
        for (i, d) in datas.iter().enumerate() {
            m.try_extend(i, 0, d.len()).unwrap();
        }
        make_array(m.freeze())
    });
    r.ok()
}

/// add an all-valid validity buffer, or drop one that has no nulls
pub fn toggle_validity(a: &ArrayRef) -> Option<ArrayRef> {
    use DataType::*;
    if matches!(a.data_type(), Null | Union(_, _) | RunEndEncoded(_, _)) || a.null_count() != 0 {
        return None;
    }
    let d = a.to_data();
    let b = d.clone().into_builder();
    let b = if d.nulls().is_some() {
        b.nulls(None)
    } else {
        b.nulls(Some(NullBuffer::new_valid(d.len())))
    };
    b.build().ok().map(make_array)
}

/// primitive / boolean / byte arrays: arbitrary payload under null slots
pub fn garbage_under_nulls(rng: &mut Rng, a: &ArrayRef) -> Option<ArrayRef> {
    use DataType::*;
    if a.null_count() == 0 {
        return None;
    }
    let nulls = a.nulls()?.clone();
    // take an independent validity buffer with offset 0 for simplicity
    let nulls = NullBuffer::from(nulls.iter().collect::<Vec<bool>>());
    match a.data_type() {
        Boolean => {
            let v = a.as_boolean();
            let bits: Vec<bool> = (0..a.len()).map(|i| if nulls.is_null(i) { rng.chance(50) } else { v.value(i) }).collect();
            Some(Arc::new(BooleanArray::new(BooleanBuffer::from(bits), Some(nulls))))
        }
        Utf8 => Some(bytes_garbage::<Utf8Type>(rng, a, nulls)),
        LargeUtf8 => Some(bytes_garbage::<LargeUtf8Type>(rng, a, nulls)),
        Binary => Some(bytes_garbage::<BinaryType>(rng, a, nulls)),
        LargeBinary => Some(bytes_garbage::<LargeBinaryType>(rng, a, nulls)),
        t if t.is_primitive() => {
            let d = a.to_data();
            let w = t.primitive_width()?;
            let src = &d.buffers()[0].as_slice()[d.offset() * w..(d.offset() + d.len()) * w];
            let mut bytes = src.to_vec();
            for i in 0..a.len() {
                if nulls.is_null(i) {
                    // values that make fallible operations fail if they are (wrongly) evaluated
                    // under a null: 0 (division), -1 / MIN / MAX (overflow), or random bytes
                    let mode = rng.below(5);
                    let cell = &mut bytes[i * w..(i + 1) * w];
                    match mode {
                        0 => cell.iter_mut().for_each(|b| *b = 0),
                        1 => cell.iter_mut().for_each(|b| *b = 0xFF),
                        2 => {
                            cell.iter_mut().for_each(|b| *b = 0);
                            cell[w - 1] = 0x80;
                        }
                        3 => {
                            cell.iter_mut().for_each(|b| *b = 0xFF);
                            cell[w - 1] = 0x7F;
                        }
                        _ => cell.iter_mut().for_each(|b| *b = rng.next() as u8),
                    }
                }
            }
            // keep alignment: go through a u128-aligned allocation
            let mut m = arrow_buffer::MutableBuffer::new(bytes.len());
            m.extend_from_slice(&bytes);
            let nd = ArrayData::builder(t.clone())
                .len(a.len())
                .add_buffer(m.into())
                .nulls(Some(nulls))
                .build()
                .ok()?;
            Some(make_array(nd))
        }
        _ => None,
    }
}

fn bytes_garbage<T: ByteArrayType>(rng: &mut Rng, a: &ArrayRef, nulls: NullBuffer) -> ArrayRef {
    let v = a.as_bytes::<T>();
    let mut offs: Vec<T::Offset> = vec![T::Offset::usize_as(0)];
    let mut data: Vec<u8> = vec![];
    for i in 0..a.len() {
        if nulls.is_null(i) {
            let g = ["", "x", "garbage", "é"][rng.below(4)];
            data.extend_from_slice(g.as_bytes());
        } else {
            let b: &[u8] = v.value(i).as_ref();
            data.extend_from_slice(b);
        }
        offs.push(T::Offset::usize_as(data.len()));
    }
    Arc::new(GenericByteArray::<T>::new(OffsetBuffer::new(ScalarBuffer::from(offs)), Buffer::from_vec(data), Some(nulls)))
}

/// dictionary: permute / duplicate values, add unused entries, remap keys
pub fn dict_shuffle(rng: &mut Rng, a: &ArrayRef) -> Option<ArrayRef> {
    let DataType::Dictionary(k, _) = a.data_type() else { return None };
    macro_rules! go {
        ($kt:ty) => {{
            let d = a.as_dictionary::<$kt>();
            let m = d.values().len();
            // new dictionary: [extra copies of old values] in shuffled order
            let n2 = m + 1 + rng.below(3);
            if n2 > 100 {
                return None;
            }
            // for each new slot pick an old slot (all old slots appear at least once)
            let mut src: Vec<usize> = (0..m).collect();
            while src.len() < n2 && m > 0 {
                src.push(rng.below(m));
            }
            if m == 0 {
                return None;
            }
            for i in (1..src.len()).rev() {
                src.swap(i, rng.below(i + 1));
            }
            let idx = UInt32Array::from(src.iter().map(|x| *x as u32).collect::<Vec<_>>());
            let vd = d.values().to_data();
            let mut mm = arrow_data::transform::MutableArrayData::new(vec![&vd], false, src.len());
            for s in idx.values() {
                mm.try_extend(0, *s as usize, *s as usize + 1).unwrap();
            }
            let new_values = make_array(mm.freeze());
            let keys: Vec<Option<<$kt as ArrowPrimitiveType>::Native>> = (0..d.len())
                .map(|i| {
                    if d.keys().is_null(i) {
                        None
                    } else {
                        let old = d.keys().value(i) as usize;
                        let cands: Vec<usize> = (0..src.len()).filter(|j| src[*j] == old).collect();
                        Some(cands[rng.below(cands.len())] as <$kt as ArrowPrimitiveType>::Native)
                    }
                })
                .collect();
            let keys = PrimitiveArray::<$kt>::from_iter(keys);
            DictionaryArray::<$kt>::try_new(keys, new_values).ok().map(|x| Arc::new(x) as ArrayRef)
        }};
    }
    match k.as_ref() {
        DataType::Int8 => go!(Int8Type),
        DataType::Int16 => go!(Int16Type),
        DataType::Int32 => go!(Int32Type),
        DataType::Int64 => go!(Int64Type),
        DataType::UInt8 => go!(UInt8Type),
        DataType::UInt16 => go!(UInt16Type),
        DataType::UInt32 => go!(UInt32Type),
        DataType::UInt64 => go!(UInt64Type),
        _ => None,
    }
}

/// dictionary arrays: the SAME dictionary (shared `values` allocation), keys re-pointed to
/// other entries holding an equal value (use on a dictionary with duplicate entries, e.g. the
/// output of `dict_shuffle`)
pub fn dict_alt_keys(rng: &mut Rng, a: &ArrayRef) -> Option<ArrayRef> {
    let DataType::Dictionary(k, _) = a.data_type() else { return None };
    macro_rules! go {
        ($kt:ty) => {{
            let d = a.as_dictionary::<$kt>();
            let vals = d.values();
            let toks = crate::tok::rows(vals.as_ref());
            let keys: Vec<Option<<$kt as ArrowPrimitiveType>::Native>> = (0..d.len())
                .map(|i| {
                    if d.keys().is_null(i) {
                        None
                    } else {
                        let old = d.keys().value(i) as usize;
                        let cands: Vec<usize> = (0..toks.len()).filter(|j| toks[*j] == toks[old] && vals.is_null(*j) == vals.is_null(old)).collect();
                        Some(cands[rng.below(cands.len())] as <$kt as ArrowPrimitiveType>::Native)
                    }
                })
                .collect();
            let keys = PrimitiveArray::<$kt>::from_iter(keys);
            DictionaryArray::<$kt>::try_new(keys, vals.clone()).ok().map(|x| Arc::new(x) as ArrayRef)
        }};
    }
    match k.as_ref() {
        DataType::Int8 => go!(Int8Type),
        DataType::Int16 => go!(Int16Type),
        DataType::Int32 => go!(Int32Type),
        DataType::Int64 => go!(Int64Type),
        DataType::UInt8 => go!(UInt8Type),
        DataType::UInt16 => go!(UInt16Type),
        DataType::UInt32 => go!(UInt32Type),
        DataType::UInt64 => go!(UInt64Type),
        _ => None,
    }
}

/// view arrays: every long value in its own data buffer, in reverse order
pub fn view_repartition(a: &ArrayRef) -> Option<ArrayRef> {
    fn go<T: ByteViewType>(v: &GenericByteViewArray<T>) -> ArrayRef {
        let mut bufs: Vec<Buffer> = vec![];
        let mut views: Vec<u128> = vec![];
        for i in 0..v.len() {
            let bytes: &[u8] = if v.is_null(i) { b"" } else { v.value(i).as_ref() };
            if bytes.len() <= 12 {
                let mut raw = [0u8; 16];
                raw[0..4].copy_from_slice(&(bytes.len() as u32).to_le_bytes());
                raw[4..4 + bytes.len()].copy_from_slice(bytes);
                views.push(u128::from_le_bytes(raw));
            } else {
                // 3 bytes of leading junk so that the offset is non-zero
                let mut b = vec![0xEEu8; 3];
                b.extend_from_slice(bytes);
                bufs.push(Buffer::from_vec(b));
                let mut raw = [0u8; 16];
                raw[0..4].copy_from_slice(&(bytes.len() as u32).to_le_bytes());
                raw[4..8].copy_from_slice(&bytes[0..4]);
                raw[8..12].copy_from_slice(&((bufs.len() - 1) as u32).to_le_bytes());
                raw[12..16].copy_from_slice(&3u32.to_le_bytes());
                views.push(u128::from_le_bytes(raw));
            }
        }
        Arc::new(GenericByteViewArray::<T>::new(ScalarBuffer::from(views), bufs, v.nulls().cloned()))
    }
    match a.data_type() {
        DataType::Utf8View => Some(go(a.as_string_view())),
        DataType::BinaryView => Some(go(a.as_binary_view())),
        _ => None,
    }
}

/// run-end arrays: every run split into runs of length 1 (values duplicated)
pub fn ree_split(a: &ArrayRef) -> Option<ArrayRef> {
    fn go<R: RunEndIndexType>(a: &ArrayRef) -> Option<ArrayRef> {
        let r = a.as_any().downcast_ref::<RunArray<R>>()?;
        let n = r.len();
        if n == 0 || n > 1000 {
            return None;
        }
        let ends = PrimitiveArray::<R>::from_iter_values((1..=n).map(|x| R::Native::from_usize(x).unwrap()));
        let vd = r.values().to_data();
        let mut mm = arrow_data::transform::MutableArrayData::new(vec![&vd], false, n);
        for i in 0..n {
            let p = r.get_physical_index(i);
            mm.try_extend(0, p, p + 1).unwrap();
        }
        let vals = make_array(mm.freeze());
        RunArray::<R>::try_new(&ends, vals.as_ref()).ok().map(|x| Arc::new(x) as ArrayRef)
    }
    match a.data_type() {
        DataType::RunEndEncoded(r, _) => match r.data_type() {
            DataType::Int16 => go::<Int16Type>(a),
            DataType::Int32 => go::<Int32Type>(a),
            _ => go::<Int64Type>(a),
        },
        _ => None,
    }
}

/// list arrays: the same lists over a child array that itself has a non-zero offset
/// (child = [garbage rows | values] sliced back), so the child's validity bitmap and buffers
/// are addressed at an offset that the list's own offsets know nothing about
pub fn list_child_offset(rng: &mut Rng, a: &ArrayRef) -> Option<ArrayRef> {
    fn go<O: OffsetSizeTrait>(rng: &mut Rng, a: &ArrayRef) -> Option<ArrayRef> {
        let l = a.as_list::<O>();
        let (field, offsets, values, nulls) = l.clone().into_parts();
        let child = pad_slice(rng, &values)?;
        if child.len() != values.len() {
            return None;
        }
        GenericListArray::<O>::try_new(field, offsets, child, nulls).ok().map(|x| Arc::new(x) as ArrayRef)
    }
    match a.data_type() {
        DataType::List(_) => go::<i32>(rng, a),
        DataType::LargeList(_) => go::<i64>(rng, a),
        DataType::FixedSizeList(f, n) => {
            let l = a.as_fixed_size_list();
            let child = pad_slice(rng, l.values())?;
            FixedSizeListArray::try_new_with_length(f.clone(), *n, child, l.nulls().cloned(), l.len()).ok().map(|x| Arc::new(x) as ArrayRef)
        }
        DataType::Struct(fields) if !fields.is_empty() => {
            let st = a.as_struct();
            let cols: Option<Vec<ArrayRef>> = st.columns().iter().map(|c| pad_slice(rng, c)).collect();
            StructArray::try_new(fields.clone(), cols?, st.nulls().cloned()).ok().map(|x| Arc::new(x) as ArrayRef)
        }
        _ => None,
    }
}

/// up to `k` distinct realisations of `a` (the first one is `a` itself); each is
/// labelled with the mutator that produced it
pub fn realisations(rng: &mut Rng, a: &ArrayRef, k: usize) -> Vec<(String, ArrayRef)> {
    let mut out: Vec<(String, ArrayRef)> = vec![("orig".into(), a.clone())];
    // encoding-specific mutators first (callers ask for few realisations), then the generic ones
    let shuffled = dict_shuffle(rng, a);
    let shared = shuffled.as_ref().and_then(|x| dict_alt_keys(rng, x));
    let mut cands: Vec<(String, Option<ArrayRef>)> = vec![
        ("dict_shuffle".into(), shuffled),
        ("dict_shuffle+alt_keys".into(), shared),
        ("view_repartition".into(), view_repartition(a)),
        ("ree_split".into(), ree_split(a)),
        ("list_child_offset".into(), list_child_offset(rng, a)),
        // both at once: the parent's own offsets start above 0 AND the child carries an offset
        ("pad_slice+list_child_offset".into(), pad_slice(rng, a).and_then(|x| list_child_offset(rng, &x))),
        ("pad_slice".into(), pad_slice(rng, a)),
        ("pad_slice_nonull".into(), if a.null_count() == 0 && a.nulls().is_none() { pad_slice_with(rng, a, 0).filter(|x| x.nulls().is_none()) } else { None }),
        ("garbage_under_nulls".into(), garbage_under_nulls(rng, a)),
        ("toggle_validity".into(), toggle_validity(a)),
    ];
    // second-order: pad_slice of a mutated one
    let extra: Vec<(String, Option<ArrayRef>)> = cands
        .iter()
        .filter(|(n, _)| n != "pad_slice" && n != "pad_slice_nonull")
        .filter_map(|(n, x)| x.as_ref().map(|x| (format!("{n}+pad_slice"), pad_slice(rng, x))))
        .collect();
    cands.extend(extra);
    for (n, c) in cands {
        if out.len() >= k {
            break;
        }
        if let Some(c) = c {
            out.push((n, c));
        }
    }
    out
}
