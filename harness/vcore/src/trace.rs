//! ndjson trace writer.  One JSON object per line; TLC reads it with
//! `ndJsonDeserialize`.  Conventions: no JSON null, integers within 32 bits,
//! homogeneous arrays.
use serde_json::Value;
use std::fs::File;
use std::io::{BufWriter, Write};

pub struct Trace {
    w: BufWriter<File>,
    pub path: String,
    pub events: usize,
}

impl Trace {
    pub fn create(dir: &str, name: &str) -> Trace {
        std::fs::create_dir_all(dir).unwrap();
        let path = format!("{dir}/{name}.ndjson");
        Trace { w: BufWriter::new(File::create(&path).unwrap()), path, events: 0 }
    }
    pub fn emit(&mut self, ev: Value) {
        debug_assert!(ev.is_object());
        serde_json::to_writer(&mut self.w, &ev).unwrap();
        self.w.write_all(b"\n").unwrap();
        self.events += 1;
    }
    pub fn finish(mut self) -> usize {
        self.w.flush().unwrap();
        self.events
    }
}

/// Sharded trace: events are spread round-robin by *episode* over `n` files so
/// that TLC can validate them in parallel.  `next_episode` moves to the next shard.
pub struct Shards {
    pub shards: Vec<Trace>,
    cur: usize,
}

impl Shards {
    pub fn create(dir: &str, name: &str, n: usize) -> Shards {
        Shards { shards: (0..n).map(|i| Trace::create(dir, &format!("{name}-{i:02}"))).collect(), cur: 0 }
    }
    pub fn emit(&mut self, ev: Value) {
        self.shards[self.cur].emit(ev)
    }
    pub fn next_episode(&mut self) {
        self.cur = (self.cur + 1) % self.shards.len();
    }
    pub fn finish(self) -> usize {
        self.shards.into_iter().map(|t| t.finish()).sum()
    }
}
