//! Logical projection: an array as the sequence of its row values, each value a
//! canonical string token ("~" = null).  Read through public accessors only.
//! Two arrays of the same data type are logically equal iff their token
//! sequences are equal.  Dictionary / run-end encodings are projected to the
//! values they denote; floats are projected by bit pattern.
use arrow_array::cast::AsArray;
use arrow_array::types::*;
use arrow_array::*;
use arrow_schema::{DataType, IntervalUnit, TimeUnit, UnionMode};
use serde_json::Value;

pub const NULL: &str = "~";

fn hex(b: &[u8]) -> String {
    let mut s = String::with_capacity(b.len() * 2 + 1);
    s.push('x');
    for x in b {
        s.push_str(&format!("{x:02x}"));
    }
    s
}

macro_rules! prim {
    ($a:expr, $i:expr, $t:ty) => {
        format!("{:?}", $a.as_primitive::<$t>().value($i))
    };
}

/// token of row `i` of `a` (respecting validity of every nesting level)
pub fn row(a: &dyn Array, i: usize) -> String {
    use DataType::*;
    // logical nulls: dictionary / run-end arrays have no validity of their own
    match a.data_type() {
        Dictionary(_, _) | RunEndEncoded(_, _) | Union(_, _) | Null => {}
        _ => {
            if a.is_null(i) {
                return NULL.to_string();
            }
        }
    }
    match a.data_type() {
        Null => NULL.to_string(),
        Boolean => (if a.as_boolean().value(i) { "T" } else { "F" }).to_string(),
        Int8 => prim!(a, i, Int8Type),
        Int16 => prim!(a, i, Int16Type),
        Int32 => prim!(a, i, Int32Type),
        Int64 => prim!(a, i, Int64Type),
        UInt8 => prim!(a, i, UInt8Type),
        UInt16 => prim!(a, i, UInt16Type),
        UInt32 => prim!(a, i, UInt32Type),
        UInt64 => prim!(a, i, UInt64Type),
        Float16 => format!("h{:04x}", a.as_primitive::<Float16Type>().value(i).to_bits()),
        Float32 => format!("f{:08x}", a.as_primitive::<Float32Type>().value(i).to_bits()),
        Float64 => format!("d{:016x}", a.as_primitive::<Float64Type>().value(i).to_bits()),
        Decimal32(_, _) => prim!(a, i, Decimal32Type),
        Decimal64(_, _) => prim!(a, i, Decimal64Type),
        Decimal128(_, _) => prim!(a, i, Decimal128Type),
        Decimal256(_, _) => format!("{}", a.as_primitive::<Decimal256Type>().value(i)),
        Date32 => prim!(a, i, Date32Type),
        Date64 => prim!(a, i, Date64Type),
        Time32(TimeUnit::Second) => prim!(a, i, Time32SecondType),
        Time32(_) => prim!(a, i, Time32MillisecondType),
        Time64(TimeUnit::Microsecond) => prim!(a, i, Time64MicrosecondType),
        Time64(_) => prim!(a, i, Time64NanosecondType),
        Timestamp(TimeUnit::Second, _) => prim!(a, i, TimestampSecondType),
        Timestamp(TimeUnit::Millisecond, _) => prim!(a, i, TimestampMillisecondType),
        Timestamp(TimeUnit::Microsecond, _) => prim!(a, i, TimestampMicrosecondType),
        Timestamp(TimeUnit::Nanosecond, _) => prim!(a, i, TimestampNanosecondType),
        Duration(TimeUnit::Second) => prim!(a, i, DurationSecondType),
        Duration(TimeUnit::Millisecond) => prim!(a, i, DurationMillisecondType),
        Duration(TimeUnit::Microsecond) => prim!(a, i, DurationMicrosecondType),
        Duration(TimeUnit::Nanosecond) => prim!(a, i, DurationNanosecondType),
        Interval(IntervalUnit::YearMonth) => prim!(a, i, IntervalYearMonthType),
        Interval(IntervalUnit::DayTime) => {
            let v = a.as_primitive::<IntervalDayTimeType>().value(i);
            format!("{}d{}ms", v.days, v.milliseconds)
        }
        Interval(IntervalUnit::MonthDayNano) => {
            let v = a.as_primitive::<IntervalMonthDayNanoType>().value(i);
            format!("{}m{}d{}ns", v.months, v.days, v.nanoseconds)
        }
        Utf8 => format!("s{}", hex(a.as_string::<i32>().value(i).as_bytes())),
        LargeUtf8 => format!("s{}", hex(a.as_string::<i64>().value(i).as_bytes())),
        Utf8View => format!("s{}", hex(a.as_string_view().value(i).as_bytes())),
        Binary => hex(a.as_binary::<i32>().value(i)),
        LargeBinary => hex(a.as_binary::<i64>().value(i)),
        BinaryView => hex(a.as_binary_view().value(i)),
        FixedSizeBinary(_) => hex(a.as_fixed_size_binary().value(i)),
        List(_) => seq(a.as_list::<i32>().value(i).as_ref()),
        LargeList(_) => seq(a.as_list::<i64>().value(i).as_ref()),
        ListView(_) => seq(a.as_list_view::<i32>().value(i).as_ref()),
        LargeListView(_) => seq(a.as_list_view::<i64>().value(i).as_ref()),
        FixedSizeList(_, _) => seq(a.as_fixed_size_list().value(i).as_ref()),
        Map(_, _) => seq(&a.as_map().value(i)),
        Struct(_) => {
            let s = a.as_struct();
            let parts: Vec<String> = s.columns().iter().map(|c| row(c.as_ref(), i)).collect();
            format!("{{{}}}", parts.join(","))
        }
        Dictionary(_, _) => {
            let d = a.as_any_dictionary();
            let keys = d.keys();
            if keys.is_null(i) || d.values().is_empty() {
                return NULL.to_string();
            }
            let k = d.normalized_keys()[i];
            row(d.values().as_ref(), k)
        }
        RunEndEncoded(r, _) => match r.data_type() {
            Int16 => ree::<Int16Type>(a, i),
            Int32 => ree::<Int32Type>(a, i),
            _ => ree::<Int64Type>(a, i),
        },
        Union(_, mode) => {
            let u = a.as_union();
            let tid = u.type_id(i);
            let off = match mode {
                UnionMode::Dense => u.value_offset(i),
                UnionMode::Sparse => i,
            };
            // a union row is the pair (type id, child value): a null child of one variant is a
            // different value from a null child of another variant
            let t = row(u.child(tid).as_ref(), off);
            format!("u{tid}:{t}")
        }
    }
}

fn ree<R: RunEndIndexType>(a: &dyn Array, i: usize) -> String {
    let r = a.as_any().downcast_ref::<RunArray<R>>().unwrap();
    let p = r.get_physical_index(i);
    row(r.values().as_ref(), p)
}

fn seq(a: &dyn Array) -> String {
    let parts: Vec<String> = (0..a.len()).map(|i| row(a, i)).collect();
    format!("[{}]", parts.join(","))
}

/// all rows of `a`
pub fn rows(a: &dyn Array) -> Vec<String> {
    (0..a.len()).map(|i| row(a, i)).collect()
}

pub fn rows_json(a: &dyn Array) -> Value {
    Value::Array(rows(a).into_iter().map(Value::String).collect())
}

/// rows of a record batch: one token per row, columns joined with '|'
pub fn batch_rows(b: &RecordBatch) -> Vec<String> {
    let cols: Vec<Vec<String>> = b.columns().iter().map(|c| rows(c.as_ref())).collect();
    (0..b.num_rows())
        .map(|i| cols.iter().map(|c| c[i].as_str()).collect::<Vec<_>>().join("|"))
        .collect()
}

pub fn batch_rows_json(b: &RecordBatch) -> Value {
    Value::Array(batch_rows(b).into_iter().map(Value::String).collect())
}

pub fn strs(v: &[String]) -> Value {
    Value::Array(v.iter().cloned().map(Value::String).collect())
}

pub fn ints<T: Copy + Into<i64>>(v: &[T]) -> Value {
    Value::Array(v.iter().map(|x| Value::from((*x).into())).collect())
}

/// data type as a stable string (Debug form: includes field names, nullability, metadata)
pub fn type_str(t: &DataType) -> String {
    format!("{t:?}")
}

pub fn schema_str(s: &arrow_schema::Schema) -> String {
    format!("{s:?}")
}

/// type family (used by the specifications to scope known findings and per-family rules)
pub fn family(t: &DataType) -> &'static str {
    use DataType::*;
    match t {
        Null => "null",
        Boolean => "bool",
        Utf8 | LargeUtf8 | Binary | LargeBinary => "bytes",
        Utf8View | BinaryView => "view",
        FixedSizeBinary(_) => "fsb",
        List(_) | LargeList(_) => "list",
        ListView(_) | LargeListView(_) => "listview",
        FixedSizeList(_, _) => "fsl",
        Struct(_) => "struct",
        Map(_, _) => "map",
        Dictionary(_, _) => "dict",
        RunEndEncoded(_, _) => "ree",
        Union(_, _) => "union",
        _ => "prim",
    }
}

/// tokens that denote a null row of type `t` ("~", plus "u<id>:~" for each variant of a union)
pub fn null_tokens(t: &DataType) -> Vec<String> {
    let mut v = vec![NULL.to_string()];
    if let DataType::Union(fields, _) = t {
        for (id, f) in fields.iter() {
            for inner in null_tokens(f.data_type()) {
                v.push(format!("u{id}:{inner}"));
            }
        }
    }
    v
}
