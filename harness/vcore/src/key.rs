//! Order keys: a value as a small JSON tree that the TLA+ specification
//! (`spec/Order.tla`) can compare *by itself*.  Nothing here decides an order:
//! the functions only split bit patterns into pieces small enough for TLC
//! (32-bit integers) and flatten encodings (dictionary / run-end arrays are
//! projected to the values they denote).
//!
//! Node shapes (`k` = kind):
//! * `{"k":"~"}`                     null
//! * `{"k":"i","i":x}`               integer that fits a signed 32-bit int (also booleans 0/1)
//! * `{"k":"sm","i":s,"m":[..]}`     sign `s` (1 = negative / sign bit set) and magnitude as
//!   big-endian 16-bit limbs of fixed width per type: wide integers, decimals,
//!   timestamps (magnitude = |x|) and floats (magnitude = bit pattern without
//!   the sign bit, so that IEEE-754 totalOrder is computed by the specification)
//! * `{"k":"s","m":[bytes]}`         byte string (utf8, binary, views, fixed size binary)
//! * `{"k":"r","c":[..]}`            record: struct fields, interval components, map entries
//! * `{"k":"l","c":[..]}`            list (list, large list, list view, fixed size list, map)
//! * `{"k":"u","i":tid,"c":[x]}`     union value of type id `tid`
use arrow_array::cast::AsArray;
use arrow_array::types::*;
use arrow_array::*;
use arrow_schema::{DataType, IntervalUnit, TimeUnit, UnionMode};
use serde_json::{json, Value};

/// How a union whose selected child value is null is projected.
#[derive(Clone, Copy, PartialEq, Debug)]
pub enum Unions {
    /// the union value itself is null (`Array::logical_nulls`, used by `make_comparator`)
    Lift,
    /// `(type id, null)`: unions have no validity of their own (row format)
    Keep,
}

pub fn null() -> Value {
    json!({"k": "~"})
}

fn int(x: i64) -> Value {
    debug_assert!(x >= i32::MIN as i64 && x <= i32::MAX as i64);
    json!({"k": "i", "i": x})
}

fn limbs(be: &[u8]) -> Vec<Value> {
    debug_assert!(be.len() % 2 == 0);
    be.chunks(2).map(|c| Value::from(((c[0] as u32) << 8) | c[1] as u32)).collect()
}

/// two's complement big-endian bytes -> sign + magnitude limbs
fn sm_int(be: &[u8], signed: bool) -> Value {
    let neg = signed && (be[0] & 0x80) != 0;
    let mag: Vec<u8> = if neg {
        // magnitude = !x + 1 (as an unsigned number of the same width)
        let mut m: Vec<u8> = be.iter().map(|b| !b).collect();
        for b in m.iter_mut().rev() {
            let (v, carry) = b.overflowing_add(1);
            *b = v;
            if !carry {
                break;
            }
        }
        m
    } else {
        be.to_vec()
    };
    json!({"k": "sm", "i": neg as u8, "m": limbs(&mag)})
}

/// IEEE-754 bit pattern (big-endian bytes) -> sign bit + magnitude bits
fn sm_float(be: &[u8]) -> Value {
    let neg = (be[0] & 0x80) != 0;
    let mut m = be.to_vec();
    m[0] &= 0x7F;
    json!({"k": "sm", "i": neg as u8, "m": limbs(&m)})
}

fn bytes(b: &[u8]) -> Value {
    json!({"k": "s", "m": b})
}

fn rec(c: Vec<Value>) -> Value {
    json!({"k": "r", "c": c})
}

fn list(a: &dyn Array, u: Unions) -> Value {
    json!({"k": "l", "c": (0..a.len()).map(|i| value(a, i, u)).collect::<Vec<_>>()})
}

macro_rules! small {
    ($a:expr, $i:expr, $t:ty) => {
        int($a.as_primitive::<$t>().value($i) as i64)
    };
}
macro_rules! wide {
    ($a:expr, $i:expr, $t:ty, $signed:expr) => {
        sm_int(&$a.as_primitive::<$t>().value($i).to_be_bytes(), $signed)
    };
}

/// order key of row `i` of `a`
#[allow(unreachable_patterns)]
pub fn value(a: &dyn Array, i: usize, u: Unions) -> Value {
    use DataType::*;
    match a.data_type() {
        Dictionary(_, _) | RunEndEncoded(_, _) | Union(_, _) | Null => {}
        _ => {
            if a.is_null(i) {
                return null();
            }
        }
    }
    match a.data_type() {
        Null => null(),
        Boolean => int(a.as_boolean().value(i) as i64),
        Int8 => small!(a, i, Int8Type),
        Int16 => small!(a, i, Int16Type),
        Int32 => small!(a, i, Int32Type),
        UInt8 => small!(a, i, UInt8Type),
        UInt16 => small!(a, i, UInt16Type),
        Date32 => small!(a, i, Date32Type),
        Time32(TimeUnit::Second) => small!(a, i, Time32SecondType),
        Time32(_) => small!(a, i, Time32MillisecondType),
        Interval(IntervalUnit::YearMonth) => small!(a, i, IntervalYearMonthType),
        Decimal32(_, _) => small!(a, i, Decimal32Type),
        UInt32 => wide!(a, i, UInt32Type, false),
        UInt64 => wide!(a, i, UInt64Type, false),
        Int64 => wide!(a, i, Int64Type, true),
        Date64 => wide!(a, i, Date64Type, true),
        Time64(TimeUnit::Microsecond) => wide!(a, i, Time64MicrosecondType, true),
        Time64(_) => wide!(a, i, Time64NanosecondType, true),
        Timestamp(TimeUnit::Second, _) => wide!(a, i, TimestampSecondType, true),
        Timestamp(TimeUnit::Millisecond, _) => wide!(a, i, TimestampMillisecondType, true),
        Timestamp(TimeUnit::Microsecond, _) => wide!(a, i, TimestampMicrosecondType, true),
        Timestamp(TimeUnit::Nanosecond, _) => wide!(a, i, TimestampNanosecondType, true),
        Duration(TimeUnit::Second) => wide!(a, i, DurationSecondType, true),
        Duration(TimeUnit::Millisecond) => wide!(a, i, DurationMillisecondType, true),
        Duration(TimeUnit::Microsecond) => wide!(a, i, DurationMicrosecondType, true),
        Duration(TimeUnit::Nanosecond) => wide!(a, i, DurationNanosecondType, true),
        Decimal64(_, _) => wide!(a, i, Decimal64Type, true),
        Decimal128(_, _) => wide!(a, i, Decimal128Type, true),
        Decimal256(_, _) => wide!(a, i, Decimal256Type, true),
        Float16 => sm_float(&a.as_primitive::<Float16Type>().value(i).to_bits().to_be_bytes()),
        Float32 => sm_float(&a.as_primitive::<Float32Type>().value(i).to_bits().to_be_bytes()),
        Float64 => sm_float(&a.as_primitive::<Float64Type>().value(i).to_bits().to_be_bytes()),
        Interval(IntervalUnit::DayTime) => {
            let v = a.as_primitive::<IntervalDayTimeType>().value(i);
            rec(vec![int(v.days as i64), int(v.milliseconds as i64)])
        }
        Interval(IntervalUnit::MonthDayNano) => {
            let v = a.as_primitive::<IntervalMonthDayNanoType>().value(i);
            rec(vec![int(v.months as i64), int(v.days as i64), sm_int(&v.nanoseconds.to_be_bytes(), true)])
        }
        Utf8 => bytes(a.as_string::<i32>().value(i).as_bytes()),
        LargeUtf8 => bytes(a.as_string::<i64>().value(i).as_bytes()),
        Utf8View => bytes(a.as_string_view().value(i).as_bytes()),
        Binary => bytes(a.as_binary::<i32>().value(i)),
        LargeBinary => bytes(a.as_binary::<i64>().value(i)),
        BinaryView => bytes(a.as_binary_view().value(i)),
        FixedSizeBinary(_) => bytes(a.as_fixed_size_binary().value(i)),
        List(_) => list(a.as_list::<i32>().value(i).as_ref(), u),
        LargeList(_) => list(a.as_list::<i64>().value(i).as_ref(), u),
        ListView(_) => list(a.as_list_view::<i32>().value(i).as_ref(), u),
        LargeListView(_) => list(a.as_list_view::<i64>().value(i).as_ref(), u),
        FixedSizeList(_, _) => list(a.as_fixed_size_list().value(i).as_ref(), u),
        Map(_, _) => list(&a.as_map().value(i), u),
        Struct(_) => rec(a.as_struct().columns().iter().map(|c| value(c.as_ref(), i, u)).collect()),
        Dictionary(_, _) => {
            let d = a.as_any_dictionary();
            if d.keys().is_null(i) {
                return null();
            }
            let k = d.normalized_keys()[i];
            value(d.values().as_ref(), k, u)
        }
        RunEndEncoded(r, _) => match r.data_type() {
            Int16 => ree::<Int16Type>(a, i, u),
            Int32 => ree::<Int32Type>(a, i, u),
            _ => ree::<Int64Type>(a, i, u),
        },
        Union(_, mode) => {
            let un = a.as_union();
            let tid = un.type_id(i);
            let off = match mode {
                UnionMode::Dense => un.value_offset(i),
                UnionMode::Sparse => i,
            };
            let c = value(un.child(tid).as_ref(), off, u);
            if u == Unions::Lift && c["k"] == "~" {
                return null();
            }
            json!({"k": "u", "i": tid, "c": [c]})
        }
        other => panic!("key: unsupported type {other:?}"),
    }
}

fn ree<R: RunEndIndexType>(a: &dyn Array, i: usize, u: Unions) -> Value {
    let r = a.as_any().downcast_ref::<RunArray<R>>().unwrap();
    let p = r.get_physical_index(i);
    value(r.values().as_ref(), p, u)
}

/// order keys of all rows of `a`
pub fn column(a: &dyn Array, u: Unions) -> Value {
    Value::Array((0..a.len()).map(|i| value(a, i, u)).collect())
}
