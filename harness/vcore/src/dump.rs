//! Physical dump of an `ArrayData` for `spec/ArrowLayout.tla` (C01, C08, C09).
//!
//! This is a *projection*, never an oracle: it copies sizes, pointer residues and
//! the structurally relevant buffer contents into JSON; every judgement
//! (`WellFormed`) is made by TLC.  It only uses plain getters of `ArrayData`
//! (`data_type/len/offset/buffers/child_data/nulls`) and reads buffer bytes with
//! bounds checks, so it is safe on malformed layouts too.
//!
//! Layout record (all fields always present unless stated):
//! ```text
//! { "t": TypeDesc, "len": int, "offset": int, "lo_ovf": bool,
//!   "nulls": { "present": bool, "nbits": int, "boff": int, "bits": [0|1..], "nc": int },
//!   "bufs": [ { "nbytes": int, "amod": int, "base": int, "ints": [int..] } .. ],
//!   "views": [ { "len": int, "b": [12 ints], "bi": int, "off": int } .. ]   (view kinds only; window offset..offset+len)
//!   "kids": [ layout .. ] }
//! TypeDesc = { "k": kind, "w": int, "size": int, "mode": ""|"sparse"|"dense", "ids": [int..],
//!              "s": type string, "kt": [child type strings the data type declares],
//!              "cn": [nullable flag of each declared child field], "mk": bool (map key field nullable),
//!              "ok": bool (type-level constraints the dump checked syntactically, see `type_desc`) }
//! ```
//! * kinds: null bool prim fsb bin utf8 binview utf8view list listview fsl struct map dict ree union
//! * `w`: byte width of a primitive / offset width (4|8) / key width / run-end width.
//! * Integers are clamped **symmetrically to ±2^30** (`HUGE`); TLC has 32-bit integers.  The
//!   specification treats `HUGE` as "at least 2^30" with saturating arithmetic; `lo_ovf`
//!   says whether `len + offset` overflows `usize` (computed on the unclamped values).
//! * `nulls`: `nbits` = number of addressable bits of the validity bitmap, `boff` = bit index of
//!   row 0 in it, `bits` = the bits `boff .. boff+len` that exist, `nc` = the *reported* null count.
//! * `bufs[i].amod` = `ptr mod A` where `A` is the natural (Rust) alignment of the element type the
//!   format prescribes for that buffer (1 for byte data); `ints` = the buffer decoded at that width
//!   for the element window `base .. base+n` (`base` = array offset; offsets buffers have `len+1`
//!   entries), raw bytes (base 0, whole buffer) for UTF-8 data and view data buffers, empty where
//!   only the size matters (primitive values, boolean values, binary data).
use arrow_buffer::{Buffer, NullBuffer};
use arrow_data::ArrayData;
use arrow_schema::{DataType, IntervalUnit, UnionMode};
use serde_json::{json, Value};

pub const HUGE: i64 = 1 << 30;

pub fn clamp(v: i128) -> i64 {
    if v >= HUGE as i128 {
        HUGE
    } else if v <= -(HUGE as i128) {
        -HUGE
    } else {
        v as i64
    }
}

fn cu(v: usize) -> i64 {
    clamp(v as i128)
}

/// (byte width, natural alignment) of the fixed-width element of a primitive type
pub fn prim_layout(dt: &DataType) -> Option<(usize, usize)> {
    use DataType::*;
    Some(match dt {
        Int8 | UInt8 => (1, 1),
        Int16 | UInt16 | Float16 => (2, 2),
        Int32 | UInt32 | Float32 | Date32 | Time32(_) | Decimal32(_, _) | Interval(IntervalUnit::YearMonth) => (4, 4),
        Int64 | UInt64 | Float64 | Date64 | Time64(_) | Timestamp(_, _) | Duration(_) | Decimal64(_, _) => (8, 8),
        Interval(IntervalUnit::DayTime) => (8, std::mem::align_of::<arrow_buffer::IntervalDayTime>()),
        Interval(IntervalUnit::MonthDayNano) => (16, std::mem::align_of::<arrow_buffer::IntervalMonthDayNano>()),
        Decimal128(_, _) => (16, std::mem::align_of::<i128>()),
        Decimal256(_, _) => (32, std::mem::align_of::<arrow_buffer::i256>()),
        _ => return None,
    })
}

fn int_sign(dt: &DataType) -> Option<(usize, bool)> {
    use DataType::*;
    Some(match dt {
        Int8 => (1, true),
        Int16 => (2, true),
        Int32 => (4, true),
        Int64 => (8, true),
        UInt8 => (1, false),
        UInt16 => (2, false),
        UInt32 => (4, false),
        UInt64 => (8, false),
        _ => return None,
    })
}

pub fn type_str(dt: &DataType) -> String {
    format!("{dt:?}")
}

/// Type descriptor.  `ok` is false when the data type itself breaks a type-level rule the
/// specification states in terms of the descriptor (dictionary key not an integer type,
/// run-end type not Int16/32/64, negative fixed size); the rule is stated in ArrowLayout.tla.
pub fn type_desc(dt: &DataType) -> Value {
    use DataType::*;
    let mut k = "prim";
    let mut w = 0i64;
    let mut size = 0i64;
    let mut mode = "";
    let mut ids: Vec<i64> = vec![];
    let mut kt: Vec<String> = vec![];
    let mut cn: Vec<bool> = vec![];
    let mut mk = false;
    let mut ok = true;
    match dt {
        Null => k = "null",
        Boolean => k = "bool",
        FixedSizeBinary(n) => {
            k = "fsb";
            size = *n as i64;
            ok = *n >= 0;
        }
        Binary | LargeBinary => {
            k = "bin";
            w = if matches!(dt, Binary) { 4 } else { 8 };
        }
        Utf8 | LargeUtf8 => {
            k = "utf8";
            w = if matches!(dt, Utf8) { 4 } else { 8 };
        }
        BinaryView => k = "binview",
        Utf8View => k = "utf8view",
        List(f) | LargeList(f) => {
            k = "list";
            w = if matches!(dt, List(_)) { 4 } else { 8 };
            kt.push(type_str(f.data_type()));
            cn.push(f.is_nullable());
        }
        ListView(f) | LargeListView(f) => {
            k = "listview";
            w = if matches!(dt, ListView(_)) { 4 } else { 8 };
            kt.push(type_str(f.data_type()));
            cn.push(f.is_nullable());
        }
        FixedSizeList(f, n) => {
            k = "fsl";
            size = *n as i64;
            ok = *n >= 0;
            kt.push(type_str(f.data_type()));
            cn.push(f.is_nullable());
        }
        Struct(fs) => {
            k = "struct";
            for f in fs.iter() {
                kt.push(type_str(f.data_type()));
                cn.push(f.is_nullable());
            }
        }
        Map(f, _) => {
            k = "map";
            w = 4;
            kt.push(type_str(f.data_type()));
            cn.push(f.is_nullable());
            if let Struct(kv) = f.data_type() {
                mk = kv.first().map(|x| x.is_nullable()).unwrap_or(false);
            }
        }
        Dictionary(kty, v) => {
            k = "dict";
            match int_sign(kty) {
                Some((kw, _)) => w = kw as i64,
                None => ok = false,
            }
            kt.push(type_str(v));
        }
        RunEndEncoded(r, v) => {
            k = "ree";
            match r.data_type() {
                Int16 => w = 2,
                Int32 => w = 4,
                Int64 => w = 8,
                _ => ok = false,
            }
            kt.push(type_str(r.data_type()));
            kt.push(type_str(v.data_type()));
            cn.push(r.is_nullable());
            cn.push(v.is_nullable());
        }
        Union(fs, m) => {
            k = "union";
            mode = if *m == UnionMode::Sparse { "sparse" } else { "dense" };
            for (i, f) in fs.iter() {
                ids.push(i as i64);
                kt.push(type_str(f.data_type()));
                cn.push(f.is_nullable());
            }
        }
        other => match prim_layout(other) {
            Some((pw, _)) => w = pw as i64,
            None => {
                k = "unknown";
                ok = false;
            }
        },
    }
    json!({"k": k, "w": w, "size": size, "mode": mode, "ids": ids, "s": type_str(dt), "kt": kt, "cn": cn, "mk": mk, "ok": ok})
}

/// the validity bitmap as handed to / held by the array
pub struct NullsDump {
    pub present: bool,
    pub nbits: usize,
    pub boff: usize,
    pub bits: Vec<u8>,
    pub nc: usize,
}

impl NullsDump {
    pub fn absent() -> NullsDump {
        NullsDump { present: false, nbits: 0, boff: 0, bits: vec![], nc: 0 }
    }
    /// a raw bitmap addressed at the array offset (`ArrayData::try_new` / builder / C Data Interface)
    /// with an optional declared null count (default: the number of zero bits found)
    pub fn raw(buf: &Buffer, offset: usize, len: usize, declared: Option<usize>) -> NullsDump {
        let bytes = buf.as_slice();
        let nbits = bytes.len().saturating_mul(8);
        let bits = read_bits(bytes, offset, len);
        let zeros = bits.iter().filter(|b| **b == 0).count();
        NullsDump { present: true, nbits, boff: offset, bits, nc: declared.unwrap_or(zeros) }
    }
    pub fn of(n: Option<&NullBuffer>, len: usize) -> NullsDump {
        match n {
            None => NullsDump::absent(),
            Some(n) => {
                let boff = n.offset();
                let avail = n.len();
                let bits = read_bits(n.buffer().as_slice(), boff, avail.min(len));
                NullsDump { present: true, nbits: boff.saturating_add(avail), boff, bits, nc: n.null_count() }
            }
        }
    }
    fn json(&self) -> Value {
        json!({"present": self.present, "nbits": cu(self.nbits), "boff": cu(self.boff), "bits": self.bits, "nc": cu(self.nc)})
    }
}

fn read_bits(bytes: &[u8], start: usize, n: usize) -> Vec<u8> {
    let mut out = Vec::new();
    for i in 0..n.min(1 << 16) {
        let Some(p) = start.checked_add(i) else { break };
        if p / 8 >= bytes.len() {
            break;
        }
        out.push((bytes[p / 8] >> (p % 8)) & 1);
    }
    out
}

/// decode up to `n` little-endian integers of `w` bytes starting at element `base`
fn decode(bytes: &[u8], w: usize, signed: bool, base: usize, n: usize) -> Vec<i64> {
    let mut out = vec![];
    for i in 0..n.min(1 << 16) {
        let Some(e) = base.checked_add(i) else { break };
        let Some(lo) = e.checked_mul(w) else { break };
        let Some(hi) = lo.checked_add(w) else { break };
        if hi > bytes.len() {
            break;
        }
        let mut raw = [0u8; 16];
        raw[..w].copy_from_slice(&bytes[lo..hi]);
        let v: i128 = if signed {
            let neg = bytes[hi - 1] & 0x80 != 0;
            if neg {
                for b in raw[w..].iter_mut() {
                    *b = 0xFF;
                }
            }
            i128::from_le_bytes(raw)
        } else {
            u128::from_le_bytes(raw) as i128
        };
        out.push(clamp(v));
    }
    out
}

fn buf_json(b: &Buffer, align: usize, base: usize, ints: Vec<i64>) -> Value {
    let amod = (b.as_ptr() as usize) % align.max(1);
    json!({"nbytes": cu(b.len()), "amod": amod, "base": cu(base), "ints": ints})
}

fn raw_bytes(b: &Buffer) -> Vec<i64> {
    b.as_slice().iter().map(|x| *x as i64).collect()
}

/// Dump of the parts of an array (what a validating constructor is given).
/// `decode_prim`: also decode the values of an integer primitive array (run ends child).
pub fn layout_of_parts(
    dt: &DataType,
    len: usize,
    offset: usize,
    nulls: &NullsDump,
    buffers: &[Buffer],
    kids: Vec<Value>,
    decode_prim: bool,
) -> Value {
    use DataType::*;
    let t = type_desc(dt);
    let kind = t["k"].as_str().unwrap().to_string();
    let mut bufs: Vec<Value> = vec![];
    let mut views: Option<Vec<Value>> = None;
    let size_only = |b: &Buffer| buf_json(b, 1, 0, vec![]);
    for (i, b) in buffers.iter().enumerate() {
        let v = match (kind.as_str(), i) {
            ("prim", 0) => {
                let (w, a) = prim_layout(dt).unwrap_or((1, 1));
                let ints = match (decode_prim, int_sign(dt)) {
                    (true, Some((iw, s))) => decode(b.as_slice(), iw, s, offset, len),
                    _ => vec![],
                };
                let _ = w;
                buf_json(b, a, offset, ints)
            }
            ("bin", 0) | ("utf8", 0) | ("list", 0) | ("map", 0) => {
                let w = t["w"].as_i64().unwrap() as usize;
                buf_json(b, w, offset, decode(b.as_slice(), w, true, offset, len.saturating_add(1)))
            }
            ("utf8", 1) => buf_json(b, 1, 0, raw_bytes(b)),
            ("listview", 0) | ("listview", 1) => {
                let w = t["w"].as_i64().unwrap() as usize;
                buf_json(b, w, offset, decode(b.as_slice(), w, true, offset, len))
            }
            ("binview", 0) | ("utf8view", 0) => {
                let bytes = b.as_slice();
                let mut vs = vec![];
                for r in 0..len.min(1 << 16) {
                    let Some(e) = offset.checked_add(r) else { break };
                    let Some(lo) = e.checked_mul(16) else { break };
                    if lo.saturating_add(16) > bytes.len() {
                        break;
                    }
                    let raw = &bytes[lo..lo + 16];
                    let l = u32::from_le_bytes(raw[0..4].try_into().unwrap());
                    let bi = u32::from_le_bytes(raw[8..12].try_into().unwrap());
                    let off = u32::from_le_bytes(raw[12..16].try_into().unwrap());
                    let b12: Vec<i64> = raw[4..16].iter().map(|x| *x as i64).collect();
                    vs.push(json!({"len": clamp(l as i128), "b": b12, "bi": clamp(bi as i128), "off": clamp(off as i128)}));
                }
                views = Some(vs);
                buf_json(b, std::mem::align_of::<u128>(), offset, vec![])
            }
            ("binview", _) | ("utf8view", _) => buf_json(b, 1, 0, raw_bytes(b)),
            ("dict", 0) => {
                let Dictionary(kty, _) = dt else { unreachable!() };
                match int_sign(kty) {
                    Some((w, s)) => buf_json(b, w, offset, decode(b.as_slice(), w, s, offset, len)),
                    None => size_only(b),
                }
            }
            ("union", 0) => buf_json(b, 1, offset, decode(b.as_slice(), 1, true, offset, len)),
            ("union", 1) => buf_json(b, 4, offset, decode(b.as_slice(), 4, true, offset, len)),
            _ => size_only(b),
        };
        bufs.push(v);
    }
    let mut m = serde_json::Map::new();
    m.insert("t".into(), t);
    m.insert("len".into(), json!(cu(len)));
    m.insert("offset".into(), json!(cu(offset)));
    m.insert("lo_ovf".into(), json!(len.checked_add(offset).is_none()));
    m.insert("nulls".into(), nulls.json());
    m.insert("bufs".into(), Value::Array(bufs));
    if matches!(kind.as_str(), "binview" | "utf8view") {
        m.insert("views".into(), Value::Array(views.unwrap_or_default()));
    }
    m.insert("kids".into(), Value::Array(kids));
    Value::Object(m)
}

fn dump(d: &ArrayData, decode_prim: bool) -> Value {
    let ree = matches!(d.data_type(), DataType::RunEndEncoded(_, _));
    let kids: Vec<Value> = d.child_data().iter().enumerate().map(|(i, c)| dump(c, ree && i == 0)).collect();
    layout_of_parts(d.data_type(), d.len(), d.offset(), &NullsDump::of(d.nulls(), d.len()), d.buffers(), kids, decode_prim)
}

/// physical dump of an array (see the module documentation)
pub fn to_layout(d: &ArrayData) -> Value {
    dump(d, false)
}

/// dump of the children of a candidate (run-end child decoded where the parent needs it)
pub fn kids_of(dt: &DataType, children: &[ArrayData]) -> Vec<Value> {
    let ree = matches!(dt, DataType::RunEndEncoded(_, _));
    children.iter().enumerate().map(|(i, c)| dump(c, ree && i == 0)).collect()
}

/// schema descriptor of a record batch: one `{s, nullable}` per field
pub fn schema_desc(s: &arrow_schema::Schema) -> Value {
    Value::Array(s.fields().iter().map(|f| json!({"s": type_str(f.data_type()), "nullable": f.is_nullable()})).collect())
}

/// approximate size of a dump (drivers skip events that would be too large for TLC)
pub fn weight(v: &Value) -> usize {
    match v {
        Value::Array(a) => 1 + a.iter().map(weight).sum::<usize>(),
        Value::Object(o) => 1 + o.values().map(weight).sum::<usize>(),
        _ => 1,
    }
}
