//! physical layout dump (see spec/base/ArrowLayout.tla)
