//! C20 driver: records calls of the arrow-string kernels (LIKE family, starts/ends/contains,
//! substring, length, concat_elements, literal regular expressions) on Utf8 / LargeUtf8 /
//! Utf8View / dictionary / binary inputs.  Trace_Like.tla decides.
use arrow_array::builder::*;
use arrow_array::cast::AsArray;
use arrow_array::types::*;
use arrow_array::*;
use arrow_schema::ArrowError;
use arrow_string::like::*;
use std::sync::Arc;
use vcore::trace::Shards;
use vcore::{guarded, json, Args, Rng, Value};

type Col = Vec<Option<String>>;
type BCol = Vec<Option<Vec<u8>>>;

const ENC: &[&str] = &["utf8", "large", "view", "dict", "dictnv"];

fn enc_str(c: &Col, enc: &str) -> ArrayRef {
    match enc {
        "utf8" => Arc::new(StringArray::from(c.clone())),
        "large" => Arc::new(LargeStringArray::from(c.clone())),
        "view" => Arc::new(StringViewArray::from_iter(c.clone())),
        "dictnv" => {
            // nulls are encoded as a valid key that references a NULL dictionary value
            // (plus, now and then, a null key): values = [null, distinct strings...]
            let mut vals: Vec<Option<String>> = vec![None];
            let mut keys: Vec<Option<i8>> = vec![];
            for (i, x) in c.iter().enumerate() {
                match x {
                    Some(s) => {
                        let pos = vals.iter().position(|v| v.as_deref() == Some(s.as_str())).unwrap_or_else(|| {
                            vals.push(Some(s.clone()));
                            vals.len() - 1
                        });
                        keys.push(Some(pos as i8));
                    }
                    None => keys.push(if i % 3 == 2 { None } else { Some(0) }),
                }
            }
            Arc::new(DictionaryArray::<Int8Type>::new(Int8Array::from(keys), Arc::new(StringArray::from(vals))))
        }
        _ => {
            let mut b = StringDictionaryBuilder::<Int32Type>::new();
            for x in c {
                match x {
                    Some(s) => b.append_value(s),
                    None => b.append_null(),
                }
            }
            Arc::new(b.finish())
        }
    }
}

fn enc_bin(c: &BCol, enc: &str) -> ArrayRef {
    match enc {
        "utf8" => Arc::new(BinaryArray::from_iter(c.clone())),
        "large" => Arc::new(LargeBinaryArray::from_iter(c.clone())),
        _ => Arc::new(BinaryViewArray::from_iter(c.clone())),
    }
}

fn cps(c: &Col) -> Value {
    json!({
        "s": c.iter().map(|x| x.as_deref().unwrap_or("").chars().map(|ch| ch as u32).collect::<Vec<_>>()).collect::<Vec<_>>(),
        "v": c.iter().map(|x| x.is_some() as u8).collect::<Vec<_>>(),
    })
}
fn sbytes(c: &Col) -> Value {
    json!({
        "s": c.iter().map(|x| x.as_deref().unwrap_or("").bytes().collect::<Vec<u8>>()).collect::<Vec<_>>(),
        "v": c.iter().map(|x| x.is_some() as u8).collect::<Vec<_>>(),
    })
}
fn bbytes(c: &BCol) -> Value {
    json!({
        "s": c.iter().map(|x| x.clone().unwrap_or_default()).collect::<Vec<_>>(),
        "v": c.iter().map(|x| x.is_some() as u8).collect::<Vec<_>>(),
    })
}

fn bool_out(r: Result<Result<BooleanArray, ArrowError>, String>, ev: &mut Value) {
    let m = ev.as_object_mut().unwrap();
    match r {
        Ok(Ok(b)) => {
            m.insert("err".into(), json!(false));
            let o: Vec<u8> = (0..b.len()).map(|i| if b.is_null(i) { 2 } else { b.value(i) as u8 }).collect();
            m.insert("out".into(), json!(o));
        }
        Ok(Err(e)) => {
            m.insert("err".into(), json!(true));
            m.insert("out".into(), json!([]));
            m.insert("note".into(), json!(e.to_string()));
        }
        Err(p) => {
            m.insert("err".into(), json!(true));
            m.insert("out".into(), json!([]));
            m.insert("note".into(), json!(format!("panic: {p}")));
        }
    }
}

const ALPHA: &[char] = &[
    'a', 'A', 'b', 'é', 'É', 'ß', 'ẞ', 'k', 'K', '\u{212A}', 's', 'ſ', 'σ', 'ς', 'Σ', '日', '😀', '%', '_', '\\', '.', '*', '\n',
    '(', '[', '^', '$', '\u{0301}', ' ', 'İ', 'ı',
];

fn rand_s(rng: &mut Rng, maxlen: usize, ascii_only: bool) -> String {
    let n = rng.below(maxlen + 1);
    (0..n)
        .map(|_| {
            if ascii_only {
                ['a', 'A', 'b', 'k', 'K', 's', '%', '_', '.', ' '][rng.below(10)]
            } else {
                ALPHA[rng.below(ALPHA.len())]
            }
        })
        .collect()
}

fn rand_pat(rng: &mut Rng, maxlen: usize, ascii_only: bool) -> String {
    let n = rng.below(maxlen + 1);
    (0..n)
        .map(|_| match rng.below(10) {
            0 | 1 => '%',
            2 => '_',
            3 => '\\',
            _ => {
                if ascii_only {
                    ['a', 'A', 'b', 'k', 's', '.'][rng.below(6)]
                } else {
                    ALPHA[rng.below(ALPHA.len())]
                }
            }
        })
        .collect()
}

fn col(rng: &mut Rng, n: usize, maxlen: usize, null_pct: usize, ascii_only: bool) -> Col {
    (0..n).map(|_| if rng.chance(null_pct) { None } else { Some(rand_s(rng, maxlen, ascii_only)) }).collect()
}

fn all_strings(alpha: &[char], maxlen: usize) -> Vec<String> {
    let mut out = vec![String::new()];
    let mut frontier = vec![String::new()];
    for _ in 0..maxlen {
        let mut next = vec![];
        for f in &frontier {
            for c in alpha {
                let mut s = f.clone();
                s.push(*c);
                next.push(s);
            }
        }
        out.extend(next.iter().cloned());
        frontier = next;
    }
    out
}

#[allow(clippy::too_many_arguments)]
fn like_event(t: &mut Shards, opname: &str, ci: bool, neg: bool, l: &Col, ls: bool, lenc: &str, r: &Col, rs: bool, renc: &str) {
    let la = enc_str(l, lenc);
    let ra = enc_str(r, renc);
    let res = guarded(|| {
        let lsc;
        let rsc;
        let ld: &dyn Datum = if ls { lsc = Scalar::new(la.clone()); &lsc } else { &la };
        let rd: &dyn Datum = if rs { rsc = Scalar::new(ra.clone()); &rsc } else { &ra };
        match (opname, ci, neg) {
            ("like", false, false) => like(ld, rd),
            ("like", true, false) => ilike(ld, rd),
            ("like", false, true) => nlike(ld, rd),
            ("like", true, true) => nilike(ld, rd),
            ("starts_with", _, _) => starts_with(ld, rd),
            ("ends_with", _, _) => ends_with(ld, rd),
            ("contains", _, _) => contains(ld, rd),
            _ => eq_ignore_ascii_case(ld, rd),
        }
    });
    let mut ev = json!({"op":opname,"ci":ci,"neg":neg,"l":cps(l),"ls":ls,"lenc":lenc,"r":cps(r),"rs":rs,"renc":renc});
    bool_out(res, &mut ev);
    t.emit(ev);
}

fn bin_event(t: &mut Shards, opname: &str, l: &BCol, ls: bool, r: &BCol, rs: bool, enc: &str) {
    let la = enc_bin(l, enc);
    let ra = enc_bin(r, enc);
    let res = guarded(|| {
        let lsc;
        let rsc;
        let ld: &dyn Datum = if ls { lsc = Scalar::new(la.clone()); &lsc } else { &la };
        let rd: &dyn Datum = if rs { rsc = Scalar::new(ra.clone()); &rsc } else { &ra };
        match opname {
            "starts_with" => starts_with(ld, rd),
            "ends_with" => ends_with(ld, rd),
            _ => contains(ld, rd),
        }
    });
    let mut ev = json!({"op":opname,"ci":false,"neg":false,"l":bbytes(l),"ls":ls,"lenc":format!("bin-{enc}"),"r":bbytes(r),"rs":rs,"renc":format!("bin-{enc}")});
    bool_out(res, &mut ev);
    t.emit(ev);
}

/// project any string/binary-ish array result to (values as byte/char sequences, validity)
fn proj_strs(a: &dyn Array, as_chars: bool) -> (Vec<Vec<u32>>, Vec<u8>) {
    use arrow_schema::DataType::*;
    let n = a.len();
    let mut s = Vec::with_capacity(n);
    let mut v = Vec::with_capacity(n);
    let get = |i: usize| -> Option<Vec<u8>> {
        match a.data_type() {
            Utf8 => (!a.is_null(i)).then(|| a.as_string::<i32>().value(i).as_bytes().to_vec()),
            LargeUtf8 => (!a.is_null(i)).then(|| a.as_string::<i64>().value(i).as_bytes().to_vec()),
            Utf8View => (!a.is_null(i)).then(|| a.as_string_view().value(i).as_bytes().to_vec()),
            Binary => (!a.is_null(i)).then(|| a.as_binary::<i32>().value(i).to_vec()),
            LargeBinary => (!a.is_null(i)).then(|| a.as_binary::<i64>().value(i).to_vec()),
            BinaryView => (!a.is_null(i)).then(|| a.as_binary_view().value(i).to_vec()),
            FixedSizeBinary(_) => (!a.is_null(i)).then(|| a.as_fixed_size_binary().value(i).to_vec()),
            Dictionary(_, _) => {
                let d = a.as_any_dictionary();
                if d.keys().is_null(i) || d.values().is_empty() {
                    None
                } else {
                    let k = d.normalized_keys()[i];
                    let (vs, vv) = proj_strs_bytes(d.values().as_ref());
                    (vv[k] == 1).then(|| vs[k].clone())
                }
            }
            _ => None,
        }
    };
    for i in 0..n {
        match get(i) {
            Some(b) => {
                if as_chars {
                    s.push(String::from_utf8_lossy(&b).chars().map(|c| c as u32).collect());
                } else {
                    s.push(b.iter().map(|x| *x as u32).collect());
                }
                v.push(1)
            }
            None => {
                s.push(vec![]);
                v.push(0)
            }
        }
    }
    (s, v)
}
fn proj_strs_bytes(a: &dyn Array) -> (Vec<Vec<u8>>, Vec<u8>) {
    let (s, v) = proj_strs(a, false);
    (s.into_iter().map(|x| x.into_iter().map(|y| y as u8).collect()).collect(), v)
}

fn arr_out(r: Result<Result<ArrayRef, ArrowError>, String>, ev: &mut Value, as_chars: bool) -> bool {
    let m = ev.as_object_mut().unwrap();
    match r {
        Ok(Ok(a)) => {
            // outputs must be valid UTF-8 where they claim to be strings: reading them through the
            // accessors above would not notice, so validate the raw data explicitly
            let valid = guarded(|| a.to_data().validate_full().is_ok()).unwrap_or(false);
            let (s, v) = proj_strs(a.as_ref(), as_chars);
            m.insert("err".into(), json!(false));
            m.insert("out".into(), json!(s));
            m.insert("ov".into(), json!(v));
            m.insert("valid".into(), json!(valid));
            true
        }
        Ok(Err(e)) => {
            let s = e.to_string();
            m.insert("err".into(), json!(true));
            m.insert("out".into(), json!([]));
            m.insert("ov".into(), json!([]));
            m.insert("note".into(), json!(s.clone()));
            !(s.contains("not support") || s.contains("does not support"))
        }
        Err(p) => {
            m.insert("err".into(), json!(true));
            m.insert("out".into(), json!([]));
            m.insert("ov".into(), json!([]));
            m.insert("note".into(), json!(format!("panic: {p}")));
            true
        }
    }
}

fn escape_regex(s: &str) -> String {
    let mut o = String::new();
    for c in s.chars() {
        if "\\.+*?()|[]{}^$#&-~".contains(c) {
            o.push('\\');
        }
        o.push(c);
    }
    o
}

fn run(args: &Args) {
    let mut rng = Rng::new(args.seed);
    let mut t = Shards::create(&args.out, "like", 14);

    // 1. exhaustive universe: every pattern of length <= 3 over {%, _, \, a, A, é} against every
    //    string of length <= 3 over {a, A, é, \n}  (thorough: every encoding, else rotating)
    let strings = all_strings(&['a', 'A', 'é', '\n'], 3);
    let mut col_all: Col = strings.iter().cloned().map(Some).collect();
    col_all.push(None);
    let pats = all_strings(&['%', '_', '\\', 'a', 'A', 'é'], 3);
    for (pi, p) in pats.iter().enumerate() {
        let pc: Col = vec![Some(p.clone())];
        for (ci, neg) in [(false, false), (true, false), (false, true), (true, true)] {
            if !args.thorough() && neg && pi % 4 != 0 {
                continue;
            }
            let encs: Vec<&str> = if args.thorough() { ENC.to_vec() } else { vec![ENC[(pi + ci as usize) % 5]] };
            for e in encs {
                like_event(&mut t, "like", ci, neg, &col_all, false, e, &pc, true, if e == "dict" || e == "dictnv" { "utf8" } else { e });
            }
        }
        t.next_episode();
    }
    // all-ASCII haystacks take the ASCII fast paths of ILIKE
    // (the pattern alphabet contains non-ASCII characters that fold to ASCII letters: KELVIN SIGN, long s)
    let ascii_strings = all_strings(&['a', 'A', 'k', 's'], 3);
    let col_ascii: Col = ascii_strings.iter().cloned().map(Some).collect();
    let ascii_pats = all_strings(&['%', '_', '\\', 'a', 'K', '\u{212A}', '\u{017F}'], 3);
    for (pi, p) in ascii_pats.iter().enumerate() {
        let pc: Col = vec![Some(p.clone())];
        let e = ENC[pi % 5];
        like_event(&mut t, "like", true, false, &col_ascii, false, e, &pc, true, if e == "dict" || e == "dictnv" { "utf8" } else { e });
        t.next_episode();
    }

    // 2. random longer strings / patterns, array patterns, scalar haystacks, dictionaries on both sides
    let rounds = args.scale(400, 8000);
    for i in 0..rounds {
        let n = 1 + rng.below(12);
        let ascii = rng.chance(30);
        let l = col(&mut rng, n, 9, 15, ascii);
        let ls = rng.chance(10);
        let rs = rng.chance(50);
        let l = if ls { l[..1].to_vec() } else { l };
        let np = if rs { 1 } else if rng.chance(5) { n + 1 } else { n };
        let r: Col = (0..np).map(|_| if rng.chance(10) { None } else { Some(rand_pat(&mut rng, 6, ascii)) }).collect();
        let e = ENC[rng.below(5)];
        let is_dict = |x: &str| x == "dict" || x == "dictnv";
        // a dictionary-encoded pattern side (values Utf8) needs a Utf8-valued haystack
        let le = e;
        let re = if rng.chance(25) && (le == "utf8" || is_dict(le)) {
            if rng.chance(50) { "dict" } else { "dictnv" }
        } else if is_dict(le) {
            "utf8"
        } else {
            le
        };
        let op = ["like", "like", "like", "starts_with", "ends_with", "contains", "eq_ascii_ci"][rng.below(7)];
        let r2: Col = if op == "like" { r } else { r.iter().map(|x| x.as_ref().map(|_| rand_s(&mut rng, 3, ascii))).collect() };
        let (ci, neg) = if op == "like" { (rng.chance(50), rng.chance(30)) } else { (false, false) };
        like_event(&mut t, op, ci, neg, &l, ls, le, &r2, rs, re);
        if i % 8 == 0 {
            t.next_episode();
        }
    }
    // needle taken from the haystack (so that contains / starts / ends are often true)
    for _ in 0..args.scale(150, 3000) {
        let n = 1 + rng.below(10);
        let l = col(&mut rng, n, 8, 10, false);
        let r: Col = l
            .iter()
            .map(|x| {
                x.as_ref().map(|s| {
                    let ch: Vec<char> = s.chars().collect();
                    if ch.is_empty() {
                        return String::new();
                    }
                    let a = rng.below(ch.len());
                    let b = a + rng.below(ch.len() - a + 1);
                    match rng.below(3) {
                        0 => ch[..b].iter().collect(),
                        1 => ch[a..].iter().collect(),
                        _ => ch[a..b].iter().collect(),
                    }
                })
            })
            .collect();
        let e = ENC[rng.below(5)];
        let op = ["starts_with", "ends_with", "contains"][rng.below(3)];
        like_event(&mut t, op, false, false, &l, false, e, &r, false, if e == "dict" || e == "dictnv" { "utf8" } else { e });
        // binary
        let lb: BCol = l.iter().map(|x| x.as_ref().map(|s| s.as_bytes().to_vec())).collect();
        let rb: BCol = r.iter().map(|x| x.as_ref().map(|s| { let b = s.as_bytes(); b[..b.len().min(1 + rng.below(4))].to_vec() })).collect();
        bin_event(&mut t, op, &lb, false, &rb, false, ["utf8", "large", "view"][rng.below(3)]);
        t.next_episode();
    }

    // 3. literal regular expressions (escaped literal = contains; flag i = case-insensitive contains)
    for _ in 0..args.scale(100, 2000) {
        let n = 1 + rng.below(10);
        let l = col(&mut rng, n, 8, 10, false);
        let lit = rand_s(&mut rng, 3, false);
        let ci = rng.chance(50);
        let e = ["utf8", "large", "view"][rng.below(3)];
        let la = enc_str(&l, e);
        let pat = escape_regex(&lit);
        let res = guarded(|| match e {
            "utf8" => arrow_string::regexp::regexp_is_match_scalar(la.as_string::<i32>(), &pat, if ci { Some("i") } else { None }),
            "large" => arrow_string::regexp::regexp_is_match_scalar(la.as_string::<i64>(), &pat, if ci { Some("i") } else { None }),
            _ => arrow_string::regexp::regexp_is_match_scalar(la.as_string_view(), &pat, if ci { Some("i") } else { None }),
        });
        let mut ev = json!({"op":"regex_lit","ci":ci,"neg":false,"l":cps(&l),"ls":false,"lenc":e,"r":cps(&vec![Some(lit)]),"rs":true,"renc":"regex"});
        bool_out(res, &mut ev);
        t.emit(ev);
    }
    t.next_episode();

    // 4. substring (byte based) on strings and binary: every start in -7..=7, every length None/0..=7 + huge
    let sub_rounds = args.scale(3, 40);
    for _ in 0..sub_rounds {
        let n = 1 + rng.below(8);
        let x = col(&mut rng, n, 5, 15, false);
        let xb: BCol = x.iter().map(|s| s.as_ref().map(|s| s.as_bytes().to_vec())).collect();
        for start in -7i64..=7 {
            for len in [None, Some(0u64), Some(1), Some(2), Some(3), Some(4), Some(7), Some(1 << 20), Some(u32::MAX as u64 + 3), Some(u64::MAX)] {
                if !args.thorough() && rng.chance(60) {
                    continue;
                }
                let enc = ["utf8", "large", "view", "dict", "bin", "lbin", "binview"][rng.below(7)];
                let (arr, isstr): (ArrayRef, bool) = match enc {
                    "bin" => (enc_bin(&xb, "utf8"), false),
                    "lbin" => (enc_bin(&xb, "large"), false),
                    "binview" => (enc_bin(&xb, "view"), false),
                    e => (enc_str(&x, e), true),
                };
                let res = guarded(|| arrow_string::substring::substring(arr.as_ref(), start, len));
                let l32 = len.map(|l| l.min(1 << 20) as i64).unwrap_or(0);
                let mut ev = json!({"op":"substring","enc":enc,"x":sbytes(&x),"isstr":isstr,"start":start,"haslen":len.is_some(),"len":l32,"lenclass": match len { Some(l) if l > i64::MAX as u64 => "gt_i64", Some(l) if l > i32::MAX as u64 => "gt_i32", _ => "small" }});
                if arr_out(res, &mut ev, false) {
                    t.emit(ev);
                }
            }
        }
        t.next_episode();
        // substring_by_char
        for start in -6i64..=6 {
            for len in [None, Some(0u64), Some(1), Some(2), Some(5), Some(1 << 20)] {
                let large = rng.chance(50);
                let res = guarded(|| -> Result<ArrayRef, ArrowError> {
                    if large {
                        let a = LargeStringArray::from(x.clone());
                        arrow_string::substring::substring_by_char(&a, start, len).map(|r| Arc::new(r) as ArrayRef)
                    } else {
                        let a = StringArray::from(x.clone());
                        arrow_string::substring::substring_by_char(&a, start, len).map(|r| Arc::new(r) as ArrayRef)
                    }
                });
                let mut ev = json!({"op":"substring_by_char","x":cps(&x),"start":start,"haslen":len.is_some(),"len":len.unwrap_or(0).min(1<<20)});
                if arr_out(res, &mut ev, true) {
                    t.emit(ev);
                }
            }
        }
        t.next_episode();
    }

    // 5. length / bit_length / concat_elements
    for _ in 0..args.scale(120, 2500) {
        let n = rng.below(12);
        let x = col(&mut rng, n, 6, 20, false);
        let enc = ["utf8", "large", "view", "dict", "bin", "lbin", "binview"][rng.below(7)];
        let xb: BCol = x.iter().map(|s| s.as_ref().map(|s| s.as_bytes().to_vec())).collect();
        let arr: ArrayRef = match enc {
            "bin" => enc_bin(&xb, "utf8"),
            "lbin" => enc_bin(&xb, "large"),
            "binview" => enc_bin(&xb, "view"),
            e => enc_str(&x, e),
        };
        for op in ["length", "bit_length"] {
            let res = guarded(|| if op == "length" { arrow_string::length::length(arr.as_ref()) } else { arrow_string::length::bit_length(arr.as_ref()) });
            let mut ev = json!({"op":op,"enc":enc,"x":sbytes(&x)});
            let m = ev.as_object_mut().unwrap();
            match res {
                Ok(Ok(a)) => {
                    let a = if let Some(d) = a.as_any_dictionary_opt() {
                        // dictionary in, dictionary of lengths out: expand through the keys
                        let vals = d.values().clone();
                        let keys = if vals.is_empty() { vec![0; d.len()] } else { d.normalized_keys() };
                        let idx = UInt32Array::from((0..d.len()).map(|i| if d.keys().is_null(i) { None } else { Some(keys[i] as u32) }).collect::<Vec<_>>());
                        expand(vals.as_ref(), &idx)
                    } else {
                        a
                    };
                    let (o, ov): (Vec<i64>, Vec<u8>) = match a.data_type() {
                        arrow_schema::DataType::Int32 => { let p = a.as_primitive::<Int32Type>(); ((0..p.len()).map(|i| p.value(i) as i64).collect(), (0..p.len()).map(|i| p.is_valid(i) as u8).collect()) }
                        _ => { let p = a.as_primitive::<Int64Type>(); ((0..p.len()).map(|i| p.value(i)).collect(), (0..p.len()).map(|i| p.is_valid(i) as u8).collect()) }
                    };
                    m.insert("err".into(), json!(false));
                    m.insert("out".into(), json!(o));
                    m.insert("ov".into(), json!(ov));
                }
                Ok(Err(e)) => { let s = e.to_string(); if s.contains("not supported") { continue } m.insert("err".into(), json!(true)); m.insert("out".into(), json!([])); m.insert("ov".into(), json!([])); m.insert("note".into(), json!(s)); }
                Err(p) => { m.insert("err".into(), json!(true)); m.insert("out".into(), json!([])); m.insert("ov".into(), json!([])); m.insert("note".into(), json!(format!("panic: {p}"))); }
            }
            t.emit(ev);
        }
        // concat_elements
        let nb = if rng.chance(7) { n + 1 } else { n };
        let y = col(&mut rng, nb, 6, 20, false);
        let yb: BCol = y.iter().map(|s| s.as_ref().map(|s| s.as_bytes().to_vec())).collect();
        let cenc = ["utf8", "large", "view", "bin", "lbin", "binview"][rng.below(6)];
        let (a, b): (ArrayRef, ArrayRef) = match cenc {
            "bin" => (enc_bin(&xb, "utf8"), enc_bin(&yb, "utf8")),
            "lbin" => (enc_bin(&xb, "large"), enc_bin(&yb, "large")),
            "binview" => (enc_bin(&xb, "view"), enc_bin(&yb, "view")),
            e => (enc_str(&x, e), enc_str(&y, e)),
        };
        let res = guarded(|| arrow_string::concat_elements::concat_elements_dyn(a.as_ref(), b.as_ref()));
        let mut ev = json!({"op":"concat","enc":cenc,"a":sbytes(&x),"b":sbytes(&y)});
        if arr_out(res, &mut ev, false) {
            t.emit(ev);
        }
        t.next_episode();
    }
    let n = t.finish();
    println!("DRIVER c20 events={n}");
}

/// values[idx] without using arrow-select (inputs are small)
fn expand(values: &dyn Array, idx: &UInt32Array) -> ArrayRef {
    let vd = values.to_data();
    let mut m = arrow_array::make_array(vd.clone()).to_data();
    let _ = &mut m;
    let mut b32 = Int32Builder::new();
    let mut b64 = Int64Builder::new();
    let is32 = values.data_type() == &arrow_schema::DataType::Int32;
    for i in 0..idx.len() {
        if idx.is_null(i) || values.is_empty() || values.is_null(idx.value(i) as usize) {
            if is32 { b32.append_null() } else { b64.append_null() }
        } else if is32 {
            b32.append_value(values.as_primitive::<Int32Type>().value(idx.value(i) as usize))
        } else {
            b64.append_value(values.as_primitive::<Int64Type>().value(idx.value(i) as usize))
        }
    }
    if is32 { Arc::new(b32.finish()) } else { Arc::new(b64.finish()) }
}

fn main() {
    let args = Args::parse();
    vcore::quiet_panics();
    run(&args);
}
