//! Minimal reproductions of the known findings (`c07 repro`).
use arrow_array::builder::{Int32Builder, ListBuilder};
use arrow_array::*;
use arrow_schema::{DataType, Field, Schema};
use bytes::Bytes;
use parquet::arrow::arrow_reader::{ArrowReaderMetadata, ArrowReaderOptions};
use parquet::arrow::arrow_writer::ArrowWriter;
use parquet::data_type::{ByteArray, ByteArrayType};
use parquet::file::metadata::PageIndexPolicy;
use parquet::file::properties::{EnabledStatistics, WriterProperties};
use parquet::file::writer::SerializedFileWriter;
use parquet::schema::parser::parse_message_type;
use std::sync::Arc;

fn byte_array_decimal() {
    let schema = Arc::new(parse_message_type("message m { required binary d (DECIMAL(12,2)); }").unwrap());
    let mut out = vec![];
    let mut w = SerializedFileWriter::new(&mut out, schema, Arc::new(WriterProperties::builder().build())).unwrap();
    let mut rg = w.next_row_group().unwrap();
    let mut col = rg.next_column().unwrap().unwrap();
    // -2 = 0xFE, -256 = 0xFF00 (minimal two's complement encodings)
    let data = vec![ByteArray::from(vec![0xFEu8]), ByteArray::from(vec![0xFFu8, 0x00])];
    col.typed::<ByteArrayType>().write_batch(&data, None, None).unwrap();
    col.close().unwrap();
    rg.close().unwrap();
    let meta = w.close().unwrap();
    let st = meta.row_group(0).column(0).statistics().unwrap();
    println!("byte_array decimal values [-2 (FE), -256 (FF00)]: min bytes {:02X?} max bytes {:02X?}  (expected min FF00 = -256, max FE = -2)", st.min_bytes_opt().unwrap(), st.max_bytes_opt().unwrap());
}

fn list_null_page() {
    let mut b = ListBuilder::new(Int32Builder::new());
    b.values().append_null();
    b.values().append_value(2);
    b.values().append_value(0);
    b.append(true);
    let a: ArrayRef = Arc::new(b.finish());
    let schema = Arc::new(Schema::new(vec![Field::new("c", a.data_type().clone(), true)]));
    let mut buf = vec![];
    let props = WriterProperties::builder().set_statistics_enabled(EnabledStatistics::Page).build();
    let mut w = ArrowWriter::try_new(&mut buf, schema.clone(), Some(props)).unwrap();
    w.write(&RecordBatch::try_new(schema, vec![a]).unwrap()).unwrap();
    w.close().unwrap();
    let meta = ArrowReaderMetadata::load(&Bytes::from(buf), ArrowReaderOptions::new().with_page_index_policy(PageIndexPolicy::Required)).unwrap();
    let ci = meta.metadata().page_index().unwrap().column_index(0, 0).unwrap();
    println!("list<int32> one row [null, 2, 0]: column index null_page = {} null_count = {:?}  (the page holds the values 2 and 0)", ci.is_null_page(0), ci.null_count(0));
    let _ = DataType::Null;
}

pub fn run() {
    byte_array_decimal();
    list_null_page();
}
