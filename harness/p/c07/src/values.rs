//! Column types and input values of the C07 driver, and the projection of Parquet physical
//! values (decoded from pages, or found in statistics) to the order keys of vcore::key.
//! Nothing here compares values.
use arrow_array::types::*;
use arrow_array::*;
use arrow_buffer::i256;
use arrow_schema::{DataType, Field, IntervalUnit, SortOptions, TimeUnit};
use parquet::bloom_filter::Sbbf;
use std::sync::Arc;
use vcore::mk::{self, Cfg};
use vcore::{key, Rng, Value};

#[derive(Clone, Debug)]
pub enum Phys {
    Bool(bool),
    I32(i32),
    I64(i64),
    F32(f32),
    F64(f64),
    Bytes(Vec<u8>),
}

impl Phys {
    /// `Sbbf::check` of the value, as the typed Parquet value the writer inserted
    pub fn probe(&self, b: &Sbbf) -> bool {
        match self {
            Phys::Bool(x) => b.check(x),
            Phys::I32(x) => b.check(x),
            Phys::I64(x) => b.check(x),
            Phys::F32(x) => b.check(x),
            Phys::F64(x) => b.check(x),
            Phys::Bytes(x) => b.check(x.as_slice()),
        }
    }
}

/// the Arrow type of the leaf values of a column (lists: the element; dictionaries: the values)
pub fn leaf_type(t: &DataType) -> DataType {
    match t {
        DataType::List(f) | DataType::LargeList(f) => leaf_type(f.data_type()),
        DataType::Dictionary(_, v) => leaf_type(v),
        other => other.clone(),
    }
}

/// (sort order class, float width, utf8) of a leaf type: what the specification is told about the
/// column.  "none": the type has no defined order (intervals).
pub fn order_of(lt: &DataType) -> (&'static str, i64, bool) {
    use DataType::*;
    match lt {
        Float16 => ("total", 16, false),
        Float32 => ("total", 32, false),
        Float64 => ("total", 64, false),
        Utf8 | LargeUtf8 | Utf8View => ("bytes", 0, true),
        Binary | LargeBinary | BinaryView | FixedSizeBinary(_) => ("bytes", 0, false),
        Interval(_) => ("none", 0, false),
        UInt8 | UInt16 | UInt32 | UInt64 | Boolean => ("unsigned", 0, false),
        _ => ("signed", 0, false),
    }
}

fn be_to_i128(b: &[u8]) -> Option<i128> {
    if b.is_empty() || b.len() > 16 {
        return None;
    }
    let fill = if b[0] & 0x80 != 0 { 0xFFu8 } else { 0 };
    let mut be = [fill; 16];
    be[16 - b.len()..].copy_from_slice(b);
    Some(i128::from_be_bytes(be))
}
fn be_to_i256(b: &[u8]) -> Option<i256> {
    if b.is_empty() || b.len() > 32 {
        return None;
    }
    let fill = if b[0] & 0x80 != 0 { 0xFFu8 } else { 0 };
    let mut be = [fill; 32];
    be[32 - b.len()..].copy_from_slice(b);
    Some(i256::from_be_bytes(be))
}

/// the one-element Arrow array of type `lt` that the physical value denotes (the Parquet <-> Arrow
/// type mapping of the format: widths, signedness reinterpretation, big-endian decimals)
fn denote(lt: &DataType, p: &Phys) -> Option<ArrayRef> {
    use DataType::*;
    macro_rules! prim {
        ($t:ty, $v:expr) => {
            Some(Arc::new(PrimitiveArray::<$t>::from_iter_values([$v]).with_data_type(lt.clone())) as ArrayRef)
        };
    }
    Some(match (lt, p) {
        (Boolean, Phys::Bool(b)) => Arc::new(BooleanArray::from(vec![*b])) as ArrayRef,
        (Int8, Phys::I32(v)) => return prim!(Int8Type, *v as i8),
        (Int16, Phys::I32(v)) => return prim!(Int16Type, *v as i16),
        (Int32, Phys::I32(v)) => return prim!(Int32Type, *v),
        (UInt8, Phys::I32(v)) => return prim!(UInt8Type, *v as u8),
        (UInt16, Phys::I32(v)) => return prim!(UInt16Type, *v as u16),
        (UInt32, Phys::I32(v)) => return prim!(UInt32Type, *v as u32),
        (Date32, Phys::I32(v)) => return prim!(Date32Type, *v),
        (Time32(TimeUnit::Second), Phys::I32(v)) => return prim!(Time32SecondType, *v),
        (Time32(_), Phys::I32(v)) => return prim!(Time32MillisecondType, *v),
        (Decimal32(..), Phys::I32(v)) => return prim!(Decimal32Type, *v),
        (Decimal64(..), Phys::I32(v)) => return prim!(Decimal64Type, *v as i64),
        (Decimal128(..), Phys::I32(v)) => return prim!(Decimal128Type, *v as i128),
        (Decimal256(..), Phys::I32(v)) => return prim!(Decimal256Type, i256::from_i128(*v as i128)),
        (Int64, Phys::I64(v)) => return prim!(Int64Type, *v),
        (UInt64, Phys::I64(v)) => return prim!(UInt64Type, *v as u64),
        (Date64, Phys::I64(v)) => return prim!(Date64Type, *v),
        (Time64(TimeUnit::Microsecond), Phys::I64(v)) => return prim!(Time64MicrosecondType, *v),
        (Time64(_), Phys::I64(v)) => return prim!(Time64NanosecondType, *v),
        (Timestamp(TimeUnit::Second, _), Phys::I64(v)) => return prim!(TimestampSecondType, *v),
        (Timestamp(TimeUnit::Millisecond, _), Phys::I64(v)) => return prim!(TimestampMillisecondType, *v),
        (Timestamp(TimeUnit::Microsecond, _), Phys::I64(v)) => return prim!(TimestampMicrosecondType, *v),
        (Timestamp(TimeUnit::Nanosecond, _), Phys::I64(v)) => return prim!(TimestampNanosecondType, *v),
        (Duration(TimeUnit::Second), Phys::I64(v)) => return prim!(DurationSecondType, *v),
        (Duration(TimeUnit::Millisecond), Phys::I64(v)) => return prim!(DurationMillisecondType, *v),
        (Duration(TimeUnit::Microsecond), Phys::I64(v)) => return prim!(DurationMicrosecondType, *v),
        (Duration(TimeUnit::Nanosecond), Phys::I64(v)) => return prim!(DurationNanosecondType, *v),
        (Decimal64(..), Phys::I64(v)) => return prim!(Decimal64Type, *v),
        (Decimal128(..), Phys::I64(v)) => return prim!(Decimal128Type, *v as i128),
        (Decimal256(..), Phys::I64(v)) => return prim!(Decimal256Type, i256::from_i128(*v as i128)),
        (Float32, Phys::F32(v)) => return prim!(Float32Type, *v),
        (Float64, Phys::F64(v)) => return prim!(Float64Type, *v),
        (Float16, Phys::Bytes(b)) if b.len() == 2 => return prim!(Float16Type, half::f16::from_le_bytes([b[0], b[1]])),
        (Decimal128(..), Phys::Bytes(b)) => return prim!(Decimal128Type, be_to_i128(b)?),
        (Decimal256(..), Phys::Bytes(b)) => return prim!(Decimal256Type, be_to_i256(b)?),
        (Decimal64(..), Phys::Bytes(b)) => return prim!(Decimal64Type, be_to_i128(b)? as i64),
        // byte strings: the key is the bytes themselves (a truncated UTF-8 bound need not be a string)
        (Utf8 | LargeUtf8 | Utf8View | Binary | LargeBinary | BinaryView | FixedSizeBinary(_) | Interval(_), Phys::Bytes(b)) => {
            Arc::new(BinaryArray::from_iter_values([b.as_slice()])) as ArrayRef
        }
        _ => return None,
    })
}

pub fn key_of(lt: &DataType, p: &Phys) -> Option<Value> {
    denote(lt, p).map(|a| key::value(a.as_ref(), 0, key::Unions::Lift))
}

fn fld(name: &str, t: DataType, nullable: bool) -> Arc<Field> {
    Arc::new(Field::new(name, t, nullable))
}

pub fn types() -> Vec<DataType> {
    use DataType::*;
    vec![
        Boolean, Int8, Int16, Int32, Int64, UInt8, UInt16, UInt32, UInt64, Float16, Float32, Float64,
        Decimal32(5, 2), Decimal64(12, 2), Decimal64(7, 1), Decimal128(9, 2), Decimal128(18, 4), Decimal128(30, 5), Decimal128(38, 0),
        Decimal256(50, 3), Decimal256(76, 0),
        Date32, Date64, Time32(TimeUnit::Second), Time32(TimeUnit::Millisecond), Time64(TimeUnit::Microsecond), Time64(TimeUnit::Nanosecond),
        Timestamp(TimeUnit::Second, None), Timestamp(TimeUnit::Millisecond, Some("UTC".into())), Timestamp(TimeUnit::Microsecond, None),
        Timestamp(TimeUnit::Nanosecond, None), Duration(TimeUnit::Millisecond),
        Interval(IntervalUnit::YearMonth), Interval(IntervalUnit::DayTime),
        Utf8, Utf8, LargeUtf8, Utf8View, Binary, Binary, LargeBinary, BinaryView, FixedSizeBinary(3), FixedSizeBinary(5),
        List(fld("item", Int32, true)), List(fld("item", Utf8, true)), List(fld("item", Float64, true)), LargeList(fld("item", UInt32, false)),
        Dictionary(Box::new(Int8), Box::new(Utf8)), Dictionary(Box::new(Int16), Box::new(Int32)), Dictionary(Box::new(Int32), Box::new(Binary)),
    ]
}

const CHARS: &[&str] = &["a", "a", "b", "z", "\u{7f}", "\u{80}", "é", "\u{7ff}", "\u{800}", "日", "\u{d7ff}", "\u{e000}", "\u{ffff}", "\u{10000}", "😀", "\u{10ffff}"];
const BYTES: &[u8] = &[0x00, 0x61, 0x61, 0x7F, 0x80, 0xFE, 0xFF, 0xFF];

fn strings(rng: &mut Rng, n: usize, np: usize) -> Vec<Option<String>> {
    // common prefixes, so that truncated bounds collide and carry
    let prefixes: Vec<String> = (0..3).map(|_| (0..rng.below(4)).map(|_| *rng.pick(CHARS)).collect()).collect();
    (0..n)
        .map(|_| {
            if rng.chance(np) {
                return None;
            }
            let mut s = rng.pick(&prefixes).clone();
            for _ in 0..rng.below(5) {
                s.push_str(*rng.pick(CHARS));
            }
            if rng.chance(8) {
                s.push_str(&"\u{10ffff}".repeat(1 + rng.below(20)));
            }
            if rng.chance(8) {
                s.push_str(&"x".repeat(60 + rng.below(10)));
            }
            Some(s)
        })
        .collect()
}

fn blobs(rng: &mut Rng, n: usize, np: usize, fixed: Option<usize>) -> Vec<Option<Vec<u8>>> {
    let prefixes: Vec<Vec<u8>> = (0..3).map(|_| (0..rng.below(4)).map(|_| *rng.pick(BYTES)).collect()).collect();
    (0..n)
        .map(|_| {
            if rng.chance(np) {
                return None;
            }
            let mut b = rng.pick(&prefixes).clone();
            for _ in 0..rng.below(5) {
                b.push(*rng.pick(BYTES));
            }
            if rng.chance(8) {
                b.extend(std::iter::repeat_n(0xFFu8, 1 + rng.below(70)));
            }
            if let Some(w) = fixed {
                b.resize(w, *rng.pick(BYTES));
            }
            Some(b)
        })
        .collect()
}

/// a column of `n` values of type `t`: random / ascending / descending / constant sequences
pub fn column(rng: &mut Rng, t: &DataType, n: usize, nullable: bool) -> ArrayRef {
    use DataType::*;
    let np = if !nullable { 0 } else { *rng.pick(&[0usize, 0, 20, 50, 100]) };
    let base: ArrayRef = match t {
        Utf8 => Arc::new(StringArray::from(strings(rng, n, np))),
        LargeUtf8 => Arc::new(LargeStringArray::from(strings(rng, n, np))),
        Utf8View => Arc::new(StringViewArray::from_iter(strings(rng, n, np))),
        Binary => Arc::new(BinaryArray::from_iter(blobs(rng, n, np, None))),
        LargeBinary => Arc::new(LargeBinaryArray::from_iter(blobs(rng, n, np, None))),
        BinaryView => Arc::new(BinaryViewArray::from_iter(blobs(rng, n, np, None))),
        FixedSizeBinary(w) => {
            let v = blobs(rng, n, np, Some(*w as usize));
            Arc::new(FixedSizeBinaryArray::try_from_sparse_iter_with_size(v.into_iter(), *w).unwrap())
        }
        Decimal32(..) | Decimal64(..) | Decimal128(..) | Decimal256(..) => {
            // mostly small magnitudes of both signs (sign extension), sometimes the precision's extremes
            let a = mk::array(rng, t, n, Cfg::tame(np));
            if rng.chance(50) { a } else { small_decimals(rng, t, n, np) }
        }
        _ => {
            let cfg = if rng.chance(70) { Cfg::wild(np) } else { Cfg::tame(np) };
            mk::array(rng, t, n, cfg)
        }
    };
    // shape of the sequence (inputs only): as generated, sorted either way, or a constant
    match rng.below(6) {
        0 | 1 => sorted(&base, false).unwrap_or(base),
        2 => sorted(&base, true).unwrap_or(base),
        3 if n > 0 => {
            let i = rng.below(n);
            let idx = UInt32Array::from(vec![i as u32; n]);
            arrow_ord_take(&base, &idx).unwrap_or(base)
        }
        _ => base,
    }
}

fn small_decimals(rng: &mut Rng, t: &DataType, n: usize, np: usize) -> ArrayRef {
    let vals: Vec<Option<i64>> = (0..n).map(|_| if rng.chance(np) { None } else { Some(*rng.pick(&[-300i64, -256, -255, -129, -128, -127, -2, -1, 0, 1, 2, 127, 128, 129, 255, 256, 300, 65535, -65536])) }).collect();
    match t {
        DataType::Decimal32(..) => Arc::new(vals.iter().map(|x| x.map(|v| v as i32)).collect::<Decimal32Array>().with_data_type(t.clone())),
        DataType::Decimal64(..) => Arc::new(vals.iter().copied().collect::<Decimal64Array>().with_data_type(t.clone())),
        DataType::Decimal128(..) => Arc::new(vals.iter().map(|x| x.map(|v| v as i128)).collect::<Decimal128Array>().with_data_type(t.clone())),
        _ => Arc::new(vals.iter().map(|x| x.map(|v| i256::from_i128(v as i128))).collect::<Decimal256Array>().with_data_type(t.clone())),
    }
}

fn sorted(a: &ArrayRef, descending: bool) -> Option<ArrayRef> {
    arrow_ord::sort::sort(a.as_ref(), Some(SortOptions { descending, nulls_first: false })).ok()
}

fn arrow_ord_take(a: &ArrayRef, idx: &UInt32Array) -> Option<ArrayRef> {
    arrow_select::take::take(a.as_ref(), idx, None).ok()
}
