//! C07 driver: writes Parquet files with the real writer and records, per column chunk, what
//! the file reports about it (footer statistics, column index, offset index, page header
//! statistics, bloom filter, StatisticsConverter outputs) next to the values decoded from every
//! page alone.  Trace_Stats.tla decides; nothing is judged here.
mod lowlevel;
mod repro;
mod values;

use arrow_array::*;
use arrow_schema::{DataType, Field, Schema};
use bytes::Bytes;
use parquet::arrow::arrow_reader::statistics::StatisticsConverter;
use parquet::arrow::arrow_reader::{ArrowReaderMetadata, ArrowReaderOptions};
use parquet::arrow::arrow_writer::ArrowWriter;
use parquet::basic::{Compression, Type as PhysType};
use parquet::column::page::{Page, PageMetadata, PageReader};
use parquet::column::reader::{get_column_reader, ColumnReader};
use parquet::data_type::{ByteArray, FixedLenByteArray};
use parquet::errors::Result as PqResult;
use parquet::file::metadata::{PageIndexPolicy, ParquetMetaData};
use parquet::file::page_index::column_index::ColumnIndexMetaData;
use parquet::file::properties::{EnabledStatistics, ReaderProperties, WriterProperties, WriterVersion};
use parquet::file::reader::{FileReader, SerializedFileReader};
use parquet::file::serialized_reader::ReadOptionsBuilder;
use parquet::file::statistics::Statistics;
use parquet::schema::types::ColumnDescPtr;
use std::sync::Arc;
use values::{key_of, leaf_type, Phys};
use vcore::trace::Shards;
use vcore::{guarded, json, key, Args, Rng, Value};

/// a page reader over an explicit list of pages (the dictionary page, if any, and one data page)
struct OnePage {
    pages: std::collections::VecDeque<Page>,
}
impl Iterator for OnePage {
    type Item = PqResult<Page>;
    fn next(&mut self) -> Option<Self::Item> {
        self.pages.pop_front().map(Ok)
    }
}
impl PageReader for OnePage {
    fn get_next_page(&mut self) -> PqResult<Option<Page>> {
        Ok(self.pages.pop_front())
    }
    fn peek_next_page(&mut self) -> PqResult<Option<PageMetadata>> {
        Ok(self.pages.front().map(|p| PageMetadata {
            num_rows: match p {
                Page::DataPageV2 { num_rows, .. } => Some(*num_rows as usize),
                _ => None,
            },
            num_levels: Some(p.num_values() as usize),
            is_dict: matches!(p, Page::DictionaryPage { .. }),
        }))
    }
    fn skip_next_page(&mut self) -> PqResult<()> {
        self.pages.pop_front();
        Ok(())
    }
}

/// levels and physical values of one data page (decoded with the dictionary page when needed)
pub struct Decoded {
    pub defs: Vec<i16>,
    pub reps: Vec<i16>,
    pub vals: Vec<Phys>,
}

pub fn decode_page(descr: &ColumnDescPtr, dict: Option<&Page>, page: &Page) -> Result<Decoded, String> {
    let mut pages = std::collections::VecDeque::new();
    if let Some(d) = dict {
        pages.push_back(d.clone());
    }
    pages.push_back(page.clone());
    let nlev = page.num_values() as usize;
    let cr = get_column_reader(descr.clone(), Box::new(OnePage { pages }));
    let mut d: Vec<i16> = vec![];
    let mut r: Vec<i16> = vec![];
    let mut v: Vec<Phys> = vec![];
    macro_rules! drain {
        ($rd:expr, $t:ty, $f:expr) => {{
            let mut rd = $rd;
            let mut idle = 0;
            loop {
                let mut vb: Vec<$t> = vec![];
                let (recs, _nv, nl) = rd.read_records(1 << 20, Some(&mut d), Some(&mut r), &mut vb).map_err(|e| e.to_string())?;
                v.extend(vb.iter().map($f));
                if recs == 0 && nl == 0 {
                    idle += 1;
                    if idle > 2 {
                        break;
                    }
                }
            }
        }};
    }
    match cr {
        ColumnReader::BoolColumnReader(rd) => drain!(rd, bool, |x| Phys::Bool(*x)),
        ColumnReader::Int32ColumnReader(rd) => drain!(rd, i32, |x| Phys::I32(*x)),
        ColumnReader::Int64ColumnReader(rd) => drain!(rd, i64, |x| Phys::I64(*x)),
        ColumnReader::Int96ColumnReader(_) => return Err("int96".into()),
        ColumnReader::FloatColumnReader(rd) => drain!(rd, f32, |x| Phys::F32(*x)),
        ColumnReader::DoubleColumnReader(rd) => drain!(rd, f64, |x| Phys::F64(*x)),
        ColumnReader::ByteArrayColumnReader(rd) => drain!(rd, ByteArray, |x| Phys::Bytes(x.data().to_vec())),
        ColumnReader::FixedLenByteArrayColumnReader(rd) => drain!(rd, FixedLenByteArray, |x| Phys::Bytes(x.data().to_vec())),
    }
    if descr.max_def_level() == 0 {
        d = vec![0; if descr.max_rep_level() > 0 { r.len() } else { v.len() }];
    }
    if descr.max_rep_level() == 0 {
        r = vec![0; d.len()];
    }
    if d.len() != nlev {
        return Err(format!("page decodes to {} levels, header says {}", d.len(), nlev));
    }
    Ok(Decoded { defs: d, reps: r, vals: v })
}

fn phys_from_bytes(t: PhysType, b: &[u8]) -> Option<Phys> {
    Some(match t {
        PhysType::BOOLEAN => Phys::Bool(*b.first()? != 0),
        PhysType::INT32 => Phys::I32(i32::from_le_bytes(b.try_into().ok()?)),
        PhysType::INT64 => Phys::I64(i64::from_le_bytes(b.try_into().ok()?)),
        PhysType::FLOAT => Phys::F32(f32::from_le_bytes(b.try_into().ok()?)),
        PhysType::DOUBLE => Phys::F64(f64::from_le_bytes(b.try_into().ok()?)),
        PhysType::BYTE_ARRAY | PhysType::FIXED_LEN_BYTE_ARRAY => Phys::Bytes(b.to_vec()),
        PhysType::INT96 => return None,
    })
}

fn nokey() -> Value {
    key::null()
}

fn opt_key(lt: &DataType, p: Option<Phys>) -> Value {
    p.and_then(|p| key_of(lt, &p)).unwrap_or_else(nokey)
}

/// min / max / exact flags / null count of a `Statistics` as event fields with the given prefix
fn put_stats(ev: &mut serde_json::Map<String, Value>, pre: &str, lt: &DataType, s: Option<&Statistics>) {
    let t = s.map(|s| s.physical_type());
    ev.insert(format!("{pre}min"), opt_key(lt, s.and_then(|s| s.min_bytes_opt()).and_then(|b| phys_from_bytes(t.unwrap(), b))));
    ev.insert(format!("{pre}max"), opt_key(lt, s.and_then(|s| s.max_bytes_opt()).and_then(|b| phys_from_bytes(t.unwrap(), b))));
    ev.insert(format!("{pre}minx"), json!(s.map(|s| s.min_is_exact()).unwrap_or(false)));
    ev.insert(format!("{pre}maxx"), json!(s.map(|s| s.max_is_exact()).unwrap_or(false)));
    ev.insert(format!("{pre}nulls"), json!(s.and_then(|s| s.null_count_opt()).map(|x| x as i64).unwrap_or(-1)));
}

/// column index entry `i` as (min, max) physical values
fn ci_entry(ci: &ColumnIndexMetaData, i: usize) -> (Option<Phys>, Option<Phys>) {
    macro_rules! prim {
        ($x:expr, $f:expr) => {
            ($x.min_value(i).map($f), $x.max_value(i).map($f))
        };
    }
    match ci {
        ColumnIndexMetaData::BOOLEAN(x) => prim!(x, |v| Phys::Bool(*v)),
        ColumnIndexMetaData::INT32(x) => prim!(x, |v| Phys::I32(*v)),
        ColumnIndexMetaData::INT64(x) => prim!(x, |v| Phys::I64(*v)),
        ColumnIndexMetaData::FLOAT(x) => prim!(x, |v| Phys::F32(*v)),
        ColumnIndexMetaData::DOUBLE(x) => prim!(x, |v| Phys::F64(*v)),
        ColumnIndexMetaData::BYTE_ARRAY(x) | ColumnIndexMetaData::FIXED_LEN_BYTE_ARRAY(x) => {
            (x.min_value(i).map(|b| Phys::Bytes(b.to_vec())), x.max_value(i).map(|b| Phys::Bytes(b.to_vec())))
        }
        ColumnIndexMetaData::INT96(_) => (None, None),
    }
}

/// one cell of an Arrow statistics array as a key (null = unknown)
fn arr_key(a: &ArrayRef, i: usize) -> Value {
    if i >= a.len() { nokey() } else { key::value(a.as_ref(), i, key::Unions::Lift) }
}
fn arr_u64(a: &UInt64Array, i: usize) -> i64 {
    if i >= a.len() || a.is_null(i) { -1 } else { a.value(i).min(i32::MAX as u64) as i64 }
}

pub struct Counters {
    pub files: usize,
    pub chunks: usize,
    pub pages: usize,
    pub skipped: usize,
    pub with_stats: usize,
    pub truncated: usize,
    pub bloom_probes: usize,
}

/// everything the file reports about leaf column `c` (of arrow top-level field `field`)
#[allow(clippy::too_many_arguments)]
pub fn describe_column(
    bytes: &Bytes,
    meta: &ParquetMetaData,
    arrow_schema: &Schema,
    field: &Field,
    c: usize,
    cfg: &str,
    stats_level: u8,
    tci: usize,
    tr: &mut Shards,
    cnt: &mut Counters,
) -> Result<(), String> {
    let descr = meta.file_metadata().schema_descr_ptr();
    let cd = descr.column(c);
    let lt = leaf_type(field.data_type());
    let top_level_flat = cd.max_rep_level() == 0 && cd.path().parts().len() == 1 && !matches!(field.data_type(), DataType::Dictionary(..));
    let rdr = SerializedFileReader::new_with_options(
        bytes.clone(),
        ReadOptionsBuilder::new().with_reader_properties(ReaderProperties::builder().set_read_bloom_filter(true).set_read_page_statistics(true).build()).build(),
    )
    .map_err(|e| e.to_string())?;
    let conv = if top_level_flat { StatisticsConverter::try_new(field.name(), arrow_schema, &descr).ok().map(|c| c.with_missing_null_counts_as_zero(false)) } else { None };
    // StatisticsConverter outputs for all row groups / all pages at once
    struct Conv {
        mins: ArrayRef,
        maxs: ArrayRef,
        minx: BooleanArray,
        maxx: BooleanArray,
        nulls: UInt64Array,
        rows: Option<UInt64Array>,
        distinct: UInt64Array,
        nan: UInt64Array,
    }
    struct PageConv {
        mins: ArrayRef,
        maxs: ArrayRef,
        nulls: UInt64Array,
        rows: Option<UInt64Array>,
    }
    let cv: Option<Conv> = match &conv {
        None => None,
        Some(cvt) => {
            let r = guarded(|| -> Result<Conv, String> {
                let e = |x: parquet::errors::ParquetError| x.to_string();
                Ok(Conv {
                    mins: cvt.row_group_mins(meta.row_groups()).map_err(e)?,
                    maxs: cvt.row_group_maxes(meta.row_groups()).map_err(e)?,
                    minx: cvt.row_group_is_min_value_exact(meta.row_groups()).map_err(e)?,
                    maxx: cvt.row_group_is_max_value_exact(meta.row_groups()).map_err(e)?,
                    nulls: cvt.row_group_null_counts(meta.row_groups()).map_err(e)?,
                    rows: cvt.row_group_row_counts(meta.row_groups()).map_err(e)?,
                    distinct: cvt.row_group_distinct_counts(meta.row_groups()).map_err(e)?,
                    nan: cvt.row_group_nan_counts(meta.row_groups()).map_err(e)?,
                })
            });
            match r {
                Ok(Ok(c)) => Some(c),
                Ok(Err(e)) => return Err(format!("StatisticsConverter: {e}")),
                Err(p) => return Err(format!("StatisticsConverter panic: {p}")),
            }
        }
    };
    for g in 0..meta.num_row_groups() {
        let rgm = meta.row_group(g);
        let ccm = rgm.column(c);
        let rg = rdr.get_row_group(g).map_err(|e| e.to_string())?;
        // pages in file order
        let mut pr = rg.get_column_page_reader(c).map_err(|e| e.to_string())?;
        let mut dict: Option<Page> = None;
        let mut data: Vec<Page> = vec![];
        while let Some(p) = pr.get_next_page().map_err(|e| e.to_string())? {
            match p {
                Page::DictionaryPage { .. } => dict = Some(p),
                other => data.push(other),
            }
        }
        let ci = meta.page_index().and_then(|pi| pi.column_index(g, c));
        let oi = meta.page_index().and_then(|pi| pi.offset_index(g, c));
        // the converter's page-level outputs of this row group alone
        let this_rg = [g];
        let pcv: Option<PageConv> = match (&conv, meta.page_index(), ci) {
            (Some(cvt), Some(pi), Some(cix)) if cix.num_pages() as usize == data.len() => {
                let r = guarded(|| -> Result<PageConv, String> {
                    let e = |x: parquet::errors::ParquetError| x.to_string();
                    Ok(PageConv {
                        mins: cvt.data_page_mins(pi, &this_rg).map_err(e)?,
                        maxs: cvt.data_page_maxes(pi, &this_rg).map_err(e)?,
                        nulls: cvt.data_page_null_counts(pi, &this_rg).map_err(e)?,
                        rows: if oi.is_some() { cvt.data_page_row_counts(pi, meta.row_groups(), &this_rg).map_err(e)? } else { None },
                    })
                });
                match r {
                    Ok(Ok(x)) => Some(x),
                    Ok(Err(e)) => return Err(format!("StatisticsConverter pages: {e}")),
                    Err(p) => return Err(format!("StatisticsConverter pages panic: {p}")),
                }
            }
            _ => None,
        };
        let has_cv_pages = pcv.is_some();
        let (ord, fw, utf8) = values::order_of(&lt);
        let badec = cd.physical_type() == PhysType::BYTE_ARRAY && matches!(lt, DataType::Decimal128(..) | DataType::Decimal256(..) | DataType::Decimal64(..) | DataType::Decimal32(..));
        tr.emit(json!({
            "op": "new", "ty": format!("{:?}", field.data_type()), "leaf": format!("{lt:?}"), "phys": format!("{}", cd.physical_type()),
            "sort_order": format!("{:?}", cd.sort_order()), "ord": ord, "fw": fw, "utf8": utf8, "stats": stats_level, "cfg": cfg, "rg": g, "col": c,
            "rep": cd.max_rep_level() > 0,
            "dictin": matches!(field.data_type(), DataType::Dictionary(..)),
            "tci": tci,
            "badec": badec,
        }));
        let mut chunk_lens: std::collections::BTreeSet<usize> = Default::default();
        let sbbf = rg.get_column_bloom_filter(c);
        let mut probes: Vec<bool> = vec![];
        for (i, p) in data.iter().enumerate() {
            let dec = decode_page(&cd, dict.as_ref(), p)?;
            // one key per level entry: the value, or null where the definition level is not maximal
            let mut vi = 0;
            let mut keys = vec![];
            for &dl in &dec.defs {
                if dl == cd.max_def_level() {
                    let pv = dec.vals.get(vi).ok_or("fewer values than maximal definition levels")?;
                    keys.push(key_of(&lt, pv).ok_or_else(|| format!("no key for {lt:?}"))?);
                    if let Some(b) = sbbf {
                        probes.push(pv.probe(b));
                    }
                    vi += 1;
                } else {
                    keys.push(nokey());
                }
            }
            // do the values of the page / of the chunk so far differ in encoded length (byte arrays)?
            let page_lens: std::collections::BTreeSet<usize> = dec.vals.iter().filter_map(|v| if let Phys::Bytes(b) = v { Some(b.len()) } else { None }).collect();
            chunk_lens.extend(page_lens.iter().copied());
            let rows = dec.reps.iter().filter(|x| **x == 0).count();
            let mut ev = serde_json::Map::new();
            ev.insert("op".into(), json!("page"));
            ev.insert("vals".into(), Value::Array(keys));
            ev.insert("rows".into(), json!(rows));
            ev.insert("mixedlen".into(), json!(page_lens.len() > 1));
            // BYTE_ARRAY decimals: the stored bytes of the non-null values, in page order
            let raw: Vec<Vec<u8>> = if badec { dec.vals.iter().filter_map(|v| if let Phys::Bytes(b) = v { Some(b.clone()) } else { None }).collect() } else { vec![] };
            ev.insert("raw".into(), json!(raw));
            // column index entry
            let ci_here = ci.filter(|x| (x.num_pages() as usize) == data.len());
            ev.insert("ci".into(), json!(ci_here.is_some()));
            let (mn, mx) = ci_here.map(|x| ci_entry(x, i)).unwrap_or((None, None));
            if mn.as_ref().is_some_and(|m| matches!(m, Phys::Bytes(b) if dec.vals.iter().all(|v| !matches!(v, Phys::Bytes(vb) if vb == b)))) {
                cnt.truncated += 1;
            }
            ev.insert("min".into(), opt_key(&lt, mn));
            ev.insert("max".into(), opt_key(&lt, mx));
            ev.insert("nullpage".into(), json!(ci_here.map(|x| x.is_null_page(i)).unwrap_or(false)));
            ev.insert("nulls".into(), json!(ci_here.and_then(|x| x.null_count(i)).unwrap_or(-1)));
            // page header statistics
            let hs = match p {
                Page::DataPage { statistics, .. } | Page::DataPageV2 { statistics, .. } => statistics.as_ref(),
                _ => None,
            };
            ev.insert("hs".into(), json!(hs.is_some()));
            put_stats(&mut ev, "h", &lt, hs);
            // offset index entry
            let loc = oi.and_then(|x| x.page_locations().get(i));
            ev.insert("first".into(), json!(loc.map(|x| x.first_row_index).unwrap_or(-1)));
            ev.insert("off".into(), json!(loc.map(|x| x.offset).unwrap_or(-1)));
            ev.insert("size".into(), json!(loc.map(|x| x.compressed_page_size as i64).unwrap_or(-1)));
            // StatisticsConverter page outputs
            ev.insert("cv".into(), json!(has_cv_pages));
            ev.insert("cvmin".into(), pcv.as_ref().map(|x| arr_key(&x.mins, i)).unwrap_or_else(nokey));
            ev.insert("cvmax".into(), pcv.as_ref().map(|x| arr_key(&x.maxs, i)).unwrap_or_else(nokey));
            ev.insert("cvnulls".into(), json!(pcv.as_ref().map(|x| arr_u64(&x.nulls, i)).unwrap_or(-1)));
            ev.insert("cvrows".into(), json!(pcv.as_ref().and_then(|x| x.rows.as_ref()).map(|a| arr_u64(a, i)).unwrap_or(-1)));
            tr.emit(Value::Object(ev));
            cnt.pages += 1;
        }
        // the column chunk
        let st = ccm.statistics();
        let mut ev = serde_json::Map::new();
        ev.insert("op".into(), json!("chunk"));
        ev.insert("rows".into(), json!(rgm.num_rows()));
        ev.insert("nv".into(), json!(ccm.num_values()));
        ev.insert("mixedlen".into(), json!(chunk_lens.len() > 1));
        ev.insert("has".into(), json!(st.is_some()));
        put_stats(&mut ev, "", &lt, st);
        ev.insert("distinct".into(), json!(st.and_then(|s| s.distinct_count_opt()).map(|x| x as i64).unwrap_or(-1)));
        ev.insert("nan".into(), json!(st.and_then(|s| s.nan_count_opt()).map(|x| x as i64).unwrap_or(-1)));
        ev.insert("order".into(), json!(ci.and_then(|x| x.get_boundary_order()).map(|o| format!("{o:?}")).unwrap_or_else(|| "NONE".into())));
        ev.insert("hasbloom".into(), json!(sbbf.is_some()));
        cnt.bloom_probes += probes.len();
        ev.insert("bloom".into(), json!(probes));
        let (start, clen) = ccm.byte_range();
        ev.insert("hasoi".into(), json!(oi.is_some_and(|x| x.page_locations().len() == data.len())));
        ev.insert("start".into(), json!(start));
        ev.insert("clen".into(), json!(clen));
        ev.insert("cv".into(), json!(cv.is_some()));
        match &cv {
            Some(x) => {
                ev.insert("cvmin".into(), arr_key(&x.mins, g));
                ev.insert("cvmax".into(), arr_key(&x.maxs, g));
                ev.insert("cvminx".into(), json!(g < x.minx.len() && !x.minx.is_null(g) && x.minx.value(g)));
                ev.insert("cvmaxx".into(), json!(g < x.maxx.len() && !x.maxx.is_null(g) && x.maxx.value(g)));
                ev.insert("cvnulls".into(), json!(arr_u64(&x.nulls, g)));
                ev.insert("cvrows".into(), json!(x.rows.as_ref().map(|a| arr_u64(a, g)).unwrap_or(-1)));
                ev.insert("cvdistinct".into(), json!(arr_u64(&x.distinct, g)));
                ev.insert("cvnan".into(), json!(arr_u64(&x.nan, g)));
            }
            None => {
                ev.insert("cvmin".into(), nokey());
                ev.insert("cvmax".into(), nokey());
                ev.insert("cvminx".into(), json!(false));
                ev.insert("cvmaxx".into(), json!(false));
                ev.insert("cvnulls".into(), json!(-1));
                ev.insert("cvrows".into(), json!(-1));
                ev.insert("cvdistinct".into(), json!(-1));
                ev.insert("cvnan".into(), json!(-1));
            }
        }
        tr.emit(Value::Object(ev));
        tr.next_episode();
        cnt.chunks += 1;
        if st.is_some_and(|s| s.min_bytes_opt().is_some()) {
            cnt.with_stats += 1;
        }
    }
    Ok(())
}

struct P {
    v2: bool,
    stats: u8,
    trunc_stats: Option<usize>,
    trunc_ci: Option<usize>,
    page_rows: usize,
    batch: usize,
    maxrg: Option<usize>,
    dict: bool,
    bloom: Option<(u64, f64)>,
    hdr: bool,
    ndv: bool,
    comp: bool,
    oi_off: bool,
}

impl P {
    fn random(rng: &mut Rng, n: usize) -> P {
        let tr = |rng: &mut Rng| *rng.pick(&[None, Some(1usize), Some(2), Some(3), Some(64), Some(64)]);
        P {
            v2: rng.chance(50),
            stats: *rng.pick(&[0u8, 1, 2, 2, 2]),
            trunc_stats: tr(rng),
            trunc_ci: tr(rng),
            page_rows: *rng.pick(&[1usize, 2, 3, 4, 5, 8]),
            batch: *rng.pick(&[1usize, 2, 3, 8, 1024]),
            maxrg: if rng.chance(50) { Some(1 + rng.below(n + 1)) } else { None },
            dict: rng.chance(50),
            bloom: if rng.chance(50) { Some((*rng.pick(&[1u64, 2, 8, 64, 100000]), *rng.pick(&[0.5f64, 0.1, 0.01, 0.0001]))) } else { None },
            hdr: rng.chance(50),
            ndv: rng.chance(35),
            comp: rng.chance(25),
            oi_off: rng.chance(10),
        }
    }
    fn build(&self) -> WriterProperties {
        let mut b = WriterProperties::builder()
            .set_writer_version(if self.v2 { WriterVersion::PARQUET_2_0 } else { WriterVersion::PARQUET_1_0 })
            .set_statistics_enabled(match self.stats {
                0 => EnabledStatistics::None,
                1 => EnabledStatistics::Chunk,
                _ => EnabledStatistics::Page,
            })
            .set_statistics_truncate_length(self.trunc_stats)
            .set_column_index_truncate_length(self.trunc_ci)
            .set_data_page_row_count_limit(self.page_rows)
            .set_write_batch_size(self.batch)
            .set_max_row_group_row_count(self.maxrg)
            .set_dictionary_enabled(self.dict)
            .set_write_page_header_statistics(self.hdr)
            .set_write_row_group_number_distinct_values(self.ndv)
            .set_offset_index_disabled(self.oi_off)
            .set_compression(if self.comp { Compression::SNAPPY } else { Compression::UNCOMPRESSED });
        if let Some((ndv, fpp)) = self.bloom {
            b = b.set_bloom_filter_enabled(true).set_bloom_filter_max_ndv(ndv).set_bloom_filter_fpp(fpp);
        }
        b.build()
    }
    fn describe(&self) -> String {
        format!(
            "v{} stats={} trunc={:?}/{:?} pagerows={} batch={} maxrg={:?} dict={} bloom={:?} hdr={} ndv={} snappy={} oi_off={}",
            if self.v2 { 2 } else { 1 }, self.stats, self.trunc_stats, self.trunc_ci, self.page_rows, self.batch, self.maxrg, self.dict,
            self.bloom, self.hdr, self.ndv, self.comp, self.oi_off
        )
    }
}

fn arrow_file(rng: &mut Rng, t: &DataType, max_rows: usize, tr: &mut Shards, cnt: &mut Counters) {
    let n = 1 + rng.below(max_rows);
    let p = P::random(rng, n);
    let nullable = rng.chance(75) || matches!(t, DataType::Dictionary(..));
    let a = values::column(rng, t, n, nullable);
    let cuts = [rng.below(n + 1), rng.below(n + 1)];
    write_and_describe(a, nullable, &p, cuts, tr, cnt);
}

/// directed inputs: shapes that random generation meets rarely
fn directed(rng: &mut Rng, tr: &mut Shards, cnt: &mut Counters) {
    use arrow_array::types::Int16Type;
    let base = |rng: &mut Rng| {
        let mut p = P::random(rng, 8);
        p.stats = 2;
        p.maxrg = None;
        p.oi_off = false;
        p
    };
    // a dictionary whose values repeat, distinct counts requested
    let dict_vals: ArrayRef = Arc::new(Int32Array::from(vec![7, 7, 9, 7]));
    let keys = Int16Array::from(vec![Some(0), Some(1), Some(2), None, Some(3), Some(1)]);
    let d: ArrayRef = Arc::new(DictionaryArray::<Int16Type>::new(keys, dict_vals));
    let mut p = base(rng);
    p.ndv = true;
    write_and_describe(d, true, &p, [0, 0], tr, cnt);
    // ascending strings whose UTF-8 aware truncation is not monotone, one value per page
    let strs: ArrayRef = Arc::new(StringArray::from(vec!["b", "bb", "b\u{e9}", "b\u{800}", "b\u{800}z", "c"]));
    for l in [1usize, 2, 3] {
        let mut p = base(rng);
        p.page_rows = 1;
        p.batch = 1;
        p.trunc_ci = Some(l);
        p.trunc_stats = Some(l);
        p.hdr = true;
        write_and_describe(strs.clone(), false, &p, [0, 0], tr, cnt);
    }
}

fn write_and_describe(a: ArrayRef, nullable: bool, p: &P, cuts: [usize; 2], tr: &mut Shards, cnt: &mut Counters) {
    let t = &a.data_type().clone();
    let n = a.len();
    let schema = Arc::new(Schema::new(vec![Field::new("c", t.clone(), nullable)]));
    // the rows go in as one to three batches
    let (c1, c2) = (cuts[0].min(cuts[1]), cuts[0].max(cuts[1]));
    let written = guarded(|| -> Result<Vec<u8>, String> {
        let mut buf = vec![];
        let mut w = ArrowWriter::try_new(&mut buf, schema.clone(), Some(p.build())).map_err(|e| e.to_string())?;
        for (lo, hi) in [(0, c1), (c1, c2), (c2, n)] {
            if hi > lo {
                let b = RecordBatch::try_new(schema.clone(), vec![a.slice(lo, hi - lo)]).map_err(|e| e.to_string())?;
                w.write(&b).map_err(|e| e.to_string())?;
            }
        }
        w.close().map_err(|e| e.to_string())?;
        Ok(buf)
    });
    let bytes = match written {
        Ok(Ok(b)) => Bytes::from(b),
        _ => {
            cnt.skipped += 1; // the writer refuses the type / panics: C05's business
            return;
        }
    };
    let meta = match ArrowReaderMetadata::load(&bytes, ArrowReaderOptions::new().with_page_index_policy(PageIndexPolicy::Optional)) {
        Ok(m) => m,
        Err(_) => {
            cnt.skipped += 1;
            return;
        }
    };
    cnt.files += 1;
    let nleaves = meta.metadata().file_metadata().schema_descr().num_columns();
    if nleaves != 1 {
        cnt.skipped += 1;
        return;
    }
    let cfg = p.describe();
    let r = guarded(|| describe_column(&bytes, meta.metadata(), meta.schema(), meta.schema().field(0), 0, &cfg, p.stats, p.trunc_ci.unwrap_or(0), tr, cnt));
    let failure = match r {
        Ok(Ok(())) => None,
        Ok(Err(e)) => Some(e),
        Err(pn) => Some(format!("panic: {pn}")),
    };
    if let Some(e) = failure {
        // reading the metadata / pages of a written file failed: the open episode is closed by an
        // event the specification cannot explain (an unknown op is an evaluation error = rejected)
        tr.emit(json!({"op": "broken", "note": e.chars().take(200).collect::<String>(), "ty": format!("{t:?}"), "cfg": cfg}));
        tr.next_episode();
    }
}

fn main() {
    let args = Args::parse();
    vcore::quiet_panics();
    if args.driver == "repro" {
        repro::run();
        return;
    }
    let mut rng = Rng::new(args.seed ^ 0xC07);
    let mut cnt = Counters { files: 0, chunks: 0, pages: 0, skipped: 0, with_stats: 0, truncated: 0, bloom_probes: 0 };
    let mut tr = Shards::create(&args.out, "stats", 14);
    let types = values::types();
    let max_rows = args.scale(24, 60);
    for round in 0..args.scale(8, 60) {
        for t in &types {
            arrow_file(&mut rng, t, if round == 0 { 6 } else { max_rows }, &mut tr, &mut cnt);
        }
    }
    for _ in 0..args.scale(2, 20) {
        directed(&mut rng, &mut tr, &mut cnt);
    }
    for _ in 0..args.scale(60, 1200) {
        lowlevel::byte_array_decimal_file(&mut rng, &mut tr, &mut cnt);
    }
    let n = tr.finish();
    println!(
        "DRIVER c07 events={} files={} chunks={} pages={} chunks_with_minmax={} truncated_page_bounds={} bloom_probes={} skipped={}",
        n, cnt.files, cnt.chunks, cnt.pages, cnt.with_stats, cnt.truncated, cnt.bloom_probes, cnt.skipped
    );
}
