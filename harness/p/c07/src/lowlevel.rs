//! DECIMAL columns stored as BYTE_ARRAY (values of unequal lengths): the Arrow writer never
//! produces them, so they are written with the low-level column writer.
use crate::{describe_column, Counters};
use bytes::Bytes;
use parquet::arrow::arrow_reader::{ArrowReaderMetadata, ArrowReaderOptions};
use parquet::data_type::{ByteArray, ByteArrayType};
use parquet::file::metadata::PageIndexPolicy;
use parquet::file::properties::{EnabledStatistics, WriterProperties, WriterVersion};
use parquet::file::writer::SerializedFileWriter;
use parquet::schema::parser::parse_message_type;
use std::sync::Arc;
use vcore::trace::Shards;
use vcore::{guarded, json, Rng};

/// big-endian two's complement of `v`, minimal length plus `pad` sign-extension bytes
fn be_bytes(v: i64, pad: usize) -> Vec<u8> {
    let full = v.to_be_bytes();
    let fill = if v < 0 { 0xFFu8 } else { 0 };
    let mut i = 0;
    while i < 7 && full[i] == fill && (full[i + 1] & 0x80 != 0) == (v < 0) {
        i += 1;
    }
    let mut out = vec![fill; pad];
    out.extend_from_slice(&full[i..]);
    out
}

pub fn byte_array_decimal_file(rng: &mut Rng, tr: &mut Shards, cnt: &mut Counters) {
    let n = 1 + rng.below(24);
    let stats = *rng.pick(&[1u8, 2, 2]);
    let page_rows = *rng.pick(&[1usize, 2, 3, 5]);
    let v2 = rng.chance(50);
    let dict = rng.chance(50);
    let bloom = rng.chance(50);
    let cfg = format!("lowlevel byte_array decimal v{} stats={stats} pagerows={page_rows} dict={dict} bloom={bloom}", if v2 { 2 } else { 1 });
    let mut vals: Vec<Option<i64>> = (0..n)
        .map(|_| {
            if rng.chance(20) {
                None
            } else {
                Some(*rng.pick(&[-70000i64, -65536, -32769, -32768, -300, -256, -255, -129, -128, -127, -2, -1, 0, 1, 2, 5, 5, 127, 128, 255, 256, 32767, 32768, 51201, 51201, 65535, 70000, 999_999_999_999]))
            }
        })
        .collect();
    match rng.below(4) {
        0 => vals.sort(),
        1 => {
            vals.sort();
            vals.reverse()
        }
        _ => {}
    }
    let written = guarded(|| -> Result<Vec<u8>, String> {
        let schema = Arc::new(parse_message_type("message m { optional binary d (DECIMAL(12,2)); }").map_err(|e| e.to_string())?);
        let mut b = WriterProperties::builder()
            .set_writer_version(if v2 { WriterVersion::PARQUET_2_0 } else { WriterVersion::PARQUET_1_0 })
            .set_statistics_enabled(if stats == 1 { EnabledStatistics::Chunk } else { EnabledStatistics::Page })
            .set_data_page_row_count_limit(page_rows)
            .set_write_batch_size(1)
            .set_dictionary_enabled(dict)
            .set_write_page_header_statistics(true);
        if bloom {
            b = b.set_bloom_filter_enabled(true).set_bloom_filter_max_ndv(8);
        }
        let mut out = vec![];
        let mut w = SerializedFileWriter::new(&mut out, schema, Arc::new(b.build())).map_err(|e| e.to_string())?;
        let mut rg = w.next_row_group().map_err(|e| e.to_string())?;
        let mut col = rg.next_column().map_err(|e| e.to_string())?.ok_or("no column")?;
        let defs: Vec<i16> = vals.iter().map(|v| v.is_some() as i16).collect();
        let data: Vec<ByteArray> = vals.iter().flatten().map(|v| ByteArray::from(be_bytes(*v, 0))).collect();
        // the same number gets different byte lengths now and then (sign extension)
        let data: Vec<ByteArray> = data.into_iter().enumerate().map(|(i, b)| if i % 3 == 1 { let v = vals.iter().flatten().nth(i).unwrap(); ByteArray::from(be_bytes(*v, 1 + i % 2)) } else { b }).collect();
        col.typed::<ByteArrayType>().write_batch(&data, Some(&defs), None).map_err(|e| e.to_string())?;
        col.close().map_err(|e| e.to_string())?;
        rg.close().map_err(|e| e.to_string())?;
        w.close().map_err(|e| e.to_string())?;
        Ok(out)
    });
    let bytes = match written {
        Ok(Ok(b)) => Bytes::from(b),
        _ => {
            cnt.skipped += 1;
            return;
        }
    };
    let meta = match ArrowReaderMetadata::load(&bytes, ArrowReaderOptions::new().with_page_index_policy(PageIndexPolicy::Optional)) {
        Ok(m) => m,
        Err(_) => {
            cnt.skipped += 1;
            return;
        }
    };
    cnt.files += 1;
    let r = guarded(|| describe_column(&bytes, meta.metadata(), meta.schema(), meta.schema().field(0), 0, &cfg, stats, 64, tr, cnt));
    let failure = match r {
        Ok(Ok(())) => None,
        Ok(Err(e)) => Some(e),
        Err(p) => Some(format!("panic: {p}")),
    };
    if let Some(e) = failure {
        tr.emit(json!({"op": "broken", "note": e.chars().take(200).collect::<String>(), "ty": "byte_array decimal", "cfg": cfg}));
        tr.next_episode();
    }
}
