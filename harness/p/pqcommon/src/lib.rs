//! Shared by the C06 and C15 drivers: writes small Parquet files in memory
//! with varied physical layouts, generates scan configurations, applies them
//! to any `ArrowReaderBuilder<T>` (sync, async, push) and projects files,
//! configurations and results into the JSON the TLA+ trace specifications
//! read.  Nothing here decides anything: the "filter a full read" side of the
//! property (predicate values on a plain full read, projection of the full
//! read) is *recorded* and combined by ParquetScan.tla.
use arrow_array::builder::{Int32Builder, ListBuilder};
use arrow_array::cast::AsArray;
use arrow_array::types::{Int32Type, Int64Type};
use arrow_array::*;
use arrow_buffer::{BooleanBuffer, NullBuffer};
use arrow_schema::{DataType, Field, Fields, Schema, SchemaRef};
use bytes::Bytes;
use parquet::arrow::arrow_reader::{
    ArrowPredicate, ArrowPredicateFn, ArrowReaderBuilder, ArrowReaderMetadata, ArrowReaderOptions,
    ParquetRecordBatchReaderBuilder, RowFilter, RowSelection, RowSelectionPolicy, RowSelector,
};
use parquet::arrow::{ArrowWriter, ProjectionMask};
use parquet::basic::Compression;
use parquet::file::metadata::{PageIndexPolicy, ParquetMetaData};
use parquet::file::properties::{EnabledStatistics, WriterProperties, WriterVersion};
use parquet::schema::types::{ColumnPath, SchemaDescriptor};
use std::sync::Arc;
use vcore::{json, tok, Rng, Value};

// ------------------------------------------------------------------ data

/// top-level columns: id, v, s, f, l, st{a,b}, b, d ; leaves: id v s f l.item st.a st.b b d
pub fn schema() -> SchemaRef {
    Arc::new(Schema::new(vec![
        Field::new("id", DataType::Int64, false),
        Field::new("v", DataType::Int32, true),
        Field::new("s", DataType::Utf8, true),
        Field::new("f", DataType::Float64, true),
        Field::new("l", DataType::List(Arc::new(Field::new("item", DataType::Int32, true))), true),
        Field::new("st", DataType::Struct(st_fields()), true),
        Field::new("b", DataType::Boolean, true),
        Field::new("d", DataType::Utf8, false),
    ]))
}

fn st_fields() -> Fields {
    Fields::from(vec![Field::new("a", DataType::Int32, true), Field::new("b", DataType::Utf8, true)])
}

/// rows lo..hi of the logical table (every column is a function of the id)
pub fn make_batch(lo: usize, hi: usize) -> RecordBatch {
    let ids: Vec<i64> = (lo as i64..hi as i64).collect();
    let id = Int64Array::from(ids.clone());
    let v = Int32Array::from(ids.iter().map(|i| if i % 11 == 5 { None } else { Some((*i * 3 + 1) as i32) }).collect::<Vec<_>>());
    let s = StringArray::from(
        ids.iter().map(|i| if i % 13 == 7 { None } else { Some(format!("s{:04}{}", i, "x".repeat((*i % 7) as usize * 3))) }).collect::<Vec<_>>(),
    );
    let f = Float64Array::from(ids.iter().map(|i| if i % 17 == 3 { None } else { Some(*i as f64 * 0.5) }).collect::<Vec<_>>());
    let mut lb = ListBuilder::new(Int32Builder::new());
    for i in &ids {
        if i % 9 == 4 {
            lb.append(false);
        } else {
            for j in 0..(i % 4) {
                if (i + j) % 10 == 9 { lb.values().append_null() } else { lb.values().append_value((i + j) as i32) }
            }
            lb.append(true);
        }
    }
    let l = lb.finish();
    let sta = Int32Array::from(ids.iter().map(|i| if i % 8 == 6 { None } else { Some(*i as i32) }).collect::<Vec<_>>());
    let stb = StringArray::from(ids.iter().map(|i| if i % 6 == 1 { None } else { Some(format!("b{i}")) }).collect::<Vec<_>>());
    let stn = NullBuffer::from(ids.iter().map(|i| i % 15 != 14).collect::<Vec<bool>>());
    let st = StructArray::new(st_fields(), vec![Arc::new(sta), Arc::new(stb)], Some(stn));
    let b = BooleanArray::from(ids.iter().map(|i| if i % 7 == 2 { None } else { Some(i % 3 == 0) }).collect::<Vec<_>>());
    let d = StringArray::from(ids.iter().map(|i| format!("k{}", i % 5)).collect::<Vec<_>>());
    RecordBatch::try_new(
        schema(),
        vec![Arc::new(id), Arc::new(v), Arc::new(s), Arc::new(f), Arc::new(l), Arc::new(st), Arc::new(b), Arc::new(d)],
    )
    .unwrap()
}

/// "Virtual columns" a projection is made of: the top-level columns and the two
/// single-leaf projections of the struct column.  (name, leaves)
pub const VCOLS: [(&str, &[usize]); 10] = [
    ("id", &[0]),
    ("v", &[1]),
    ("s", &[2]),
    ("f", &[3]),
    ("l", &[4]),
    ("st", &[5, 6]),
    ("st{a}", &[5]),
    ("st{b}", &[6]),
    ("b", &[7]),
    ("d", &[8]),
];
const TOP_OF_VCOL: [usize; 10] = [0, 1, 2, 3, 4, 5, 5, 5, 6, 7];

/// the column `vcol` of a batch with the full schema (in-memory projection)
pub fn extract(full: &RecordBatch, vcol: usize) -> ArrayRef {
    match vcol {
        6 | 7 => {
            let st = full.column(5).as_struct();
            let k = vcol - 6;
            let f = Fields::from(vec![st.fields()[k].clone()]);
            Arc::new(StructArray::new(f, vec![st.column(k).clone()], st.nulls().cloned()))
        }
        _ => full.column(TOP_OF_VCOL[vcol]).clone(),
    }
}

fn batch_of(full: &RecordBatch, vcols: &[usize]) -> RecordBatch {
    let cols: Vec<ArrayRef> = vcols.iter().map(|v| extract(full, *v)).collect();
    let fields: Vec<Field> = cols.iter().enumerate().map(|(i, c)| Field::new(format!("c{i}"), c.data_type().clone(), true)).collect();
    RecordBatch::try_new_with_options(Arc::new(Schema::new(fields)), cols, &RecordBatchOptions::new().with_row_count(Some(full.num_rows()))).unwrap()
}

pub fn leaves_of(vcols: &[usize]) -> Vec<usize> {
    let mut v: Vec<usize> = vcols.iter().flat_map(|c| VCOLS[*c].1.iter().copied()).collect();
    v.sort();
    v.dedup();
    v
}

// ------------------------------------------------------------------ files

#[derive(Clone, Debug)]
pub struct Layout {
    pub n: usize,
    pub rg_rows: usize,
    pub page_rows: usize,
    pub write_batch: usize,
    pub s_page_bytes: Option<usize>,
    pub offset_index: bool,
    pub v2: bool,
    pub dict: bool,
    pub stats: u8,
    pub compression: u8,
    /// sizes of the `write` calls; a `true` flushes the row group afterwards
    pub writes: Vec<(usize, bool)>,
}

pub struct TestFile {
    pub bytes: Bytes,
    pub layout: Layout,
    pub n: usize,
    /// plain, unrestricted read of the file (the reference side of the property)
    pub full: RecordBatch,
    /// metadata with the page index when the file has one
    pub meta: Arc<ParquetMetaData>,
    /// metadata loaded without the page index
    pub meta_plain: Arc<ParquetMetaData>,
    pub rg_rows: Vec<usize>,
    pub has_offset_index: bool,
}

pub fn random_layout(rng: &mut Rng, max_rows: usize) -> Layout {
    let n = match rng.below(30) {
        29 => 0,
        0 | 10 | 20 => 1 + rng.below(3),
        1 | 11 | 21 => max_rows,
        _ => 4 + rng.below(max_rows.saturating_sub(3).max(1)),
    };
    let rg_rows = *rng.pick(&[n.max(1), n.max(1), 64, 33, 20, 10, 7, 5, 3]);
    let page_rows = *rng.pick(&[1usize, 2, 3, 5, 8, 13, 20, 1000]);
    let write_batch = *rng.pick(&[1usize, 1, 2, 4, 7, 1024]);
    let mut writes = vec![];
    let mut left = n;
    while left > 0 {
        let k = match rng.below(4) {
            0 => left,
            1 => 1 + rng.below(left.min(5)),
            _ => 1 + rng.below(left),
        };
        writes.push((k, rng.chance(15)));
        left -= k;
    }
    Layout {
        n,
        rg_rows,
        page_rows,
        write_batch,
        s_page_bytes: if rng.chance(50) { Some(*rng.pick(&[1usize, 40, 100, 300])) } else { None },
        offset_index: !rng.chance(25),
        v2: rng.chance(40),
        dict: rng.chance(60),
        stats: rng.below(3) as u8,
        compression: rng.below(3) as u8,
        writes,
    }
}

pub fn build_file(layout: &Layout) -> TestFile {
    let mut p = WriterProperties::builder()
        .set_max_row_group_row_count(Some(layout.rg_rows.max(1)))
        .set_data_page_row_count_limit(layout.page_rows)
        .set_write_batch_size(layout.write_batch)
        .set_offset_index_disabled(!layout.offset_index)
        .set_writer_version(if layout.v2 { WriterVersion::PARQUET_2_0 } else { WriterVersion::PARQUET_1_0 })
        .set_dictionary_enabled(layout.dict)
        .set_statistics_enabled(match layout.stats {
            0 => EnabledStatistics::None,
            1 => EnabledStatistics::Chunk,
            _ => EnabledStatistics::Page,
        })
        .set_compression(match layout.compression {
            0 => Compression::UNCOMPRESSED,
            1 => Compression::SNAPPY,
            _ => Compression::LZ4_RAW,
        });
    if let Some(b) = layout.s_page_bytes {
        p = p.set_column_data_page_size_limit(ColumnPath::from("s"), b);
        p = p.set_column_data_page_size_limit(ColumnPath::from(vec!["l".to_string(), "list".to_string(), "item".to_string()]), b);
    }
    let mut buf: Vec<u8> = vec![];
    {
        let mut w = ArrowWriter::try_new(&mut buf, schema(), Some(p.build())).unwrap();
        let mut at = 0;
        for (k, flush) in &layout.writes {
            w.write(&make_batch(at, at + k)).unwrap();
            at += k;
            if *flush {
                w.flush().unwrap();
            }
        }
        assert_eq!(at, layout.n);
        w.close().unwrap();
    }
    let bytes = Bytes::from(buf);
    // the reference: a plain full read, no options
    let rdr = ParquetRecordBatchReaderBuilder::try_new(bytes.clone()).unwrap().with_batch_size(layout.n.max(1)).build().unwrap();
    let batches: Vec<RecordBatch> = rdr.map(|b| b.unwrap()).collect();
    let full = if batches.is_empty() { RecordBatch::new_empty(schema()) } else { concat(&batches) };
    assert_eq!(full.num_rows(), layout.n, "full read row count");
    // harness sanity: rows are identified by their id
    let ids = full.column(0).as_primitive::<Int64Type>();
    for i in 0..layout.n {
        assert_eq!(ids.value(i), i as i64, "id column of the full read");
    }
    let meta = ArrowReaderMetadata::load(&bytes, ArrowReaderOptions::new().with_page_index_policy(PageIndexPolicy::Optional)).unwrap();
    let meta = meta.metadata().clone();
    let meta_plain = ArrowReaderMetadata::load(&bytes, ArrowReaderOptions::new()).unwrap().metadata().clone();
    let rg_rows: Vec<usize> = meta.row_groups().iter().map(|r| r.num_rows() as usize).collect();
    let has_offset_index = meta.page_index().is_some_and(|pi| pi.page_locations(0, 0).is_some());
    TestFile { bytes, layout: layout.clone(), n: layout.n, full, meta, meta_plain, rg_rows, has_offset_index }
}

fn concat(batches: &[RecordBatch]) -> RecordBatch {
    arrow_select::concat::concat_batches(&batches[0].schema(), batches).unwrap()
}

impl TestFile {
    pub fn schema_descr(&self) -> &SchemaDescriptor {
        self.meta.file_metadata().schema_descr()
    }
    pub fn file_len(&self) -> u64 {
        self.bytes.len() as u64
    }
    /// first row index of every page of leaf `leaf` in row group `rg` (when there is an offset index)
    pub fn page_firsts(&self, rg: usize, leaf: usize) -> Option<Vec<i64>> {
        let pl = self.meta.page_index()?.page_locations(rg, leaf)?;
        Some(pl.iter().map(|p| p.first_row_index).collect())
    }
    /// byte range of the column chunk (rg, leaf)
    pub fn chunk_range(&self, rg: usize, leaf: usize) -> (u64, u64) {
        let (s, l) = self.meta.row_group(rg).column(leaf).byte_range();
        (s, s + l)
    }
    pub fn describe(&self) -> String {
        let l = &self.layout;
        format!(
            "n={} rg={:?} page_rows={} wb={} sbytes={:?} oi={} v2={} dict={} stats={} comp={}",
            l.n, self.rg_rows, l.page_rows, l.write_batch, l.s_page_bytes, self.has_offset_index, l.v2, l.dict, l.stats, l.compression
        )
    }
}

// ------------------------------------------------------------- predicates

#[derive(Clone, Debug)]
pub struct PredSpec {
    pub kind: u8,
    pub p1: i64,
    pub p2: i64,
}

pub const PRED_KINDS: u8 = 13;

impl PredSpec {
    /// virtual columns the predicate reads (in file order)
    pub fn vcols(&self) -> Vec<usize> {
        match self.kind {
            0 | 1 | 8 | 9 | 12 => vec![0],
            2 => vec![1],
            3 => vec![2],
            4 => vec![3],
            5 => vec![4],
            6 => vec![6],
            7 => vec![0, 1],
            10 => vec![8],
            _ => vec![9],
        }
    }
    pub fn name(&self) -> String {
        let n = ["id%k==r", "lo<=id<hi", "v>t", "s<t", "f is null", "len(l)>=k", "st.a even", "id even & v valid", "true", "false", "b", "d==k", "null"];
        format!("{}({},{})", n[self.kind as usize], self.p1, self.p2)
    }
}

/// The predicate function: a pure, row-wise function of the batch it is given
/// (the columns of `spec.vcols()` in file order).  Used both inside the
/// reader (ArrowPredicateFn) and on the full read (the reference side).
pub fn eval_pred(spec: &PredSpec, batch: &RecordBatch) -> BooleanArray {
    let n = batch.num_rows();
    let out: Vec<Option<bool>> = match spec.kind {
        0 => {
            let id = batch.column(0).as_primitive::<Int64Type>();
            (0..n).map(|i| Some(id.value(i) % spec.p1 == spec.p2)).collect()
        }
        1 => {
            let id = batch.column(0).as_primitive::<Int64Type>();
            (0..n).map(|i| Some(spec.p1 <= id.value(i) && id.value(i) < spec.p2)).collect()
        }
        2 => {
            let v = batch.column(0).as_primitive::<Int32Type>();
            (0..n).map(|i| if v.is_null(i) { None } else { Some(v.value(i) as i64 > spec.p1) }).collect()
        }
        3 => {
            let s = batch.column(0).as_string::<i32>();
            let t = format!("s{:04}", spec.p1);
            (0..n).map(|i| if s.is_null(i) { None } else { Some(s.value(i) < t.as_str()) }).collect()
        }
        4 => {
            let f = batch.column(0);
            (0..n).map(|i| Some(f.is_null(i))).collect()
        }
        5 => {
            let l = batch.column(0).as_list::<i32>();
            (0..n).map(|i| if l.is_null(i) { None } else { Some(l.value(i).len() as i64 >= spec.p1) }).collect()
        }
        6 => {
            let st = batch.column(0).as_struct();
            let a = st.column(0).as_primitive::<Int32Type>();
            (0..n).map(|i| if st.is_null(i) || a.is_null(i) { None } else { Some(a.value(i) % 2 == 0) }).collect()
        }
        7 => {
            let id = batch.column(0).as_primitive::<Int64Type>();
            let v = batch.column(1);
            (0..n).map(|i| Some(id.value(i) % 2 == 0 && v.is_valid(i))).collect()
        }
        8 => vec![Some(true); n],
        9 => vec![Some(false); n],
        10 => {
            let b = batch.column(0).as_boolean();
            (0..n).map(|i| if b.is_null(i) { None } else { Some(b.value(i)) }).collect()
        }
        11 => {
            let d = batch.column(0).as_string::<i32>();
            let t = format!("k{}", spec.p1);
            (0..n).map(|i| Some(d.value(i) == t.as_str())).collect()
        }
        _ => vec![None; n],
    };
    BooleanArray::from(out)
}

pub fn random_pred(rng: &mut Rng, n: usize) -> PredSpec {
    // constant-false / all-null predicates are rare: they empty the result
    let kind = match rng.below(40) {
        0 => 9,
        1 => 12,
        x => (x % 12) as u8,
    };
    let kind = if kind == 9 && rng.chance(80) { 0 } else { kind };
    let n = n.max(1) as i64;
    let (p1, p2) = match kind {
        0 => {
            let k = 1 + rng.below(7) as i64;
            (k, rng.below(k as usize) as i64)
        }
        1 => {
            let lo = rng.range(0, n / 2);
            (lo, lo + rng.range(n / 4, n))
        }
        2 => (rng.range(0, 2 * n), 0),
        3 => (rng.range(n / 3, n + 1), 0),
        5 => (rng.range(0, 3), 0),
        11 => (rng.range(0, 5), 0),
        _ => (0, 0),
    };
    PredSpec { kind, p1, p2 }
}

// ---------------------------------------------------------- configuration

#[derive(Clone, Debug)]
pub enum SelSpec {
    /// raw selectors given to `RowSelection::from(Vec<RowSelector>)`: (rows, skip)
    Runs(Vec<(usize, bool)>),
    /// `RowSelection::from_boolean_buffer`
    Mask(Vec<bool>),
    /// `RowSelection::from_filters`
    Filters(Vec<Vec<bool>>),
}

#[derive(Clone, Debug)]
pub struct ScanCfg {
    pub proj: Vec<usize>,
    /// how the projection mask is built: 0 leaves, 1 roots, 2 columns(names), 3 all()
    pub proj_style: u8,
    pub rgs: Option<Vec<usize>>,
    pub sel: Option<SelSpec>,
    pub preds: Vec<PredSpec>,
    pub offset: Option<usize>,
    pub limit: Option<usize>,
    pub bs: usize,
    /// None = not set; Some(0) Selectors, Some(1) Mask, Some(t >= 2) Auto{threshold: t - 2}
    pub policy: Option<usize>,
    pub page_index: bool,
    /// with_max_predicate_cache_size (async / push front-ends only)
    pub cache: Option<usize>,
}

impl ScanCfg {
    pub fn chosen(&self, f: &TestFile) -> Vec<usize> {
        self.rgs.clone().unwrap_or_else(|| (0..f.rg_rows.len()).collect())
    }
    pub fn chosen_rows(&self, f: &TestFile) -> usize {
        self.chosen(f).iter().map(|g| f.rg_rows[*g]).sum()
    }
}

fn random_bits(rng: &mut Rng, n: usize, f: &TestFile) -> Vec<bool> {
    let style = match rng.below(20) {
        0 => 1,
        1 => 2,
        x => 3 + x % 6,
    };
    let style = if style == 3 && rng.chance(50) { 0 } else { style };
    let mut run = rng.chance(50);
    let page = f.layout.page_rows.max(1);
    (0..n)
        .map(|i| match style {
            0 => true,
            1 => false,
            2 => rng.chance(5),
            3 => rng.chance(95),
            4 => {
                if rng.chance(12) { run = !run }
                run
            }
            5 => i % 2 == 0,
            6 => (i / page) % 2 == 0, // page aligned
            7 => {
                if rng.chance(3) { run = !run }
                run
            }
            _ => rng.chance(50),
        })
        .collect()
}

fn bits_to_runs(rng: &mut Rng, bits: &[bool]) -> Vec<(usize, bool)> {
    // run length encode, then roughen: split runs, insert empty runs
    let mut runs: Vec<(usize, bool)> = vec![];
    for b in bits {
        match runs.last_mut() {
            Some(l) if l.1 == !*b => l.0 += 1,
            _ => runs.push((1, !*b)),
        }
    }
    let mut out = vec![];
    for (n, skip) in runs {
        if rng.chance(15) {
            out.push((0, rng.chance(50)));
        }
        if n > 1 && rng.chance(25) {
            let k = 1 + rng.below(n - 1);
            out.push((k, skip));
            if rng.chance(30) {
                out.push((0, !skip));
            }
            out.push((n - k, skip));
        } else {
            out.push((n, skip));
        }
    }
    if rng.chance(15) {
        out.push((0, rng.chance(50)));
    }
    out
}

pub fn random_sel(rng: &mut Rng, rows: usize, f: &TestFile) -> SelSpec {
    let bits = random_bits(rng, rows, f);
    match rng.below(5) {
        0 => SelSpec::Mask(bits),
        1 => {
            let mut parts = vec![];
            let mut at = 0;
            while at < bits.len() {
                let k = 1 + rng.below(bits.len() - at);
                parts.push(bits[at..at + k].to_vec());
                at += k;
            }
            if rng.chance(20) {
                parts.push(vec![]);
            }
            SelSpec::Filters(parts)
        }
        _ => SelSpec::Runs(bits_to_runs(rng, &bits)),
    }
}

pub fn random_cfg(rng: &mut Rng, f: &TestFile) -> ScanCfg {
    let nrg = f.rg_rows.len();
    // projection
    let mut proj: Vec<usize> = vec![];
    let proj_style;
    if rng.chance(10) {
        proj = vec![0, 1, 2, 3, 4, 5, 8, 9];
        proj_style = 3;
    } else {
        for c in [0usize, 1, 2, 3, 4, 8, 9] {
            if rng.chance(if c == 0 { 70 } else { 35 }) {
                proj.push(c);
            }
        }
        match rng.below(6) {
            0 | 1 => proj.push(5),
            2 => proj.push(6),
            3 => proj.push(7),
            _ => {}
        }
        proj.sort();
        let plain = proj.iter().all(|c| *c != 6 && *c != 7);
        proj_style = if plain { rng.below(3) as u8 } else { 0 };
    }
    // row groups
    let rgs = if nrg == 0 || rng.chance(45) {
        None
    } else {
        let mut v: Vec<usize> = (0..nrg).filter(|_| rng.chance(60)).collect();
        if rng.chance(25) {
            for i in (1..v.len()).rev() {
                v.swap(i, rng.below(i + 1));
            }
        }
        Some(v)
    };
    let mut cfg = ScanCfg { proj, proj_style, rgs, sel: None, preds: vec![], offset: None, limit: None, bs: 1, policy: None, page_index: false, cache: None };
    let rows = cfg.chosen_rows(f);
    if rng.chance(65) {
        cfg.sel = Some(random_sel(rng, rows, f));
    }
    let np = *rng.pick(&[0usize, 0, 1, 1, 1, 2, 2, 3]);
    for _ in 0..np {
        cfg.preds.push(random_pred(rng, f.n));
    }
    if rng.chance(45) {
        cfg.offset = Some(match rng.below(10) {
            0 => 0,
            1 => rows + rng.below(3),
            2 | 3 => rng.below(rows + 1),
            _ => rng.below(rows / 6 + 2),
        });
    }
    if rng.chance(45) {
        cfg.limit = Some(match rng.below(12) {
            0 => 0,
            1 => rows + rng.below(3),
            2 => 1,
            3 | 4 | 5 => 1 + rng.below(rows / 4 + 2),
            _ => 1 + rng.below(rows + 1),
        });
    }
    cfg.bs = match rng.below(8) {
        0 => 1,
        1 => 2,
        2 => 3,
        3 => f.layout.page_rows.max(1),
        4 => f.n + rng.below(5),
        5 => 1024,
        _ => 1 + rng.below(f.n.max(1)),
    };
    cfg.policy = match rng.below(6) {
        0 => None,
        1 | 2 => Some(0),
        3 | 4 => Some(1),
        _ => Some(2 + *rng.pick(&[0usize, 1, 3, 32, 1000])),
    };
    cfg.page_index = f.has_offset_index && rng.chance(65);
    cfg.cache = match rng.below(6) {
        0 => Some(0),
        1 => Some(*rng.pick(&[64usize, 400, 3000])),
        _ => None,
    };
    cfg
}

/// metadata as the configuration wants it (with or without the page index)
pub fn metadata_for(f: &TestFile, cfg: &ScanCfg) -> Arc<ParquetMetaData> {
    if cfg.page_index { f.meta.clone() } else { f.meta_plain.clone() }
}

/// column chunk byte ranges requests of the async / push front-ends may fall in
pub fn allowed_ranges(f: &TestFile, cfg: &ScanCfg) -> Value {
    let mut vc = cfg.proj.clone();
    for p in &cfg.preds {
        vc.extend(p.vcols());
    }
    let leaves = leaves_of(&vc);
    let mut out = vec![];
    for g in cfg.chosen(f) {
        for l in &leaves {
            let (s, e) = f.chunk_range(g, *l);
            out.push(json!([s, e]));
        }
    }
    Value::Array(out)
}

pub fn projection_mask(f: &TestFile, vcols: &[usize], style: u8) -> ProjectionMask {
    let sd = f.schema_descr();
    match style {
        3 => ProjectionMask::all(),
        1 => ProjectionMask::roots(sd, vcols.iter().map(|c| TOP_OF_VCOL[*c])),
        2 => ProjectionMask::columns(sd, vcols.iter().map(|c| VCOLS[*c].0)),
        _ => ProjectionMask::leaves(sd, leaves_of(vcols)),
    }
}

pub fn selection_of(s: &SelSpec) -> RowSelection {
    match s {
        SelSpec::Runs(r) => RowSelection::from(r.iter().map(|(n, skip)| if *skip { RowSelector::skip(*n) } else { RowSelector::select(*n) }).collect::<Vec<_>>()),
        SelSpec::Mask(b) => RowSelection::from_boolean_buffer(BooleanBuffer::from(b.clone())),
        SelSpec::Filters(parts) => RowSelection::from_filters(&parts.iter().map(|p| BooleanArray::from(p.clone())).collect::<Vec<_>>()),
    }
}

pub fn policy_of(p: usize) -> RowSelectionPolicy {
    match p {
        0 => RowSelectionPolicy::Selectors,
        1 => RowSelectionPolicy::Mask,
        t => RowSelectionPolicy::Auto { threshold: t - 2 },
    }
}

pub fn reader_options(cfg: &ScanCfg) -> ArrowReaderOptions {
    if cfg.page_index { ArrowReaderOptions::new().with_page_index_policy(PageIndexPolicy::Required) } else { ArrowReaderOptions::new() }
}

pub fn row_filter(f: &TestFile, preds: &[PredSpec]) -> RowFilter {
    let ps: Vec<Box<dyn ArrowPredicate>> = preds
        .iter()
        .map(|p| {
            let spec = p.clone();
            let mask = projection_mask(f, &p.vcols(), 0);
            Box::new(ArrowPredicateFn::new(mask, move |b: RecordBatch| Ok(eval_pred(&spec, &b)))) as Box<dyn ArrowPredicate>
        })
        .collect();
    RowFilter::new(ps)
}

/// apply the configuration to any reader builder (sync, async, push)
pub fn apply<T>(mut b: ArrowReaderBuilder<T>, f: &TestFile, cfg: &ScanCfg) -> ArrowReaderBuilder<T> {
    b = b.with_projection(projection_mask(f, &cfg.proj, cfg.proj_style));
    if let Some(r) = &cfg.rgs {
        b = b.with_row_groups(r.clone());
    }
    if let Some(s) = &cfg.sel {
        b = b.with_row_selection(selection_of(s));
    }
    if !cfg.preds.is_empty() {
        b = b.with_row_filter(row_filter(f, &cfg.preds));
    }
    if let Some(o) = cfg.offset {
        b = b.with_offset(o);
    }
    if let Some(l) = cfg.limit {
        b = b.with_limit(l);
    }
    if let Some(p) = cfg.policy {
        b = b.with_row_selection_policy(policy_of(p));
    }
    if let Some(c) = cfg.cache {
        b = b.with_max_predicate_cache_size(c);
    }
    b.with_batch_size(cfg.bs)
}


// ------------------------------------------------- whole-page skip coverage

/// A layout with small data pages (2..4 rows, exact: write batch 1), an offset
/// index and several row groups: selections can skip whole pages.
pub fn gap_layout(rng: &mut Rng, max_rows: usize) -> Layout {
    let n = 24 + rng.below(max_rows.saturating_sub(23).max(1));
    let mut l = random_layout(rng, max_rows);
    l.n = n;
    l.rg_rows = *rng.pick(&[n, 40, 24, 17, 11]);
    l.page_rows = 2 + rng.below(3);
    l.write_batch = 1;
    l.s_page_bytes = if rng.chance(25) { Some(40) } else { None };
    l.offset_index = true;
    l.writes = vec![(n, false)];
    l
}

pub fn sel_bits(s: &SelSpec) -> Vec<bool> {
    match s {
        SelSpec::Runs(r) => r.iter().flat_map(|(n, skip)| std::iter::repeat(!*skip).take(*n)).collect(),
        SelSpec::Mask(b) => b.clone(),
        SelSpec::Filters(p) => p.concat(),
    }
}

/// A selection over the rows of all row groups built page by page (pages of the
/// id column): pages fully selected, partly selected (head, tail, alternate
/// rows) and runs of 1..3 wholly skipped pages, so that skipped runs cover
/// exactly one page, several pages, and a page plus part of its neighbours.
pub fn gap_selection(rng: &mut Rng, f: &TestFile) -> SelSpec {
    let mut bits: Vec<bool> = vec![];
    for (g, rows) in f.rg_rows.iter().enumerate() {
        let firsts: Vec<usize> = f.page_firsts(g, 0).map(|v| v.iter().map(|x| *x as usize).collect()).unwrap_or_else(|| vec![0]);
        let mut skip_left = 0usize;
        for (pi, st) in firsts.iter().enumerate() {
            let en = firsts.get(pi + 1).copied().unwrap_or(*rows);
            let len = en - st;
            if skip_left > 0 {
                skip_left -= 1;
                bits.extend(std::iter::repeat(false).take(len));
                continue;
            }
            match rng.below(10) {
                0 | 1 | 2 => {
                    // a run of whole pages is skipped (this one and skip_left more)
                    skip_left = *rng.pick(&[0usize, 0, 1, 2]);
                    bits.extend(std::iter::repeat(false).take(len));
                }
                3 | 4 | 5 => bits.extend(std::iter::repeat(true).take(len)),
                6 => {
                    // head selected: the skip after it is a page and a part
                    let k = 1 + rng.below(len.max(2) - 1);
                    bits.extend((0..len).map(|i| i < k));
                }
                7 => {
                    let k = 1 + rng.below(len.max(2) - 1);
                    bits.extend((0..len).map(|i| i >= k));
                }
                8 => bits.extend((0..len).map(|i| i % 2 == 0)),
                _ => bits.extend((0..len).map(|_| rng.chance(50))),
            }
        }
    }
    match rng.below(4) {
        0 => SelSpec::Mask(bits),
        1 => SelSpec::Filters(vec![bits]),
        _ => SelSpec::Runs(bits_to_runs(rng, &bits)),
    }
}

/// every selection policy x every batch size 1..5 on page-gap selections, page index on
pub fn gap_cfgs(rng: &mut Rng, f: &TestFile) -> Vec<ScanCfg> {
    let mut out = vec![];
    // Selectors, Mask, Auto resolving to Mask, Auto with the default threshold, policy not set
    for policy in [Some(0usize), Some(1), Some(2 + 1000), Some(2 + 32), None] {
        for bs in 1..=5usize {
            let mut proj: Vec<usize> = [0usize, 1, 3, 5, 8].into_iter().filter(|_| rng.chance(45)).collect();
            if proj.is_empty() {
                proj.push(*rng.pick(&[0usize, 1, 3, 8]));
            }
            if rng.chance(20) {
                proj.push(*rng.pick(&[2usize, 4, 9]));
                proj.sort();
            }
            let mut c = ScanCfg {
                proj,
                proj_style: 0,
                rgs: None,
                sel: Some(gap_selection(rng, f)),
                preds: vec![],
                offset: None,
                limit: None,
                bs,
                policy,
                page_index: f.has_offset_index,
                cache: None,
            };
            if rng.chance(25) {
                c.preds.push(random_pred(rng, f.n));
            }
            if rng.chance(15) {
                c.offset = Some(rng.below(6));
            }
            if rng.chance(15) {
                c.limit = Some(3 + rng.below(f.n));
            }
            out.push(c);
        }
    }
    out
}

/// number of data pages of projected leaves that the row selection skips
/// entirely, in row groups where it selects something (informational)
pub fn whole_page_skips(f: &TestFile, cfg: &ScanCfg) -> usize {
    let Some(sel) = &cfg.sel else { return 0 };
    let bits = sel_bits(sel);
    let mut at = 0usize;
    let mut n = 0usize;
    for g in cfg.chosen(f) {
        let rows = f.rg_rows[g];
        let part: Vec<bool> = (at..at + rows).map(|i| bits.get(i).copied().unwrap_or(false)).collect();
        at += rows;
        if !part.iter().any(|b| *b) {
            continue;
        }
        for leaf in leaves_of(&cfg.proj) {
            let Some(firsts) = f.page_firsts(g, leaf) else { continue };
            for (pi, st) in firsts.iter().enumerate() {
                let en = firsts.get(pi + 1).map(|x| *x as usize).unwrap_or(rows);
                if !part[*st as usize..en].iter().any(|b| *b) {
                    n += 1;
                }
            }
        }
    }
    n
}

/// the configuration exercises mask execution over sparse pages: page index
/// loaded, Mask (or Auto / default) policy, at least one wholly skipped page
pub fn is_mask_gap(f: &TestFile, cfg: &ScanCfg) -> bool {
    cfg.page_index && cfg.policy != Some(0) && whole_page_skips(f, cfg) > 0
}

// ------------------------------------------------------------- projection

fn bits_json(b: &[bool]) -> Value {
    Value::Array(b.iter().map(|x| json!(*x as u8)).collect())
}

pub fn sel_json(s: &Option<SelSpec>) -> Value {
    match s {
        None => json!({"k":"none","runs":[],"bits":[]}),
        Some(SelSpec::Runs(r)) => json!({"k":"runs","runs":r.iter().map(|(n, s)| json!([n, *s as u8])).collect::<Vec<_>>(),"bits":[]}),
        Some(SelSpec::Mask(b)) => json!({"k":"mask","runs":[],"bits":bits_json(b)}),
        Some(SelSpec::Filters(p)) => json!({"k":"filters","runs":[],"bits":bits_json(&p.concat())}),
    }
}

/// value of the predicate function on the plain full read: 0 false, 1 true, 2 null
pub fn pred_on_full_read(f: &TestFile, p: &PredSpec) -> Value {
    let b = batch_of(&f.full, &p.vcols());
    let r = eval_pred(p, &b);
    Value::Array((0..r.len()).map(|i| json!(if r.is_null(i) { 2 } else if r.value(i) { 1 } else { 0 })).collect())
}

/// tokens of the full read projected to `vcols`: one token sequence per column
pub fn ref_tokens(f: &TestFile, vcols: &[usize]) -> Value {
    Value::Array(vcols.iter().map(|c| tok::strs(&tok::rows(extract(&f.full, *c).as_ref()))).collect())
}

/// the fields of a scan configuration the specification reads (+ informational ones)
pub fn cfg_fields(f: &TestFile, cfg: &ScanCfg, m: &mut serde_json::Map<String, Value>) {
    m.insert("rgrows".into(), json!(f.rg_rows));
    m.insert("rgs".into(), json!(cfg.chosen(f)));
    m.insert("hasSel".into(), json!(cfg.sel.is_some()));
    m.insert("sel".into(), sel_json(&cfg.sel));
    m.insert("preds".into(), Value::Array(cfg.preds.iter().map(|p| pred_on_full_read(f, p)).collect()));
    m.insert("offset".into(), json!(cfg.offset.map(|x| x as i64).unwrap_or(-1)));
    m.insert("limit".into(), json!(cfg.limit.map(|x| x as i64).unwrap_or(-1)));
    m.insert("bs".into(), json!(cfg.bs));
    m.insert("ref".into(), ref_tokens(f, &cfg.proj));
    // informational
    m.insert("proj".into(), json!(cfg.proj.iter().map(|c| VCOLS[*c].0).collect::<Vec<_>>().join(",")));
    m.insert("prednames".into(), json!(cfg.preds.iter().map(|p| p.name()).collect::<Vec<_>>().join(";")));
    m.insert("policy".into(), json!(cfg.policy.map(|x| x as i64).unwrap_or(-1)));
    m.insert("rgdefault".into(), json!(cfg.rgs.is_none()));
    m.insert("pidx".into(), json!(cfg.page_index));
    m.insert("cache".into(), json!(cfg.cache.map(|x| x as i64).unwrap_or(-1)));
    m.insert("file".into(), json!(f.describe()));
    m.insert("pgskip".into(), json!(whole_page_skips(f, cfg)));
}

/// accumulates the batches a front-end returns
#[derive(Default)]
pub struct Collected {
    pub toks: Vec<Vec<String>>,
    pub blens: Vec<usize>,
}

impl Collected {
    pub fn new(ncols: usize) -> Collected {
        Collected { toks: vec![vec![]; ncols], blens: vec![] }
    }
    pub fn add(&mut self, b: &RecordBatch) -> Result<(), String> {
        if b.num_columns() != self.toks.len() {
            return Err(format!("batch has {} columns, projection has {}", b.num_columns(), self.toks.len()));
        }
        for (c, col) in b.columns().iter().enumerate() {
            self.toks[c].extend(tok::rows(col.as_ref()));
        }
        self.blens.push(b.num_rows());
        Ok(())
    }
    pub fn toks_json(&self) -> Value {
        Value::Array(self.toks.iter().map(|c| tok::strs(c)).collect())
    }
}

pub fn batch_tokens(b: &RecordBatch) -> Value {
    Value::Array(b.columns().iter().map(|c| tok::strs(&tok::rows(c.as_ref()))).collect())
}
