//! C15 driver.  For the same file and the same reader options, runs the
//! synchronous reader, the real ParquetPushDecoder under adversarial delivery
//! schedules (try_decode and try_next_reader styles, into_builder rebuilds) and
//! the async ParquetRecordBatchStream (stream and next_row_group styles) over an
//! AsyncFileReader whose futures return Pending at will, and records what each
//! front-end requested, was given and produced.  Trace_PushDecoder.tla decides.
use bytes::Bytes;
use futures::future::BoxFuture;
use futures::{FutureExt, StreamExt};
use parquet::arrow::arrow_reader::{ArrowReaderMetadata, ArrowReaderOptions, ParquetRecordBatchReader, ParquetRecordBatchReaderBuilder};
use parquet::arrow::async_reader::{AsyncFileReader, ParquetRecordBatchStreamBuilder};
use parquet::arrow::push_decoder::{ParquetPushDecoder, ParquetPushDecoderBuilder};
use parquet::errors::{ParquetError, Result as PqResult};
use parquet::file::metadata::{PageIndexPolicy, ParquetMetaData, ParquetMetaDataPushDecoder, ParquetMetaDataReader};
use parquet::DecodeResult;
use pqcommon::*;
use std::collections::VecDeque;
use std::future::Future;
use std::ops::Range;
use std::pin::Pin;
use std::sync::{Arc, Mutex};
use std::task::{Context, Poll};
use vcore::trace::Shards;
use vcore::{guarded, json, Args, Rng, Value};

fn ranges_json(r: &[Range<u64>]) -> Value {
    Value::Array(r.iter().map(|x| json!([x.start, x.end])).collect())
}

fn new_event(f: &TestFile, cfg: &ScanCfg, front: &str, extra: Value) -> Value {
    let mut m = serde_json::Map::new();
    m.insert("op".into(), json!("new"));
    m.insert("front".into(), json!(front));
    m.insert("flen".into(), json!(f.file_len()));
    m.insert("allowed".into(), allowed_ranges(f, cfg));
    cfg_fields(f, cfg, &mut m);
    m.insert("how".into(), extra);
    Value::Object(m)
}

fn batch_event(b: &arrow_array::RecordBatch, call: bool) -> Value {
    json!({"op":"batch","n":b.num_rows(),"toks":batch_tokens(b),"call":call})
}

fn error_event(note: String) -> Value {
    json!({"op":"error","note":note})
}

// ------------------------------------------------------------------- sync

fn run_sync(t: &mut Shards, f: &TestFile, cfg: &ScanCfg) {
    t.emit(new_event(f, cfg, "sync", json!("sync")));
    let r = guarded(|| -> Result<Vec<Value>, String> {
        let b = ParquetRecordBatchReaderBuilder::try_new_with_options(f.bytes.clone(), reader_options(cfg)).map_err(|e| e.to_string())?;
        let rdr = apply(b, f, cfg).build().map_err(|e| e.to_string())?;
        let mut evs = vec![];
        for b in rdr {
            evs.push(batch_event(&b.map_err(|e| e.to_string())?, true));
        }
        Ok(evs)
    });
    match r {
        Ok(Ok(evs)) => {
            for e in evs {
                t.emit(e);
            }
            t.emit(json!({"op":"finished"}));
        }
        Ok(Err(e)) | Err(e) => t.emit(error_event(e)),
    }
}

// ------------------------------------------------------------------- push

fn slice(f: &TestFile, r: &Range<u64>) -> Bytes {
    f.bytes.slice(r.start as usize..r.end as usize)
}

/// metadata through the ParquetMetaDataPushDecoder, fetching what it asks for
fn fetch_metadata_push(t: &mut Shards, f: &TestFile, page_index: bool) -> Result<Arc<ParquetMetaData>, String> {
    let mut d = ParquetMetaDataPushDecoder::try_new(f.file_len())
        .map_err(|e| e.to_string())?
        .with_page_index_policy(if page_index { PageIndexPolicy::Optional } else { PageIndexPolicy::Skip });
    for _ in 0..50 {
        match d.try_decode().map_err(|e| e.to_string())? {
            DecodeResult::NeedsData(r) => {
                t.emit(json!({"op":"meta_request","ranges":ranges_json(&r)}));
                let data = r.iter().map(|x| slice(f, x)).collect();
                d.push_ranges(r, data).map_err(|e| e.to_string())?;
            }
            DecodeResult::Data(m) => return Ok(Arc::new(m)),
            DecodeResult::Finished => return Err("metadata decoder finished without metadata".into()),
        }
    }
    Err("metadata decoder does not terminate".into())
}

struct Pusher<'a> {
    f: &'a TestFile,
    cfg: &'a ScanCfg,
    rng: Rng,
    /// delivery style of this episode (0 = always exact)
    style: usize,
}

impl Pusher<'_> {
    fn push(&mut self, t: &mut Shards, d: &mut ParquetPushDecoder, ranges: Vec<Range<u64>>) -> Result<(), String> {
        if ranges.is_empty() {
            return Ok(());
        }
        t.emit(json!({"op":"push","ranges":ranges_json(&ranges)}));
        let data = ranges.iter().map(|r| slice(self.f, r)).collect();
        d.push_ranges(ranges, data).map_err(|e| e.to_string())
    }

    fn chunk_of(&self, r: &Range<u64>) -> Option<Range<u64>> {
        let meta = &self.f.meta;
        for g in 0..meta.num_row_groups() {
            for c in 0..meta.row_group(g).num_columns() {
                let (s, e) = self.f.chunk_range(g, c);
                if s <= r.start && r.end <= e {
                    return Some(s..e);
                }
            }
        }
        None
    }

    fn row_group_span(&self, g: usize) -> Range<u64> {
        let n = self.f.meta.row_group(g).num_columns();
        let s = (0..n).map(|c| self.f.chunk_range(g, c).0).min().unwrap();
        let e = (0..n).map(|c| self.f.chunk_range(g, c).1).max().unwrap();
        s..e
    }

    /// data nobody asked for (yet)
    fn early(&mut self, t: &mut Shards, d: &mut ParquetPushDecoder) -> Result<(), String> {
        let flen = self.f.file_len();
        let ng = self.f.rg_rows.len();
        let r = match self.rng.below(4) {
            0 => vec![0..flen],
            1 if ng > 0 => {
                let g = self.rng.below(ng);
                vec![self.row_group_span(g)]
            }
            2 if ng > 0 => {
                let g = self.rng.below(ng);
                let c = self.rng.below(9);
                let (s, e) = self.f.chunk_range(g, c);
                vec![s..e]
            }
            _ => {
                let s = self.rng.below(flen as usize) as u64;
                vec![s..(s + 1 + self.rng.below(64) as u64).min(flen)]
            }
        };
        self.push(t, d, r)
    }

    /// answer the request `req` in the style of the episode
    fn deliver(&mut self, t: &mut Shards, d: &mut ParquetPushDecoder, req: &[Range<u64>]) -> Result<(), String> {
        let flen = self.f.file_len();
        let style = if self.style == 9 { self.rng.below(9) } else { self.style };
        let mut r: Vec<Range<u64>> = req.to_vec();
        match style {
            0 => self.push(t, d, r),
            1 => {
                // any order, over several calls
                for i in (1..r.len()).rev() {
                    r.swap(i, self.rng.below(i + 1));
                }
                while !r.is_empty() {
                    let k = 1 + self.rng.below(r.len());
                    let rest = r.split_off(k);
                    self.push(t, d, r)?;
                    r = rest;
                }
                Ok(())
            }
            2 => {
                // a strict subset now: the decoder must ask for the rest
                if r.len() > 1 {
                    let k = 1 + self.rng.below(r.len() - 1);
                    for i in (1..r.len()).rev() {
                        r.swap(i, self.rng.below(i + 1));
                    }
                    r.truncate(k);
                }
                self.push(t, d, r)
            }
            3 => {
                // every range widened
                let w: Vec<Range<u64>> = r
                    .iter()
                    .map(|x| x.start.saturating_sub(self.rng.below(40) as u64)..(x.end + self.rng.below(40) as u64).min(flen))
                    .collect();
                self.push(t, d, w)
            }
            4 => {
                // one range spanning everything asked for
                let s = r.iter().map(|x| x.start).min().unwrap();
                let e = r.iter().map(|x| x.end).max().unwrap();
                self.push(t, d, vec![s..e])
            }
            5 => {
                // the column chunks the ranges lie in (or the whole file)
                let mut w: Vec<Range<u64>> = vec![];
                for x in &r {
                    let c = self.chunk_of(x).unwrap_or(0..flen);
                    if !w.contains(&c) {
                        w.push(c);
                    }
                }
                self.push(t, d, w)
            }
            6 => self.push(t, d, vec![0..flen]),
            7 => {
                // duplicates
                self.push(t, d, r.clone())?;
                let k = 1 + self.rng.below(r.len());
                r.truncate(k);
                self.push(t, d, r)
            }
            _ => {
                // answer, drop everything, answer again (with something extra)
                self.push(t, d, r.clone())?;
                d.clear_all_ranges();
                t.emit(json!({"op":"clear"}));
                self.early(t, d)?;
                self.push(t, d, r)
            }
        }
    }
}

fn builder_for(t: &mut Shards, f: &TestFile, cfg: &ScanCfg, fetched: bool) -> Result<ParquetPushDecoderBuilder, String> {
    let meta = if fetched { fetch_metadata_push(t, f, cfg.page_index)? } else { metadata_for(f, cfg) };
    let b = ParquetPushDecoderBuilder::try_new_decoder(meta).map_err(|e| e.to_string())?;
    Ok(apply(b, f, cfg))
}

/// drain up to `max` batches of the readers handed off so far, oldest first
fn drain(t: &mut Shards, readers: &mut VecDeque<ParquetRecordBatchReader>, max: usize) -> Result<(), String> {
    let mut left = max;
    while left > 0 {
        let Some(r) = readers.front_mut() else { return Ok(()) };
        match r.next() {
            Some(Ok(b)) => {
                t.emit(batch_event(&b, false));
                left -= 1;
            }
            Some(Err(e)) => return Err(e.to_string()),
            None => {
                readers.pop_front();
            }
        }
    }
    Ok(())
}

fn run_push(t: &mut Shards, f: &TestFile, cfg: &ScanCfg, rng: &mut Rng, by_reader: bool) {
    let style = *rng.pick(&[0usize, 0, 1, 2, 3, 4, 5, 6, 7, 8, 9, 9, 9]);
    let fetched = rng.chance(25);
    let front = if by_reader { "push_reader" } else { "push" };
    t.emit(new_event(f, cfg, front, json!(format!("style={style} meta_fetched={fetched}"))));
    let mut p = Pusher { f, cfg, rng: rng.fork(), style };
    let mut cur_bs = cfg.bs;
    let r = guarded(|| -> Result<(), String> {
        let mut d = builder_for(t, f, p.cfg, fetched)?.build().map_err(|e| e.to_string())?;
        let mut readers: VecDeque<ParquetRecordBatchReader> = VecDeque::new();
        if p.rng.chance(20) {
            p.early(t, &mut d)?;
        }
        let mut calls = 0usize;
        loop {
            calls += 1;
            if calls > 20_000 {
                return Err("no progress after 20000 calls".into());
            }
            if by_reader {
                // possibly reconfigure at a row-group boundary
                if d.is_at_row_group_boundary() && d.row_groups_remaining() > 0 && p.rng.chance(35) {
                    drain(t, &mut readers, usize::MAX)?;
                    let nb = 1 + p.rng.below(f.n.max(1) + 2);
                    match d.into_builder() {
                        Ok(b) => {
                            let mut b = b.with_batch_size(nb);
                            if p.rng.chance(50) {
                                b = b.with_row_selection_policy(policy_of(p.rng.below(3)));
                            }
                            d = b.build().map_err(|e| e.to_string())?;
                            cur_bs = nb;
                            t.emit(json!({"op":"rebuild","bs":cur_bs,"err":false}));
                        }
                        Err(e) => {
                            t.emit(json!({"op":"rebuild","bs":cur_bs,"err":true,"note":e.to_string()}));
                            return Ok(());
                        }
                    }
                }
                match d.try_next_reader().map_err(|e| e.to_string())? {
                    DecodeResult::NeedsData(req) => {
                        t.emit(json!({"op":"request","ranges":ranges_json(&req)}));
                        p.deliver(t, &mut d, &req)?;
                    }
                    DecodeResult::Data(reader) => {
                        t.emit(json!({"op":"reader"}));
                        readers.push_back(reader);
                    }
                    DecodeResult::Finished => {
                        drain(t, &mut readers, usize::MAX)?;
                        t.emit(json!({"op":"finished"}));
                        return Ok(());
                    }
                }
                // the readers are drained independently of the decoder
                let k = p.rng.below(4);
                drain(t, &mut readers, k)?;
            } else {
                match d.try_decode().map_err(|e| e.to_string())? {
                    DecodeResult::NeedsData(req) => {
                        t.emit(json!({"op":"request","ranges":ranges_json(&req)}));
                        p.deliver(t, &mut d, &req)?;
                    }
                    DecodeResult::Data(b) => {
                        t.emit(batch_event(&b, true));
                        if p.rng.chance(3) {
                            // into_builder in the middle of a row group must be refused
                            let boundary = d.is_at_row_group_boundary();
                            let err = d.into_builder().is_err();
                            t.emit(json!({"op":"refused","boundary":boundary,"err":err}));
                            return Ok(());
                        }
                        if p.rng.chance(5) {
                            p.early(t, &mut d)?;
                        }
                    }
                    DecodeResult::Finished => {
                        t.emit(json!({"op":"finished"}));
                        return Ok(());
                    }
                }
            }
        }
    });
    match r {
        Ok(Ok(())) => {}
        Ok(Err(e)) | Err(e) => t.emit(error_event(e)),
    }
}

// ------------------------------------------------------------------ async

/// a future that is Pending `left` times (waking itself) before it is Ready
struct Delay {
    left: usize,
}

impl Future for Delay {
    type Output = ();
    fn poll(mut self: Pin<&mut Self>, cx: &mut Context<'_>) -> Poll<()> {
        if self.left == 0 {
            Poll::Ready(())
        } else {
            self.left -= 1;
            cx.waker().wake_by_ref();
            Poll::Pending
        }
    }
}

type Log = Arc<Mutex<Vec<Value>>>;

struct AdvReader {
    bytes: Bytes,
    log: Log,
    rng: Rng,
    vectored: bool,
    max_pending: usize,
    /// metadata handed over without I/O, if any
    given: Option<Arc<ParquetMetaData>>,
    page_index: bool,
    in_meta: bool,
}

impl AdvReader {
    fn delay(&mut self) -> Delay {
        Delay { left: if self.max_pending == 0 { 0 } else { self.rng.below(self.max_pending + 1) } }
    }
    fn read(&self, r: &Range<u64>) -> PqResult<Bytes> {
        if r.end as usize > self.bytes.len() || r.start > r.end {
            return Err(ParquetError::General(format!("read outside the file: {r:?}")));
        }
        Ok(self.bytes.slice(r.start as usize..r.end as usize))
    }
}

impl AsyncFileReader for AdvReader {
    fn get_bytes(&mut self, range: Range<u64>) -> BoxFuture<'_, PqResult<Bytes>> {
        let op = if self.in_meta { "meta_request" } else { "request" };
        self.log.lock().unwrap().push(json!({"op":op,"ranges":ranges_json(&[range.clone()])}));
        let d = self.delay();
        async move {
            d.await;
            let b = self.read(&range)?;
            if !self.in_meta {
                self.log.lock().unwrap().push(json!({"op":"push","ranges":ranges_json(&[range.clone()])}));
            }
            Ok(b)
        }
        .boxed()
    }

    fn get_byte_ranges(&mut self, ranges: Vec<Range<u64>>) -> BoxFuture<'_, PqResult<Vec<Bytes>>> {
        self.log.lock().unwrap().push(json!({"op":"request","ranges":ranges_json(&ranges)}));
        async move {
            let mut out = Vec::with_capacity(ranges.len());
            if self.vectored {
                self.delay().await;
                for r in &ranges {
                    out.push(self.read(r)?);
                }
            } else {
                for r in &ranges {
                    self.delay().await;
                    out.push(self.read(r)?);
                }
            }
            self.log.lock().unwrap().push(json!({"op":"push","ranges":ranges_json(&ranges)}));
            Ok(out)
        }
        .boxed()
    }

    fn get_metadata<'a>(&'a mut self, options: Option<&'a ArrowReaderOptions>) -> BoxFuture<'a, PqResult<Arc<ParquetMetaData>>> {
        async move {
            self.delay().await;
            if let Some(m) = &self.given {
                return Ok(m.clone());
            }
            self.in_meta = true;
            let len = self.bytes.len() as u64;
            let policy = if self.page_index { PageIndexPolicy::Optional } else { PageIndexPolicy::Skip };
            let r = ParquetMetaDataReader::new().with_arrow_reader_options(options).with_page_index_policy(policy).load_and_finish(&mut *self, len).await;
            self.in_meta = false;
            r.map(Arc::new)
        }
        .boxed()
    }
}

/// poll a future to completion with a no-op waker; counts the Pending results
fn block<F: Future>(mut fut: Pin<&mut F>, pendings: &mut usize) -> Result<F::Output, String> {
    let waker = futures::task::noop_waker();
    let mut cx = Context::from_waker(&waker);
    for _ in 0..200_000 {
        match fut.as_mut().poll(&mut cx) {
            Poll::Ready(v) => return Ok(v),
            Poll::Pending => *pendings += 1,
        }
    }
    Err("future stays pending".into())
}

fn flush(t: &mut Shards, log: &Log) {
    for e in log.lock().unwrap().drain(..) {
        t.emit(e);
    }
}

fn run_async(t: &mut Shards, f: &TestFile, cfg: &ScanCfg, rng: &mut Rng, by_row_group: bool) {
    let vectored = rng.chance(50);
    let max_pending = *rng.pick(&[0usize, 1, 3, 8]);
    let fetched = rng.chance(40);
    let front = if by_row_group { "async_rg" } else { "async" };
    t.emit(new_event(f, cfg, front, json!(format!("vectored={vectored} max_pending={max_pending} meta_fetched={fetched}"))));
    let log: Log = Arc::new(Mutex::new(vec![]));
    let reader = AdvReader {
        bytes: f.bytes.clone(),
        log: log.clone(),
        rng: rng.fork(),
        vectored,
        max_pending,
        given: if fetched { None } else { Some(metadata_for(f, cfg)) },
        page_index: cfg.page_index,
        in_meta: false,
    };
    let mut pendings = 0usize;
    let r = guarded(|| -> Result<(), String> {
        let builder = if fetched {
            let fut = ParquetRecordBatchStreamBuilder::new_with_options(reader, reader_options(cfg));
            futures::pin_mut!(fut);
            let b = block(fut, &mut pendings)?.map_err(|e| e.to_string())?;
            flush(t, &log);
            b
        } else {
            let m = ArrowReaderMetadata::try_new(metadata_for(f, cfg), ArrowReaderOptions::new()).map_err(|e| e.to_string())?;
            ParquetRecordBatchStreamBuilder::new_with_metadata(reader, m)
        };
        let mut stream = apply(builder, f, cfg).build().map_err(|e| e.to_string())?;
        if by_row_group {
            loop {
                let next = {
                    let fut = stream.next_row_group();
                    futures::pin_mut!(fut);
                    block(fut, &mut pendings)?
                };
                flush(t, &log);
                match next.map_err(|e| e.to_string())? {
                    Some(reader) => {
                        t.emit(json!({"op":"reader"}));
                        for b in reader {
                            t.emit(batch_event(&b.map_err(|e| e.to_string())?, false));
                        }
                    }
                    None => {
                        t.emit(json!({"op":"finished"}));
                        break;
                    }
                }
            }
            // after the end: Ok(None) again
            let again = {
                let fut = stream.next_row_group();
                futures::pin_mut!(fut);
                block(fut, &mut pendings)?
            };
            flush(t, &log);
            t.emit(json!({"op":"after_end","res": match again { Ok(None) => "none", Ok(Some(_)) => "some", Err(_) => "err" }}));
        } else {
            loop {
                let next = {
                    let fut = stream.next();
                    futures::pin_mut!(fut);
                    block(fut, &mut pendings)?
                };
                flush(t, &log);
                match next {
                    Some(Ok(b)) => t.emit(batch_event(&b, true)),
                    Some(Err(e)) => return Err(e.to_string()),
                    None => {
                        t.emit(json!({"op":"finished"}));
                        break;
                    }
                }
            }
            for _ in 0..2 {
                let again = {
                    let fut = stream.next();
                    futures::pin_mut!(fut);
                    block(fut, &mut pendings)?
                };
                flush(t, &log);
                t.emit(json!({"op":"after_end","res": match again { None => "none", Some(Ok(_)) => "some", Some(Err(_)) => "err" }}));
            }
        }
        Ok(())
    });
    flush(t, &log);
    match r {
        Ok(Ok(())) => {}
        Ok(Err(e)) | Err(e) => t.emit(error_event(e)),
    }
}

fn main() {
    let args = Args::parse();
    vcore::quiet_panics();
    let mut rng = Rng::new(args.seed);
    let mut t = Shards::create(&args.out, "fronts", 14);
    let files = args.scale(20, 150);
    let per_file = args.scale(5, 12);
    let max_rows = args.scale(90, 200);
    let mut episodes = 0usize;
    let mut random_gap = 0usize;
    for _ in 0..files {
        let layout = random_layout(&mut rng, max_rows);
        let f = build_file(&layout);
        for _ in 0..per_file {
            let cfg = random_cfg(&mut rng, &f);
            if is_mask_gap(&f, &cfg) {
                random_gap += 1;
            }
            run_sync(&mut t, &f, &cfg);
            run_push(&mut t, &f, &cfg, &mut rng, false);
            if rng.chance(60) {
                run_push(&mut t, &f, &cfg, &mut rng, true);
                episodes += 1;
            }
            let by_rg = rng.chance(40);
            run_async(&mut t, &f, &cfg, &mut rng, by_rg);
            episodes += 3;
        }
        t.next_episode();
    }
    // whole-page skips: page index + small pages x every policy x batch sizes 1..5 on every front-end
    let gap_files = args.scale(8, 60);
    let mut gap_scans = 0usize;
    let mut k = 0usize;
    for _ in 0..gap_files {
        let f = build_file(&gap_layout(&mut rng, args.scale(56, 120)));
        for cfg in gap_cfgs(&mut rng, &f) {
            k += 1;
            let gap = is_mask_gap(&f, &cfg);
            run_push(&mut t, &f, &cfg, &mut rng, false);
            match k % 3 {
                0 => run_push(&mut t, &f, &cfg, &mut rng, true),
                1 => run_async(&mut t, &f, &cfg, &mut rng, false),
                _ => run_async(&mut t, &f, &cfg, &mut rng, true),
            }
            episodes += 2;
            if k % 4 == 0 {
                run_sync(&mut t, &f, &cfg);
                episodes += 1;
            }
            if gap {
                gap_scans += 2;
            }
        }
        t.next_episode();
    }
    let n = t.finish();
    println!("DRIVER c15 events={n} episodes={episodes} mask_gap_scans={gap_scans} random_cfgs_with_mask_gap={random_gap}");
}
