//! CSV and JSON: push `Decoder` vs pull `Reader`.
//!
//! CSV protocol (arrow-csv reader/mod.rs, `Decoder` doc example): `loop { buf = fill_buf(); n = decode(buf);
//! if n == 0 { break }; consume(n) }; flush()`, repeated until flush returns None.  An empty `buf` means end
//! of input, so empty chunks are never presented before the end.
//! JSON protocol (arrow-json reader/mod.rs, `Decoder` doc example): `loop { buf = fill_buf(); if buf.is_empty()
//! { break }; n = decode(buf); consume(n); if n != buf.len() { break } }; flush()`, repeated until None.
use crate::{variant, Cfg, Inp, Sess};
use arrow_array::builder::{Int32Builder, ListBuilder};
use arrow_array::*;
use arrow_schema::{DataType, Field, Schema, SchemaRef};
use std::sync::Arc;
use vcore::{tok, Rng};

/// chunk source; `rolling` re-presents unconsumed bytes together with the next chunk
struct Src<'a> {
    chunks: Vec<&'a [u8]>,
    idx: usize,
    off: usize,
    rolling: bool,
    win: Vec<u8>,
}

impl<'a> Src<'a> {
    fn new(chunks: Vec<&'a [u8]>, rolling: bool) -> Self {
        Src { chunks, idx: 0, off: 0, rolling, win: vec![] }
    }
    /// the bytes to present next; empty only at the end of the input
    fn fill(&mut self) -> Vec<u8> {
        if self.rolling {
            while self.idx < self.chunks.len() {
                let c = self.chunks[self.idx];
                self.idx += 1;
                if !c.is_empty() {
                    self.win.extend_from_slice(c);
                    break;
                }
            }
            return self.win.clone();
        }
        while self.idx < self.chunks.len() && self.off == self.chunks[self.idx].len() {
            self.idx += 1;
            self.off = 0;
        }
        if self.idx == self.chunks.len() { vec![] } else { self.chunks[self.idx][self.off..].to_vec() }
    }
    fn consume(&mut self, n: usize) {
        if self.rolling {
            self.win.drain(..n);
        } else {
            self.off += n;
        }
    }
}

// ------------------------------------------------------------------ CSV

#[derive(Clone)]
pub struct CsvCfg {
    pub schema: SchemaRef,
    pub header: bool,
    pub escape: Option<u8>,
    pub terminator: Option<u8>,
    pub comment: Option<u8>,
    pub truncated: bool,
    pub bounds: Option<(usize, usize)>,
}

fn csv_builder(c: &CsvCfg, bs: usize) -> arrow_csv::ReaderBuilder {
    let mut b = arrow_csv::ReaderBuilder::new(c.schema.clone()).with_batch_size(bs).with_header(c.header).with_truncated_rows(c.truncated);
    if let Some(e) = c.escape {
        b = b.with_escape(e);
    }
    if let Some(t) = c.terminator {
        b = b.with_terminator(t);
    }
    if let Some(t) = c.comment {
        b = b.with_comment(t);
    }
    if let Some((s, e)) = c.bounds {
        b = b.with_bounds(s, e);
    }
    b
}

pub fn run_csv(inp: &Inp, c: &CsvCfg, cuts: &[usize], bs: usize, mode: &str) -> Sess {
    let mut s = Sess { ok: true, schema: tok::schema_str(&c.schema), ..Default::default() };
    let mut dec = csv_builder(c, bs).build_decoder();
    let mut src = Src::new(inp.chunks(cuts), mode == "rolling");
    loop {
        loop {
            let buf = src.fill();
            match dec.decode(&buf) {
                Ok(n) => {
                    s.call(buf.len(), n);
                    if n == 0 {
                        break;
                    }
                    src.consume(n);
                }
                Err(e) => {
                    s.call(buf.len(), 0);
                    s.fail("decode", &variant(&e));
                    return s;
                }
            }
        }
        match dec.flush() {
            Ok(Some(b)) => s.batches.push(tok::batch_rows(&b)),
            Ok(None) => break,
            Err(e) => {
                s.fail("flush", &variant(&e));
                return s;
            }
        }
    }
    s
}

pub fn oneshot_csv(inp: &Inp, c: &CsvCfg, bs: usize) -> Sess {
    let mut s = Sess { ok: true, schema: tok::schema_str(&c.schema), ..Default::default() };
    let rd = match csv_builder(c, bs).build(std::io::Cursor::new(inp.bytes.clone())) {
        Ok(r) => r,
        Err(e) => {
            s.fail("open", &variant(&e));
            return s;
        }
    };
    s.schema = tok::schema_str(&rd.schema());
    for b in rd {
        match b {
            Ok(b) => s.batches.push(tok::batch_rows(&b)),
            Err(e) => {
                s.fail("read", &variant(&e));
                break;
            }
        }
    }
    s
}

fn text_marks(bytes: &[u8], special: &[u8]) -> Vec<usize> {
    let mut m = vec![];
    for (i, b) in bytes.iter().enumerate() {
        if special.contains(b) || *b >= 0x80 {
            m.push(i);
            m.push(i + 1);
        }
    }
    m.dedup();
    m
}

fn csv_inp(name: &str, bytes: &[u8], cfg: CsvCfg) -> Inp {
    Inp {
        fmt: "csv",
        name: name.to_string(),
        n: bytes.len(),
        marks: text_marks(bytes, b"\"\r\n\\;#"),
        bytes: bytes.to_vec(),
        bodies: vec![], must: vec![], batch_sizes: None, lean: false,
        cfg: Cfg::Csv(cfg),
        uses_bs: true,
        allow_empty: false,
        pinned: "",
        modes: vec!["rolling"],
    }
}

pub fn csv_inputs(rng: &mut Rng, thorough: bool) -> Vec<Inp> {
    let mut out = vec![];
    let s2 = Arc::new(Schema::new(vec![Field::new("a", DataType::Int64, true), Field::new("b", DataType::Utf8, true)]));
    let base = CsvCfg { schema: s2.clone(), header: false, escape: None, terminator: None, comment: None, truncated: false, bounds: None };
    let hdr = CsvCfg { header: true, ..base.clone() };

    // written by the real writer: quotes, commas, newlines, nulls, floats, booleans
    let s4 = Arc::new(Schema::new(vec![
        Field::new("i", DataType::Int64, true),
        Field::new("s", DataType::Utf8, true),
        Field::new("f", DataType::Float64, true),
        Field::new("t", DataType::Boolean, true),
    ]));
    let strs = ["plain", "with,comma", "with \"quote\"", "line\nbreak", "cr\r\nlf", "", "\"", "h\u{e9}llo \u{1F600}", " lead", "trail ", "a\"\"b", ","];
    let nrows = 11;
    let mut i = vec![];
    let mut sv = vec![];
    let mut f = vec![];
    let mut t = vec![];
    for r in 0..nrows {
        i.push(if rng.chance(15) { None } else { Some(rng.range(-1000, 1000)) });
        sv.push(if rng.chance(10) { None } else { Some(strs[(r + rng.below(3)) % strs.len()]) });
        f.push(if rng.chance(15) { None } else { Some(rng.range(-500, 500) as f64 / 8.0) });
        t.push(if rng.chance(15) { None } else { Some(rng.chance(50)) });
    }
    let batch = RecordBatch::try_new(
        s4.clone(),
        vec![Arc::new(Int64Array::from(i)), Arc::new(StringArray::from(sv)), Arc::new(Float64Array::from(f)), Arc::new(BooleanArray::from(t))],
    )
    .unwrap();
    let mut w = arrow_csv::WriterBuilder::new().with_header(true).build(Vec::new());
    w.write(&batch.slice(0, 6)).unwrap();
    w.write(&batch.slice(6, 5)).unwrap();
    let bytes = w.into_inner();
    out.push(csv_inp("writer", &bytes, CsvCfg { schema: s4.clone(), header: true, ..base.clone() }));

    // hand-made: CRLF, embedded CRLF inside quotes, doubled quotes, empty line, no final terminator
    out.push(csv_inp("crlf-quotes", b"a,b\r\n1,\"x\r\ny\"\r\n2,\"he said \"\"hi\"\"\"\r\n\r\n3,z\r\n4,\"\"\r\n5,\"\"\"\"\r\n6,q", hdr.clone()));
    out.push(csv_inp("lf-rows", b"1,a\n2,b\n3,c\n4,d\n5,e\n6,f\n7,g\n8,h\n9,i\n10,j\n11,k\n12,l\n", base.clone()));
    out.push(csv_inp("cr-only", b"1,a\r2,b\r3,\"c\rd\"\r", base.clone()));
    out.push(csv_inp("blank-lines", b"\n\r\n1,a\n\n\n2,b\r\n\r\n", base.clone()));
    out.push(csv_inp("quote-mid-field", b"1,ab\"cd\"ef\n2,\"ab\"cd\n3,\"x\"\"\"\n", base.clone()));
    out.push(csv_inp("open-quote", b"1,\"abc\n2,def\n3,ghi", base.clone()));
    out.push(csv_inp("field-count", b"1,a\n2,b\n3,c\n4\n5,e\n6,f\n", base.clone()));
    out.push(csv_inp("field-count-more", b"1,a\n2,b,zz\n3,c\n", base.clone()));
    out.push(csv_inp("bad-int", b"1,a\n2,b\nxx,c\n4,d\n5,e\n", base.clone()));
    out.push(csv_inp("escape", b"1,\"a\\\"b\"\n2,\"c\\\\\"\n3,\"\\\"\"\n", CsvCfg { escape: Some(b'\\'), ..base.clone() }));
    out.push(csv_inp("terminator", b"1,a;2,\"b;c\";3,d\n;4,e", CsvCfg { terminator: Some(b';'), ..base.clone() }));
    out.push(csv_inp("comment", b"#c1\n1,a\n# 2,b\r\n3,c\n#", CsvCfg { comment: Some(b'#'), ..base.clone() }));
    out.push(csv_inp("truncated-rows", b"a,b\n1\n2,b\n\n3\n4,", CsvCfg { truncated: true, ..hdr.clone() }));
    out.push(csv_inp("non-utf8", b"1,a\n2,\xff\xfe\n3,c\n", base.clone()));
    out.push(csv_inp("utf8-split", "1,\u{e9}\u{20ac}\u{1F600}\n2,\"\u{1F600}\"\n".as_bytes(), base.clone()));
    out.push(csv_inp("bounds", b"a,b\n1,a\n2,b\n3,c\n4,d\n5,e\n6,f\n", CsvCfg { bounds: Some((2, 5)), ..hdr.clone() }));
    out.push(csv_inp("header-mismatch", b"a,x\n1,a\n", hdr.clone()));
    out.push(csv_inp("header-only", b"a,b\n", hdr.clone()));
    out.push(csv_inp("header-partial", b"a,b", hdr.clone()));
    out.push(csv_inp("empty", b"", base.clone()));
    out.push(csv_inp("newlines", b"\n\n\r\n", base.clone()));
    out.push(csv_inp("one-field", b"7", CsvCfg { schema: Arc::new(Schema::new(vec![Field::new("a", DataType::Int64, true)])), ..base.clone() }));
    if thorough {
        // random texts over a CSV-hostile alphabet
        let alpha: &[&[u8]] = &[b"1", b"2", b",", b"\"", b"\r", b"\n", b"\r\n", b"x", b"\"\"", b" "];
        for j in 0..12 {
            let len = 6 + rng.below(30);
            let mut b = vec![];
            for _ in 0..len {
                b.extend_from_slice(alpha[rng.below(alpha.len())]);
            }
            let us = Arc::new(Schema::new(vec![Field::new("a", DataType::Utf8, true), Field::new("b", DataType::Utf8, true)]));
            out.push(csv_inp(&format!("random{j}"), &b, CsvCfg { schema: us, truncated: true, ..base.clone() }));
        }
    }
    out
}

// ------------------------------------------------------------------ JSON

#[derive(Clone)]
pub struct JsonCfg {
    pub schema: SchemaRef,
    pub is_field: bool,
    pub flatten: bool,
    pub strict: bool,
}

fn json_builder(c: &JsonCfg, bs: usize) -> arrow_json::ReaderBuilder {
    let b = if c.is_field { arrow_json::ReaderBuilder::new_with_field(c.schema.field(0).clone()) } else { arrow_json::ReaderBuilder::new(c.schema.clone()) };
    b.with_batch_size(bs).with_flatten(c.flatten).with_strict_mode(c.strict)
}

pub fn run_json(inp: &Inp, c: &JsonCfg, cuts: &[usize], bs: usize, mode: &str) -> Sess {
    let mut s = Sess { ok: true, schema: tok::schema_str(&c.schema), ..Default::default() };
    let mut dec = match json_builder(c, bs).build_decoder() {
        Ok(d) => d,
        Err(e) => {
            s.fail("open", &variant(&e));
            return s;
        }
    };
    macro_rules! flush {
        () => {
            match dec.flush() {
                Ok(Some(b)) => {
                    s.batches.push(tok::batch_rows(&b));
                    true
                }
                Ok(None) => false,
                Err(e) => {
                    s.fail("flush", &variant(&e));
                    return s;
                }
            }
        };
    }
    if mode == "canon" {
        // the documented BufRead loop
        let mut src = Src::new(inp.chunks(cuts), false);
        loop {
            loop {
                let buf = src.fill();
                if buf.is_empty() {
                    break;
                }
                match dec.decode(&buf) {
                    Ok(n) => {
                        s.call(buf.len(), n);
                        src.consume(n);
                        if n != buf.len() {
                            break;
                        }
                    }
                    Err(e) => {
                        s.call(buf.len(), 0);
                        s.fail("decode", &variant(&e));
                        return s;
                    }
                }
            }
            if !flush!() {
                break;
            }
        }
        return s;
    }
    // "push": every chunk (also an empty one) is pushed; a short count means the batch is full.
    // "early": additionally flush at every chunk end where no record is in progress.
    for chunk in inp.chunks(cuts) {
        let mut off = 0;
        loop {
            match dec.decode(&chunk[off..]) {
                Ok(n) => {
                    s.call(chunk.len() - off, n);
                    off += n;
                    if off == chunk.len() {
                        break;
                    }
                    flush!();
                }
                Err(e) => {
                    s.call(chunk.len() - off, 0);
                    s.fail("decode", &variant(&e));
                    return s;
                }
            }
        }
        if mode == "early" && !dec.has_partial_record() {
            flush!();
        }
    }
    while flush!() {}
    s
}

pub fn oneshot_json(inp: &Inp, c: &JsonCfg, bs: usize) -> Sess {
    let mut s = Sess { ok: true, schema: tok::schema_str(&c.schema), ..Default::default() };
    let rd = match json_builder(c, bs).build(std::io::Cursor::new(inp.bytes.clone())) {
        Ok(r) => r,
        Err(e) => {
            s.fail("open", &variant(&e));
            return s;
        }
    };
    for b in rd {
        match b {
            Ok(b) => s.batches.push(tok::batch_rows(&b)),
            Err(e) => {
                s.fail("read", &variant(&e));
                break;
            }
        }
    }
    s
}

fn json_inp(name: &str, bytes: &[u8], cfg: JsonCfg) -> Inp {
    Inp {
        fmt: "json",
        name: name.to_string(),
        n: bytes.len(),
        marks: text_marks(bytes, b"\"\\{}[]:\n,tfnu-.eE"),
        bytes: bytes.to_vec(),
        bodies: vec![], must: vec![], batch_sizes: None, lean: false,
        cfg: Cfg::Json(cfg),
        uses_bs: true,
        allow_empty: true,
        pinned: "",
        modes: vec!["push", "early"],
    }
}

pub fn json_inputs(rng: &mut Rng, thorough: bool) -> Vec<Inp> {
    let mut out = vec![];
    let sa = Arc::new(Schema::new(vec![Field::new("a", DataType::Int64, true), Field::new("s", DataType::Utf8, true)]));
    let base = JsonCfg { schema: sa.clone(), is_field: false, flatten: false, strict: false };

    // written by the real writers
    let mut lb = ListBuilder::new(Int32Builder::new());
    let nrows = 9;
    let strs = ["plain", "q\"uote", "back\\slash", "tab\t nl\n", "h\u{e9}llo", "\u{1F600}", "", "\u{7}ctl", "{}[],:"];
    let mut i = vec![];
    let mut sv = vec![];
    let mut f = vec![];
    let mut t = vec![];
    for r in 0..nrows {
        i.push(if rng.chance(15) { None } else { Some(rng.range(-100000, 100000)) });
        sv.push(if rng.chance(10) { None } else { Some(strs[(r + rng.below(2)) % strs.len()]) });
        f.push(if rng.chance(15) { None } else { Some(rng.range(-500, 500) as f64 / 8.0) });
        t.push(if rng.chance(15) { None } else { Some(rng.chance(50)) });
        if rng.chance(20) {
            lb.append_null();
        } else {
            let k = rng.below(3);
            lb.append_value((0..k).map(|x| if x == 1 { None } else { Some(x as i32 - 1) }));
        }
    }
    let list = lb.finish();
    let st = StructArray::from(vec![
        (Arc::new(Field::new("x", DataType::Int64, true)), Arc::new(Int64Array::from(i.clone())) as ArrayRef),
        (Arc::new(Field::new("y", DataType::Utf8, true)), Arc::new(StringArray::from(sv.clone())) as ArrayRef),
    ]);
    let sw = Arc::new(Schema::new(vec![
        Field::new("i", DataType::Int64, true),
        Field::new("s", DataType::Utf8, true),
        Field::new("f", DataType::Float64, true),
        Field::new("t", DataType::Boolean, true),
        Field::new("l", list.data_type().clone(), true),
        Field::new("st", st.data_type().clone(), true),
    ]));
    let batch = RecordBatch::try_new(
        sw.clone(),
        vec![
            Arc::new(Int64Array::from(i)),
            Arc::new(StringArray::from(sv)),
            Arc::new(Float64Array::from(f)),
            Arc::new(BooleanArray::from(t)),
            Arc::new(list),
            Arc::new(st),
        ],
    )
    .unwrap();
    let wcfg = JsonCfg { schema: sw.clone(), ..base.clone() };
    let mut w = arrow_json::LineDelimitedWriter::new(Vec::new());
    w.write(&batch.slice(0, 5)).unwrap();
    w.write(&batch.slice(5, 4)).unwrap();
    w.finish().unwrap();
    out.push(json_inp("writer-lines", &w.into_inner(), wcfg.clone()));
    let mut w = arrow_json::ArrayWriter::new(Vec::new());
    w.write(&batch.slice(0, 4)).unwrap();
    w.write(&batch.slice(4, 3)).unwrap();
    w.finish().unwrap();
    out.push(json_inp("writer-array", &w.into_inner(), JsonCfg { flatten: true, ..wcfg.clone() }));

    // hand-made
    out.push(json_inp(
        "escapes",
        br#"{"a":1,"s":"x\ud83d\ude00y\u00e9\n\"q\"\\\/\b\f\r\t"} {"a":-2,"s":"\u0041\uD834\uDD1E"}
{"s":null,"a":null}{"a":3}"#,
        base.clone(),
    ));
    out.push(json_inp("raw-utf8", "{\"a\":1,\"s\":\"\u{e9}\u{20ac}\u{1F600}\"}\n{\"a\":2,\"s\":\"\u{1F600}\u{1F600}\"}\n".as_bytes(), base.clone()));
    out.push(json_inp("pretty", b"{\n  \"a\" : 10 ,\n  \"s\" : \"v\"\n}\n\n {\t\"a\":\r\n 11}\n", base.clone()));
    out.push(json_inp("many-rows", b"{\"a\":1}\n{\"a\":2}\n{\"a\":3}\n{\"a\":4}\n{\"a\":5}\n{\"a\":6}\n{\"a\":7}\n{\"a\":8}\n{\"a\":9}\n{\"a\":10}\n", base.clone()));
    out.push(json_inp("no-space", b"{\"a\":1}{\"a\":2}{\"a\":3}{\"a\":4}", base.clone()));
    out.push(json_inp("numbers", b"{\"a\":-0}\n{\"a\":12e2}\n{\"a\":1.5E+1}\n{\"a\":9007199254740993}\n", base.clone()));
    out.push(json_inp("extra-fields", b"{\"a\":1,\"z\":{\"q\":[1,{\"w\":null},\"s\"]},\"s\":\"k\"}\n{\"z\":true,\"a\":2}\n", base.clone()));
    out.push(json_inp("strict-extra", b"{\"a\":1}\n{\"a\":2,\"z\":3}\n{\"a\":4}\n", JsonCfg { strict: true, ..base.clone() }));
    out.push(json_inp("truncated", b"{\"a\":1}\n{\"a\":2}\n{\"a\":3,\"s\":\"ab", base.clone()));
    out.push(json_inp("truncated-obj", b"{\"a\":1}\n{\"a\":", base.clone()));
    out.push(json_inp("bad-literal", b"{\"a\":1}\n{\"a\":nul}\n{\"a\":3}\n", base.clone()));
    out.push(json_inp("bad-literal2", b"{\"a\":1,\"s\":tru}\n", base.clone()));
    out.push(json_inp("bad-escape", b"{\"a\":1,\"s\":\"x\\qy\"}\n", base.clone()));
    out.push(json_inp("lone-surrogate", b"{\"a\":1,\"s\":\"\\ud83dx\"}\n", base.clone()));
    out.push(json_inp("bad-hex", b"{\"a\":1,\"s\":\"\\u00g1\"}\n", base.clone()));
    out.push(json_inp("type-mismatch", b"{\"a\":1}\n{\"a\":2}\n{\"a\":\"x\"}\n{\"a\":4}\n{\"a\":5}\n", base.clone()));
    out.push(json_inp("missing-colon", b"{\"a\":1}\n{\"a\" 2}\n", base.clone()));
    out.push(json_inp("non-utf8", b"{\"a\":1,\"s\":\"\xff\"}\n{\"a\":2}\n", base.clone()));
    out.push(json_inp("empty", b"", base.clone()));
    out.push(json_inp("whitespace", b" \n\t\r\n ", base.clone()));
    let fs = Arc::new(Schema::new(vec![Field::new("v", DataType::Int64, true)]));
    let fcfg = JsonCfg { schema: fs.clone(), is_field: true, flatten: false, strict: false };
    out.push(json_inp("bare-numbers", b"1 22\n-3\t4 null 55 ", fcfg.clone()));
    out.push(json_inp("bare-numbers-no-delim", b"1 22 333", fcfg.clone()));
    out.push(json_inp("bare-literals", b"null\nnull null", fcfg.clone()));
    out.push(json_inp("flatten-mixed", b"[{\"a\":1},{\"a\":2}] {\"a\":3}\n[ ]\n[{\"a\":4} , {\"a\":5},{\"a\":6}]", JsonCfg { flatten: true, ..base.clone() }));
    out.push(json_inp("flatten-open", b"[{\"a\":1},{\"a\":2}", JsonCfg { flatten: true, ..base.clone() }));
    if thorough {
        let alpha: &[&[u8]] = &[b"{", b"}", b"\"a\"", b":", b"1", b",", b"\"s\"", b"\"x\"", b" ", b"\n", b"null", b"[", b"]", b"\\", b"\""];
        for j in 0..12 {
            let len = 4 + rng.below(16);
            let mut b = vec![];
            for _ in 0..len {
                b.extend_from_slice(alpha[rng.below(alpha.len())]);
            }
            out.push(json_inp(&format!("random{j}"), &b, base.clone()));
        }
    }
    out
}
