//! Arrow IPC stream: `StreamDecoder` (push) vs `StreamReader` (pull).
//!
//! Protocol (stream.rs doc example): for every chunk, `while !chunk.is_empty() { decode(&mut chunk) }`,
//! then `finish()`.
use crate::{variant, Cfg, Inp, Sess};
use arrow_array::builder::{ListBuilder, Int32Builder};
use arrow_array::*;
use arrow_buffer::Buffer;
use arrow_ipc::reader::{StreamDecoder, StreamReader};
use arrow_ipc::writer::{DictionaryHandling, IpcWriteOptions, StreamWriter};
use arrow_schema::{DataType, Field, Schema};
use std::sync::Arc;
use vcore::mk::{self, Cfg as MkCfg};
use vcore::{tok, Rng};

pub fn run(inp: &Inp, cuts: &[usize], mode: &str) -> Sess {
    let mut s = Sess { ok: true, ..Default::default() };
    let mut dec = StreamDecoder::new();
    let shared = Buffer::from(inp.bytes.clone());
    let mut lo = 0usize;
    let mut bounds: Vec<usize> = cuts.to_vec();
    bounds.push(inp.bytes.len());
    for hi in bounds {
        let mut b = if mode == "slice" { shared.slice_with_length(lo, hi - lo) } else { Buffer::from(inp.bytes[lo..hi].to_vec()) };
        lo = hi;
        while !b.is_empty() {
            let before = b.len();
            match dec.decode(&mut b) {
                Ok(Some(batch)) => {
                    s.batches.push(tok::batch_rows(&batch));
                    s.gave.push(1);
                }
                Ok(None) => s.gave.push(0),
                Err(e) => {
                    s.gave.push(0);
                    s.call(before, before - b.len());
                    s.fail("decode", &variant(&e));
                    s.schema = dec.schema().map(|x| tok::schema_str(&x)).unwrap_or_default();
                    return s;
                }
            }
            s.call(before, before - b.len());
        }
    }
    if let Err(e) = dec.finish() {
        s.fail("finish", &variant(&e));
    }
    s.schema = dec.schema().map(|x| tok::schema_str(&x)).unwrap_or_default();
    s
}

pub fn oneshot(inp: &Inp) -> Sess {
    let mut s = Sess { ok: true, ..Default::default() };
    let rd = match StreamReader::try_new(std::io::Cursor::new(inp.bytes.clone()), None) {
        Ok(r) => r,
        Err(e) => {
            s.fail("open", &variant(&e));
            return s;
        }
    };
    s.schema = tok::schema_str(&rd.schema());
    for b in rd {
        match b {
            Ok(b) => s.batches.push(tok::batch_rows(&b)),
            Err(e) => {
                s.fail("read", &variant(&e));
                break;
            }
        }
    }
    s
}

/// (marks, how the input ends): "zero" = the last message has an empty body and no EOS follows,
/// "after" = bytes follow the EOS, "prefix" = the input ends inside a continuation marker / length prefix
fn framing(bytes: &[u8]) -> (Vec<usize>, &'static str) {
    let mut marks = vec![];
    let mut pos = 0usize;
    let mut last_zero_body = false;
    let n = bytes.len();
    loop {
        if pos + 4 > n {
            return (marks, if pos < n { "prefix" } else if last_zero_body { "zero" } else { "" });
        }
        marks.push(pos);
        let mut w = u32::from_le_bytes(bytes[pos..pos + 4].try_into().unwrap());
        pos += 4;
        marks.push(pos);
        if w == 0xFFFF_FFFF {
            if pos + 4 > n {
                return (marks, "prefix");
            }
            w = u32::from_le_bytes(bytes[pos..pos + 4].try_into().unwrap());
            pos += 4;
            marks.push(pos);
        }
        if w == 0 {
            return (marks, if pos < n { "after" } else { "" });
        }
        let len = w as usize;
        if pos + len > n {
            return (marks, "");
        }
        let Ok(msg) = arrow_ipc::root_as_message(&bytes[pos..pos + len]) else { return (marks, "") };
        let body = msg.bodyLength().max(0) as usize;
        pos += len;
        marks.push(pos);
        last_zero_body = body == 0;
        if pos + body > n {
            return (marks, "");
        }
        pos += body;
        if body > 0 {
            marks.push(pos);
        }
    }
}

/// the framing of a stream the writer produced (for the byte-level binding to IpcFraming.tla):
/// per message (metadata length, body length, kind 0 schema / 1 batch / 2 dictionary)
#[derive(Clone, Default)]
pub struct IpcFrame {
    pub msgs: Vec<[i64; 3]>,
    pub legacy: bool,
    pub eos: bool,
    pub extra: usize,
    pub full_len: usize,
}

/// walk a complete stream; None when it is not a clean sequence of schema / batch / dictionary messages
fn describe(full: &[u8]) -> Option<IpcFrame> {
    let n = full.len();
    let mut f = IpcFrame { full_len: n, ..Default::default() };
    let mut pos = 0usize;
    let mut conts: Vec<bool> = vec![];
    loop {
        if pos == n {
            break;
        }
        if pos + 4 > n {
            return None;
        }
        let mut w = u32::from_le_bytes(full[pos..pos + 4].try_into().unwrap());
        pos += 4;
        let cont = w == 0xFFFF_FFFF;
        if cont {
            if pos + 4 > n {
                return None;
            }
            w = u32::from_le_bytes(full[pos..pos + 4].try_into().unwrap());
            pos += 4;
        }
        conts.push(cont);
        if w == 0 {
            f.eos = true;
            f.extra = n - pos;
            break;
        }
        let len = w as usize;
        if pos + len > n {
            return None;
        }
        let msg = arrow_ipc::root_as_message(&full[pos..pos + len]).ok()?;
        let kind = match msg.header_type() {
            arrow_ipc::MessageHeader::Schema => 0,
            arrow_ipc::MessageHeader::RecordBatch => 1,
            arrow_ipc::MessageHeader::DictionaryBatch => 2,
            _ => return None,
        };
        let body = msg.bodyLength().max(0) as usize;
        pos += len;
        if pos + body > n {
            return None;
        }
        pos += body;
        f.msgs.push([len as i64, body as i64, kind]);
    }
    if conts.iter().any(|c| *c != conts[0]) {
        return None;
    }
    f.legacy = conts.first().map(|c| !*c).unwrap_or(false);
    Some(f)
}

fn write(schema: &Arc<Schema>, batches: &[RecordBatch], opts: IpcWriteOptions, eos: bool) -> Vec<u8> {
    let mut w = StreamWriter::try_new_with_options(Vec::new(), schema, opts).unwrap();
    for b in batches {
        w.write(b).unwrap();
    }
    if eos {
        w.finish().unwrap();
        w.into_inner().unwrap()
    } else {
        w.flush().unwrap();
        w.get_ref().clone()
    }
}

fn mk_inp(name: &str, bytes: Vec<u8>, pinned_hint: &'static str) -> Inp {
    mk_inp_of(name, bytes, pinned_hint, None)
}

/// `origin`: the complete stream `bytes` is a prefix of (None: `bytes` itself is complete)
fn mk_inp_of(name: &str, bytes: Vec<u8>, pinned_hint: &'static str, origin: Option<&[u8]>) -> Inp {
    let frame = describe(origin.unwrap_or(&bytes)).filter(|f| origin.unwrap_or(&bytes).starts_with(&bytes) && f.full_len >= bytes.len());
    let (marks, tail) = framing(&bytes);
    let pinned = if !pinned_hint.is_empty() {
        pinned_hint
    } else if tail == "zero" {
        // DESIGN appendix A: a zero-length body is only processed on the next non-empty decode call,
        // so finish() reports an incomplete stream where the pull reader sees a clean end
        "ipc-zero-body-last-no-eos"
    } else if tail == "after" {
        "ipc-bytes-after-eos"
    } else if tail == "prefix" {
        // the pull reader takes an end of input inside the marker / length prefix for the end of the stream
        "ipc-ends-inside-prefix"
    } else if bytes.is_empty() {
        "ipc-empty-input"
    } else {
        ""
    };
    Inp {
        fmt: "ipc",
        name: name.to_string(),
        n: bytes.len(),
        bytes,
        marks,
        bodies: vec![], must: vec![], batch_sizes: None, lean: false,
        cfg: Cfg::Ipc(frame),
        uses_bs: false,
        allow_empty: true,
        pinned,
        modes: vec!["slice"],
    }
}

fn dict_batch(schema: &Arc<Schema>, values: &[&str], keys: &[Option<i8>], ids: &[i32]) -> RecordBatch {
    let d = DictionaryArray::<types::Int8Type>::try_new(Int8Array::from(keys.to_vec()), Arc::new(StringArray::from(values.to_vec()))).unwrap();
    RecordBatch::try_new(schema.clone(), vec![Arc::new(d), Arc::new(Int32Array::from(ids.to_vec()))]).unwrap()
}

pub fn inputs(rng: &mut Rng, thorough: bool) -> Vec<Inp> {
    let mut out = vec![];
    // A: primitives + strings, nulls, an empty batch in the middle
    let sa = Arc::new(Schema::new(vec![
        Field::new("i", DataType::Int32, true),
        Field::new("s", DataType::Utf8, true),
        Field::new("f", DataType::Float64, false),
    ]));
    let ba = |i: Vec<Option<i32>>, s: Vec<Option<&str>>, f: Vec<f64>| {
        RecordBatch::try_new(sa.clone(), vec![Arc::new(Int32Array::from(i)), Arc::new(StringArray::from(s)), Arc::new(Float64Array::from(f))]).unwrap()
    };
    let a_batches = vec![
        ba(vec![Some(1), None, Some(-3)], vec![Some("a"), Some(""), None], vec![0.5, -0.0, f64::NAN]),
        ba(vec![], vec![], vec![]),
        ba(vec![Some(7), Some(8), None, Some(i32::MIN), Some(9)], vec![None, Some("h\u{e9}llo"), Some("x,y"), Some("q"), Some("\u{1F600}")], vec![1.0, 2.0, 3.0, 4.0, 5.0]),
    ];
    let a = write(&sa, &a_batches, IpcWriteOptions::default(), true);
    out.push(mk_inp("prim", a.clone(), ""));
    // the same without the end-of-stream marker
    out.push(mk_inp("prim-noeos", write(&sa, &a_batches, IpcWriteOptions::default(), false), ""));
    // 8-byte alignment, legacy framing without continuation markers (metadata V4)
    if let Ok(o) = IpcWriteOptions::try_new(8, true, arrow_ipc::MetadataVersion::V4) {
        out.push(mk_inp("prim-legacy", write(&sa, &a_batches, o, true), ""));
    }
    if let Ok(o) = IpcWriteOptions::try_new(8, false, arrow_ipc::MetadataVersion::V5) {
        out.push(mk_inp("prim-align8", write(&sa, &a_batches[..1], o, true), ""));
    }
    // schema only, with and without EOS; ends with an empty batch and no EOS
    out.push(mk_inp("schema-only", write(&sa, &[], IpcWriteOptions::default(), true), ""));
    out.push(mk_inp("schema-only-noeos", write(&sa, &[], IpcWriteOptions::default(), false), ""));
    out.push(mk_inp("ends-empty-noeos", write(&sa, &a_batches[..2], IpcWriteOptions::default(), false), ""));
    out.push(mk_inp("empty", vec![], ""));

    // B: nested
    let mut lb = ListBuilder::new(Int32Builder::new());
    lb.append_value([Some(1), None, Some(3)]);
    lb.append_null();
    lb.append_value([] as [Option<i32>; 0]);
    lb.append_value([Some(4)]);
    let list = lb.finish();
    let st = StructArray::from(vec![
        (Arc::new(Field::new("a", DataType::Int8, true)), Arc::new(Int8Array::from(vec![Some(1), None, Some(3), Some(4)])) as ArrayRef),
        (Arc::new(Field::new("b", DataType::Utf8, true)), Arc::new(StringArray::from(vec![Some("u"), Some("v"), None, Some("w")])) as ArrayRef),
    ]);
    let sb = Arc::new(Schema::new(vec![
        Field::new("l", list.data_type().clone(), true),
        Field::new("st", st.data_type().clone(), false),
        Field::new("b", DataType::Boolean, true),
        Field::new("bin", DataType::Binary, true),
    ]));
    let bb = RecordBatch::try_new(
        sb.clone(),
        vec![
            Arc::new(list),
            Arc::new(st),
            Arc::new(BooleanArray::from(vec![Some(true), None, Some(false), Some(true)])),
            Arc::new(BinaryArray::from(vec![Some(&b"\x00\xff"[..]), None, Some(&b""[..]), Some(&b"zz"[..])])),
        ],
    )
    .unwrap();
    out.push(mk_inp("nested", write(&sb, &[bb.clone(), bb.slice(1, 2), bb.slice(3, 1)], IpcWriteOptions::default(), true), ""));

    // C: dictionaries: replacement (resend) and delta
    let sc = Arc::new(Schema::new(vec![
        Field::new("d", DataType::Dictionary(Box::new(DataType::Int8), Box::new(DataType::Utf8)), true),
        Field::new("k", DataType::Int32, false),
    ]));
    let d1 = dict_batch(&sc, &["a", "b"], &[Some(0), None, Some(1)], &[1, 2, 3]);
    let d2 = dict_batch(&sc, &["a", "b", "c"], &[Some(2), Some(0)], &[4, 5]);
    let d3 = dict_batch(&sc, &["x", "y"], &[Some(1), Some(1), Some(0)], &[6, 7, 8]);
    let d4 = dict_batch(&sc, &["x", "y"], &[], &[]);
    out.push(mk_inp("dict-resend", write(&sc, &[d1.clone(), d2.clone(), d3.clone(), d4.clone()], IpcWriteOptions::default(), true), ""));
    let delta = IpcWriteOptions::default().with_dictionary_handling(DictionaryHandling::Delta);
    out.push(mk_inp("dict-delta", write(&sc, &[d1.clone(), d2.clone(), d3.clone(), d1.clone()], delta, true), ""));

    // damaged inputs, derived from A
    let (am, _) = framing(&a);
    for (i, &m) in am.iter().enumerate().filter(|(i, _)| [2usize, 3, 4, 6, 7, 9].contains(i)) {
        for d in [0usize, 3] {
            let cut = (m + d).min(a.len() - 1);
            out.push(mk_inp_of(&format!("prim-trunc{i}+{d}"), a[..cut].to_vec(), "", Some(&a)));
        }
    }
    // corrupted metadata length of the second message (8 more / 8 less)
    if am.len() > 6 {
        let second = am.iter().copied().find(|&p| p > 8 && a[p..].starts_with(&[0xFF, 0xFF, 0xFF, 0xFF])).unwrap_or(0);
        if second > 0 {
            for delta in [8i32, -8, 1] {
                let mut c = a.clone();
                let l = i32::from_le_bytes(c[second + 4..second + 8].try_into().unwrap());
                c[second + 4..second + 8].copy_from_slice(&(l + delta).to_le_bytes());
                out.push(mk_inp(&format!("prim-badlen{delta}"), c, ""));
            }
            // corrupted continuation marker
            let mut c = a.clone();
            c[second] = 0xFE;
            out.push(mk_inp("prim-badmarker", c, ""));
            // a flipped byte inside the metadata flatbuffer
            let mut c = a.clone();
            c[second + 8 + 5] ^= 0x40;
            out.push(mk_inp("prim-badmeta", c, ""));
        }
    }
    // bytes after the EOS marker, a second schema message in the stream
    let mut t = a.clone();
    t.extend_from_slice(&[1, 2, 3]);
    out.push(mk_inp("prim-after-eos", t, ""));
    let mut two = write(&sa, &a_batches[..1], IpcWriteOptions::default(), false);
    two.extend_from_slice(&a);
    out.push(mk_inp("prim-second-schema", two, ""));

    // random schemas over the type zoo
    let k = if thorough { 10 } else { 2 };
    let zoo: Vec<DataType> = mk::all_types().into_iter().filter(|t| !matches!(t, DataType::RunEndEncoded(_, _) | DataType::Union(_, _))).collect();
    for j in 0..k {
        let ncols = 1 + rng.below(3);
        let types: Vec<DataType> = (0..ncols).map(|_| rng.pick(&zoo).clone()).collect();
        let fields: Vec<Field> = types.iter().enumerate().map(|(i, t)| Field::new(format!("c{i}"), t.clone(), true)).collect();
        let schema = Arc::new(Schema::new(fields));
        let r = vcore::guarded(|| {
            let mut bs = vec![];
            for _ in 0..(1 + rng.below(3)) {
                let len = rng.below(6);
                let cols: Vec<ArrayRef> = types.iter().map(|t| mk::array(rng, t, len, MkCfg::tame(20))).collect();
                bs.push(RecordBatch::try_new(schema.clone(), cols).ok()?);
            }
            let mut w = StreamWriter::try_new(Vec::new(), &schema).ok()?;
            for b in &bs {
                w.write(b).ok()?;
            }
            w.finish().ok()?;
            w.into_inner().ok()
        });
        if let Ok(Some(bytes)) = r {
            if bytes.len() <= 6000 {
                out.push(mk_inp(&format!("zoo{j}"), bytes, ""));
            }
        }
    }
    out
}
