//! C14 driver: push-style decoders under every chunking.
//!
//! For every input (bytes produced by the real writers, plus damaged / edge
//! inputs) and every batch size the driver records
//!   * one `oneshot` event: what the corresponding pull reader returns, and
//!   * one `session` event per chunking: what the push decoder returns when
//!     the same bytes arrive cut at `cuts`, driven by the documented protocol.
//! Nothing is compared here: Trace_Chunk.tla decides (same outcome class, same
//! rows, same schema for every chunking; every batch <= batch_size; equal to
//! the one-shot reader).
mod avro;
mod flight;
mod ipc;
mod pq;
mod replay;
mod text;

use std::collections::BTreeSet;
use std::sync::Arc;
use vcore::trace::Shards;
use vcore::{json, Args, Rng, Value};

pub const BATCH_SIZES: [usize; 5] = [1, 2, 3, 7, 1024];

/// result of one decoding session (or of the one-shot reader)
#[derive(Default, Clone)]
pub struct Sess {
    pub ok: bool,
    /// "<phase>:<error variant>" ("" when ok)
    pub cls: String,
    pub batches: Vec<Vec<String>>,
    pub schema: String,
    /// per decode call: bytes offered / bytes consumed
    pub offered: Vec<i64>,
    pub consumed: Vec<i64>,
    /// per decode call: 1 if the call returned a batch (IPC)
    pub gave: Vec<i64>,
}

impl Sess {
    pub fn fail(&mut self, phase: &str, variant: &str) {
        self.ok = false;
        self.cls = format!("{phase}:{variant}");
    }
    pub fn call(&mut self, offered: usize, consumed: usize) {
        self.offered.push(offered as i64);
        self.consumed.push(consumed as i64);
    }
}

/// the variant name of an error enum, from its Debug form ("ParseError(\"..\")" -> "ParseError")
pub fn variant<E: std::fmt::Debug>(e: &E) -> String {
    let s = format!("{e:?}");
    let end = s.find(|c: char| !(c.is_alphanumeric() || c == '_')).unwrap_or(s.len());
    let v = &s[..end];
    // arrow-avro reports through ArrowError::AvroError(String) / ExternalError(..): keep one more level
    if v == "ExternalError" || v == "AvroError" || v == "ArrowError" || v == "External" {
        let rest = &s[end..];
        let inner: String = rest.chars().skip_while(|c| !c.is_alphabetic()).take_while(|c| c.is_alphanumeric()).collect();
        return format!("{v}.{inner}");
    }
    v.to_string()
}

pub fn schema_id(s: &str) -> String {
    // FNV-1a of the Debug form: the specification only needs equality
    let mut h: u64 = 0xcbf29ce484222325;
    for b in s.bytes() {
        h ^= b as u64;
        h = h.wrapping_mul(0x100000001b3);
    }
    format!("{h:016x}")
}

pub enum Cfg {
    Ipc(Option<ipc::IpcFrame>),
    Csv(text::CsvCfg),
    Json(text::JsonCfg),
    AvroOcf,
    AvroSoe(avro::SoeCfg),
    Pq(pq::PqCfg),
    Flight(flight::FlightCfg),
}

pub struct Inp {
    pub fmt: &'static str,
    pub name: String,
    pub bytes: Vec<u8>,
    /// number of cut positions (bytes, or messages for Flight)
    pub n: usize,
    /// structurally interesting cut positions
    pub marks: Vec<usize>,
    /// record body ranges [start, end) (Avro single-object / Confluent framing)
    pub bodies: Vec<(usize, usize)>,
    /// cut positions that are always exercised, for every batch size: each as a two-chunk session and all
    /// together as one session (e.g. every byte of the framing varints of an Avro file)
    pub must: Vec<usize>,
    /// batch sizes to use instead of BATCH_SIZES (inputs with very many rows)
    pub batch_sizes: Option<Vec<usize>>,
    /// only the whole input, the `must` cuts and a few random multi-splits (inputs with very many rows)
    pub lean: bool,
    pub cfg: Cfg,
    pub uses_bs: bool,
    /// may the protocol deliver empty chunks before the end of the input
    pub allow_empty: bool,
    /// compare with the one-shot reader ("" = fully; otherwise the pinned reason why not)
    pub pinned: &'static str,
    /// protocol variants besides "canon"
    pub modes: Vec<&'static str>,
}

impl Inp {
    pub fn chunks<'a>(&'a self, cuts: &[usize]) -> Vec<&'a [u8]> {
        let mut out = Vec::with_capacity(cuts.len() + 1);
        let mut lo = 0;
        for &c in cuts {
            out.push(&self.bytes[lo..c]);
            lo = c;
        }
        out.push(&self.bytes[lo..]);
        out
    }
}

/// A decoder that does not return is an outcome, not a stuck check: every session runs on its own thread
/// and is given WATCHDOG to finish ("hang:NoReturn"; the thread is abandoned).
const WATCHDOG: std::time::Duration = std::time::Duration::from_secs(30);
pub static HANGS: std::sync::atomic::AtomicUsize = std::sync::atomic::AtomicUsize::new(0);

fn watched<T: Send + 'static>(f: impl FnOnce() -> T + Send + 'static) -> Option<T> {
    let (tx, rx) = std::sync::mpsc::channel();
    std::thread::spawn(move || {
        let _ = tx.send(f());
    });
    match rx.recv_timeout(WATCHDOG) {
        Ok(v) => Some(v),
        Err(_) => {
            HANGS.fetch_add(1, std::sync::atomic::Ordering::SeqCst);
            None
        }
    }
}

fn hung() -> Sess {
    let mut s = Sess::default();
    s.fail("hang", "NoReturn");
    s
}

fn run(inp: &Arc<Inp>, cuts: &[usize], bs: usize, mode: &str) -> Sess {
    let (i, c, m) = (inp.clone(), cuts.to_vec(), mode.to_string());
    watched(move || run_inner(&i, &c, bs, &m)).unwrap_or_else(hung)
}

fn oneshot(inp: &Arc<Inp>, bs: usize) -> Option<Sess> {
    let i = inp.clone();
    watched(move || oneshot_inner(&i, bs)).unwrap_or_else(|| Some(hung()))
}

fn run_inner(inp: &Inp, cuts: &[usize], bs: usize, mode: &str) -> Sess {
    let r = vcore::guarded(|| match &inp.cfg {
        Cfg::Ipc(_) => ipc::run(inp, cuts, mode),
        Cfg::Csv(c) => text::run_csv(inp, c, cuts, bs, mode),
        Cfg::Json(c) => text::run_json(inp, c, cuts, bs, mode),
        Cfg::AvroOcf => avro::run_ocf(inp, cuts, bs),
        Cfg::AvroSoe(c) => avro::run_soe(inp, c, cuts, bs, mode),
        Cfg::Pq(c) => pq::run(inp, c, cuts, mode),
        Cfg::Flight(c) => flight::run(inp, c, cuts),
    });
    r.unwrap_or_else(|_p| {
        let mut s = Sess::default();
        s.fail("panic", "Panic");
        s
    })
}

fn oneshot_inner(inp: &Inp, bs: usize) -> Option<Sess> {
    let r = vcore::guarded(|| match &inp.cfg {
        Cfg::Ipc(_) => Some(ipc::oneshot(inp)),
        Cfg::Csv(c) => Some(text::oneshot_csv(inp, c, bs)),
        Cfg::Json(c) => Some(text::oneshot_json(inp, c, bs)),
        Cfg::AvroOcf => Some(avro::oneshot_ocf(inp, bs)),
        Cfg::AvroSoe(_) => None, // no pull reader exists for single-object framing
        Cfg::Pq(c) => Some(pq::oneshot(inp, c)),
        Cfg::Flight(c) => Some(flight::oneshot(inp, c)),
    });
    match r {
        Ok(x) => x,
        Err(_) => {
            let mut s = Sess::default();
            s.fail("panic", "Panic");
            Some(s)
        }
    }
}

fn ints(v: &[usize]) -> Value {
    Value::Array(v.iter().map(|x| Value::from(*x as i64)).collect())
}

fn batches_json(b: &[Vec<String>]) -> Value {
    Value::Array(b.iter().map(|r| Value::Array(r.iter().cloned().map(Value::String).collect())).collect())
}

const MAX_CALLS: usize = 700;

struct Out {
    t: Shards,
    /// per-call traces of IPC sessions, validated against the byte-level model (Trace_Ipc.tla)
    ipc: Shards,
    ipc_cur: (usize, usize),
    ipc_limit: usize,
    ipc_sessions: usize,
    sessions: usize,
    inputs: usize,
    bytes_max: usize,
    err_sessions: usize,
    per_fmt: std::collections::BTreeMap<&'static str, usize>,
}

impl Out {
    fn oneshot(&mut self, id: usize, inp: &Arc<Inp>, bs: usize) {
        let r = oneshot(inp, bs);
        let has = r.is_some();
        let r = r.unwrap_or_default();
        let rows: Vec<String> = r.batches.iter().flatten().cloned().collect();
        let sizes: Vec<usize> = r.batches.iter().map(|b| b.len()).collect();
        let bodies: Vec<Value> = inp.bodies.iter().map(|(a, b)| json!([*a as i64, *b as i64])).collect();
        self.t.emit(json!({
            "op": "oneshot", "fmt": inp.fmt, "input": inp.name, "id": id as i64, "n": inp.n as i64, "bs": bs as i64,
            "has_ref": has, "pinned": inp.pinned,
            "out": if !has { "none" } else if r.ok { "ok" } else { "err" }, "cls": r.cls,
            "rows": rows, "sizes": ints(&sizes), "schema": schema_id(&r.schema),
            "bodies": bodies,
        }));
    }
    fn session(&mut self, id: usize, inp: &Arc<Inp>, bs: usize, cuts: &[usize], mode: &str, pick: bool) {
        let s = run(inp, cuts, bs, mode);
        let (off, con) = if s.offered.len() <= MAX_CALLS { (s.offered.clone(), s.consumed.clone()) } else { (vec![], vec![]) };
        let tot: i64 = s.consumed.iter().sum();
        self.t.emit(json!({
            "op": "session", "fmt": inp.fmt, "id": id as i64, "n": inp.n as i64, "bs": bs as i64,
            "cuts": ints(cuts), "mode": mode,
            "out": if s.ok { "ok" } else { "err" }, "cls": s.cls,
            "batches": batches_json(&s.batches), "schema": schema_id(&s.schema),
            "offered": off, "consumed": con, "ncalls": s.offered.len() as i64, "tot": tot,
        }));
        if let Cfg::Ipc(Some(f)) = &inp.cfg {
            if pick && mode == "canon" && s.offered.len() <= MAX_CALLS {
                if self.ipc_cur.0 != id + 1 {
                    self.ipc.next_episode();
                    self.ipc_cur = (id + 1, 0);
                    let msgs: Vec<Value> = f.msgs.iter().map(|m| json!([m[0], m[1], m[2]])).collect();
                    self.ipc.emit(json!({"op": "ipcinput", "id": id as i64, "n": inp.n as i64, "msgs": msgs, "legacy": f.legacy,
                        "eos": f.eos, "extra": f.extra as i64, "full": f.full_len as i64}));
                }
                if self.ipc_cur.1 < self.ipc_limit {
                    self.ipc_cur.1 += 1;
                    self.ipc_sessions += 1;
                    self.ipc.emit(json!({"op": "ipcsession", "id": id as i64, "n": inp.n as i64, "cuts": ints(cuts),
                        "offered": s.offered, "consumed": s.consumed, "gave": s.gave,
                        "out": if s.ok { "ok" } else { "err" }, "cls": s.cls, "nb": s.batches.len() as i64}));
                }
            }
        }
        self.sessions += 1;
        if !s.ok {
            self.err_sessions += 1;
        }
        *self.per_fmt.entry(inp.fmt).or_insert(0) += 1;
    }
}

/// all subsets of `pos` as cut lists
fn subsets(pos: &[usize]) -> Vec<Vec<usize>> {
    let k = pos.len();
    (0..(1usize << k)).map(|m| (0..k).filter(|i| m >> i & 1 == 1).map(|i| pos[i]).collect()).collect()
}

fn random_cuts(rng: &mut Rng, n: usize, allow_empty: bool) -> Vec<usize> {
    if n < 2 {
        return vec![];
    }
    let m = *rng.pick(&[2usize, 4, 8, 16, 40]);
    let k = 1 + rng.below(m);
    let mut v: Vec<usize> = (0..k).map(|_| if allow_empty { rng.below(n + 1) } else { 1 + rng.below(n - 1) }).collect();
    v.sort();
    if !allow_empty {
        v.dedup();
    }
    v
}

fn plan_group(inp: &Inp, rng: &mut Rng, thorough: bool, primary: bool) -> Vec<(Vec<usize>, &'static str)> {
    let n = inp.n;
    let mut plans: Vec<(Vec<usize>, &'static str)> = vec![];
    let mut seen: BTreeSet<(Vec<usize>, &'static str)> = BTreeSet::new();
    let mut add = |plans: &mut Vec<(Vec<usize>, &'static str)>, c: Vec<usize>, m: &'static str| {
        if seen.insert((c.clone(), m)) {
            plans.push((c, m));
        }
    };
    // the whole input in one chunk: the base of the group
    add(&mut plans, vec![], "canon");
    if n < 2 {
        if inp.allow_empty {
            add(&mut plans, vec![0], "canon");
            add(&mut plans, vec![n], "canon");
        }
        return plans;
    }
    // the cuts every group has to contain
    let must: Vec<usize> = inp.must.iter().copied().filter(|c| *c >= 1 && *c < n).collect::<BTreeSet<_>>().into_iter().collect();
    for &c in &must {
        add(&mut plans, vec![c], "canon");
    }
    if !must.is_empty() {
        add(&mut plans, must.clone(), "canon");
    }
    if inp.lean {
        for _ in 0..3 {
            let c = random_cuts(rng, n, inp.allow_empty);
            add(&mut plans, c, "canon");
        }
        return plans;
    }
    let marks: Vec<usize> = inp.marks.iter().copied().filter(|c| *c >= 1 && *c < n).collect();
    let mut near: BTreeSet<usize> = BTreeSet::new();
    for &m in &marks {
        for d in -2i64..=2 {
            let c = m as i64 + d;
            if c >= 1 && (c as usize) < n {
                near.insert(c as usize);
            }
        }
    }
    // every single split point (two chunks)
    let budget = if thorough { if primary { 1500 } else { 150 } } else if primary { 120 } else { 20 };
    if n - 1 <= budget {
        for c in 1..n {
            add(&mut plans, vec![c], "canon");
        }
    } else {
        let mut chosen: Vec<usize> = near.iter().copied().collect();
        if chosen.len() > budget {
            // keep an even sample of the structural neighbourhood
            let step = chosen.len().div_ceil(budget);
            chosen = chosen.into_iter().step_by(step).collect();
        }
        let stride = ((n - 1) / (budget / 3).max(1)).max(1);
        let start = 1 + rng.below(stride);
        chosen.extend((start..n).step_by(stride));
        while chosen.len() < budget {
            chosen.push(1 + rng.below(n - 1));
        }
        for c in chosen {
            add(&mut plans, vec![c], "canon");
        }
    }
    // all partitions over a window of interesting positions
    let k = if thorough { if primary { 10 } else { 5 } } else if primary { 6 } else { 2 };
    let mut pool: Vec<usize> = if marks.is_empty() { (1..n).collect() } else { near.iter().copied().collect() };
    if pool.len() > k {
        // a contiguous run of neighbouring positions, placed at random
        let s = rng.below(pool.len() - k + 1);
        pool = pool[s..s + k].to_vec();
    }
    for c in subsets(&pool) {
        add(&mut plans, c, "canon");
    }
    if thorough && primary && marks.len() > 8 {
        // a second window made of marks spread over the input
        let step = marks.len() / 8;
        let spread: Vec<usize> = (0..8).map(|i| marks[i * step]).collect::<BTreeSet<_>>().into_iter().collect();
        for c in subsets(&spread) {
            add(&mut plans, c, "canon");
        }
    }
    // one byte at a time
    let bytewise: Vec<usize> = (1..n).collect();
    if n <= 6000 {
        add(&mut plans, bytewise.clone(), "canon");
    }
    // empty chunks
    if inp.allow_empty {
        add(&mut plans, vec![0], "canon");
        add(&mut plans, vec![n], "canon");
        let c = 1 + rng.below(n - 1);
        add(&mut plans, vec![0, 0, c, c, c, n, n], "canon");
        if n <= 1500 {
            let doubled: Vec<usize> = bytewise.iter().flat_map(|c| [*c, *c]).collect();
            add(&mut plans, doubled, "canon");
        }
        for &m in marks.iter().take(if primary { 8 } else { 2 }) {
            add(&mut plans, vec![m, m], "canon");
        }
    }
    // random multi-splits
    let r = if thorough { 20 } else if primary { 6 } else { 2 };
    for _ in 0..r {
        let c = random_cuts(rng, n, inp.allow_empty);
        add(&mut plans, c, "canon");
    }
    // protocol variants
    for &m in &inp.modes {
        add(&mut plans, vec![], m);
        if n <= 6000 {
            add(&mut plans, bytewise.clone(), m);
        }
        let cnt = if thorough { marks.len() } else if primary { 12 } else { 2 };
        for &c in marks.iter().take(cnt) {
            add(&mut plans, vec![c], m);
        }
        for _ in 0..r {
            let c = random_cuts(rng, n, inp.allow_empty);
            add(&mut plans, c, m);
        }
        if thorough && primary && n - 1 <= 300 {
            for c in 1..n {
                add(&mut plans, vec![c], m);
            }
        }
    }
    plans
}

fn main() {
    let args = Args::parse();
    vcore::quiet_panics();
    if args.driver == "probe-vl" {
        // probe (not part of the check): the framing varints of the "vl-" Avro inputs
        for i in avro::inputs(&mut Rng::new(1), true).iter().filter(|i| i.name.starts_with("vl-")) {
            let must: BTreeSet<usize> = i.must.iter().copied().collect();
            let runs: Vec<String> = i.marks.iter().filter(|m| **m + 6 <= i.bytes.len()).take(8).map(|m| format!("{}:{:02x?}", m, &i.bytes[*m..*m + 4])).collect();
            println!("{} {} n={} must={} lean={} {:?}", i.fmt, i.name, i.n, must.len(), i.lean, runs);
        }
        return;
    }
    if args.driver == "probe-ocf-count" {
        avro::probe_count();
        return;
    }
    if args.driver == "replay-csv" {
        replay::replay_csv(args.cases.as_deref().expect("--cases FILE"));
        return;
    }
    let mut rng = Rng::new(args.seed ^ 0xC14);
    let thorough = args.thorough();
    let only: Option<String> = args.extra.first().cloned();
    let mut out = Out {
        t: Shards::create(&args.out, "chunk", 14),
        ipc: Shards::create(&args.out, "ipccall", 6),
        ipc_cur: (0, 0),
        ipc_limit: if thorough { 160 } else { 20 },
        ipc_sessions: 0,
        sessions: 0,
        inputs: 0,
        bytes_max: 0,
        err_sessions: 0,
        per_fmt: Default::default(),
    };
    let mut inputs: Vec<Inp> = vec![];
    inputs.extend(ipc::inputs(&mut rng.fork(), thorough));
    inputs.extend(text::csv_inputs(&mut rng.fork(), thorough));
    inputs.extend(text::json_inputs(&mut rng.fork(), thorough));
    inputs.extend(avro::inputs(&mut rng.fork(), thorough));
    inputs.extend(pq::inputs(&mut rng.fork(), thorough));
    inputs.extend(flight::inputs(&mut rng.fork(), thorough));
    let inputs: Vec<Arc<Inp>> = inputs.into_iter().map(Arc::new).collect();
    for (id, inp) in inputs.iter().enumerate() {
        let hangs0 = HANGS.load(std::sync::atomic::Ordering::SeqCst);
        if let Some(f) = &only {
            if !inp.fmt.starts_with(f.as_str()) && !inp.name.contains(f.as_str()) {
                continue;
            }
        }
        out.inputs += 1;
        out.bytes_max = out.bytes_max.max(inp.bytes.len());
        let sizes: Vec<usize> = if !inp.uses_bs { vec![0] } else { inp.batch_sizes.clone().unwrap_or(BATCH_SIZES.to_vec()) };
        let prim = id % sizes.len();
        for (bi, &bs) in sizes.iter().enumerate() {
            out.oneshot(id, inp, bs);
            let plans = plan_group(inp, &mut rng, thorough, bi == prim);
            // an even sample of the sessions is also logged call by call (IPC, Trace_Ipc.tla)
            let stride = (plans.len() / out.ipc_limit).max(1);
            for (j, (cuts, mode)) in plans.iter().enumerate() {
                // a few sessions that never return are evidence enough: do not pile up abandoned threads
                if HANGS.load(std::sync::atomic::Ordering::SeqCst) >= hangs0 + 3 {
                    break;
                }
                out.session(id, inp, bs, cuts, mode, j % stride == 0);
            }
            out.t.next_episode();
        }
    }
    let per: Vec<String> = out.per_fmt.iter().map(|(k, v)| format!("{}={}", k.replace('-', "_"), v)).collect();
    let (sessions, ninputs, bmax, errs) = (out.sessions, out.inputs, out.bytes_max, out.err_sessions);
    let ipc_sessions = out.ipc_sessions;
    let events = out.t.finish() + out.ipc.finish();
    println!(
        "DRIVER c14 inputs={ninputs} sessions={sessions} events={events} error_sessions={errs} max_input_bytes={bmax} ipc_call_sessions={ipc_sessions} hangs={} {}",
        HANGS.load(std::sync::atomic::Ordering::SeqCst),
        per.join(" ")
    );
    // abandoned threads may still be spinning
    std::process::exit(0);
}
