//! Arrow Flight: `FlightRecordBatchStream` / `FlightDataDecoder` over a stream of `FlightData` messages.
//! The decoder is pulled through `Stream::poll_next`; the "chunking" of a session is the readiness
//! schedule of the inner stream: `cuts` lists the message indices before which the inner stream reports
//! `Pending` once (an index may repeat; index n = before the end of the stream).
use crate::{variant, Cfg, Inp, Sess};
use arrow_array::*;
use arrow_flight::decode::FlightRecordBatchStream;
use arrow_flight::encode::{DictionaryHandling, FlightDataEncoderBuilder};
use arrow_flight::error::FlightError;
use arrow_flight::FlightData;
use arrow_schema::{DataType, Field, Schema};
use futures::{Stream, StreamExt, TryStreamExt};
use std::pin::Pin;
use std::sync::Arc;
use std::task::{Context, Poll};
use vcore::{tok, Rng};

#[derive(Clone)]
pub struct FlightCfg {
    pub msgs: Vec<FlightData>,
}

struct Sched {
    msgs: Vec<FlightData>,
    i: usize,
    pend: Vec<usize>,
}

impl Stream for Sched {
    type Item = Result<FlightData, FlightError>;
    fn poll_next(mut self: Pin<&mut Self>, cx: &mut Context<'_>) -> Poll<Option<Self::Item>> {
        let i = self.i;
        if let Some(p) = self.pend.iter().position(|x| *x == i) {
            self.pend.remove(p);
            cx.waker().wake_by_ref();
            return Poll::Pending;
        }
        if i < self.msgs.len() {
            self.i += 1;
            Poll::Ready(Some(Ok(self.msgs[i].clone())))
        } else {
            Poll::Ready(None)
        }
    }
}

pub fn run(_inp: &Inp, c: &FlightCfg, cuts: &[usize]) -> Sess {
    let mut s = Sess { ok: true, ..Default::default() };
    let mut st = FlightRecordBatchStream::new_from_flight_data(Sched { msgs: c.msgs.clone(), i: 0, pend: cuts.to_vec() });
    let waker = futures::task::noop_waker();
    let mut cx = Context::from_waker(&waker);
    for _ in 0..100_000 {
        match st.poll_next_unpin(&mut cx) {
            Poll::Pending => s.call(1, 0),
            Poll::Ready(Some(Ok(b))) => {
                s.call(1, 1);
                s.batches.push(tok::batch_rows(&b));
            }
            Poll::Ready(Some(Err(e))) => {
                s.call(1, 1);
                s.fail("decode", &variant(&e));
                break;
            }
            Poll::Ready(None) => break,
        }
    }
    s.schema = st.schema().map(|x| tok::schema_str(x)).unwrap_or_default();
    s
}

pub fn oneshot(_inp: &Inp, c: &FlightCfg) -> Sess {
    let mut s = Sess { ok: true, ..Default::default() };
    let mut st = FlightRecordBatchStream::new_from_flight_data(futures::stream::iter(c.msgs.clone().into_iter().map(Ok)));
    let r: Result<Vec<RecordBatch>, FlightError> = futures::executor::block_on((&mut st).try_collect());
    match r {
        Ok(bs) => s.batches = bs.iter().map(tok::batch_rows).collect(),
        Err(e) => {
            // try_collect drops the batches seen before the error; replay to recover them
            let mut st2 = FlightRecordBatchStream::new_from_flight_data(futures::stream::iter(c.msgs.clone().into_iter().map(Ok)));
            futures::executor::block_on(async {
                while let Some(Ok(b)) = st2.next().await {
                    s.batches.push(tok::batch_rows(&b));
                }
            });
            s.fail("decode", &variant(&e));
        }
    }
    s.schema = st.schema().map(|x| tok::schema_str(x)).unwrap_or_default();
    s
}

fn encode(batches: Vec<RecordBatch>, max: usize, dh: DictionaryHandling) -> Option<Vec<FlightData>> {
    let enc = FlightDataEncoderBuilder::new().with_max_flight_data_size(max).with_dictionary_handling(dh).build(futures::stream::iter(batches.into_iter().map(Ok)));
    futures::executor::block_on(enc.try_collect::<Vec<_>>()).ok()
}

fn fl_inp(name: &str, msgs: Vec<FlightData>) -> Inp {
    let n = msgs.len();
    Inp {
        fmt: "flight",
        name: name.to_string(),
        bytes: vec![],
        n,
        marks: (0..=n).collect(),
        bodies: vec![], must: vec![], batch_sizes: None, lean: false,
        cfg: Cfg::Flight(FlightCfg { msgs }),
        uses_bs: false,
        allow_empty: true,
        pinned: "",
        modes: vec![],
    }
}

pub fn inputs(rng: &mut Rng, _thorough: bool) -> Vec<Inp> {
    let mut out = vec![];
    let schema = Arc::new(Schema::new(vec![
        Field::new("i", DataType::Int32, true),
        Field::new("s", DataType::Utf8, true),
        Field::new("d", DataType::Dictionary(Box::new(DataType::Int8), Box::new(DataType::Utf8)), true),
    ]));
    let mk = |len: usize, rng: &mut Rng| {
        let i: Vec<Option<i32>> = (0..len).map(|_| if rng.chance(20) { None } else { Some(rng.range(-99, 99) as i32) }).collect();
        let sv: Vec<Option<String>> = (0..len).map(|k| if rng.chance(20) { None } else { Some("x".repeat(k % 9)) }).collect();
        let d: DictionaryArray<types::Int8Type> = (0..len).map(|k| if k % 4 == 3 { None } else { Some(["p", "q", "r"][k % 3]) }).collect();
        RecordBatch::try_new(schema.clone(), vec![Arc::new(Int32Array::from(i)), Arc::new(StringArray::from(sv)), Arc::new(d)]).unwrap()
    };
    let batches = vec![mk(5, rng), mk(0, rng), mk(9, rng)];
    if let Some(m) = encode(batches.clone(), 2 * 1024 * 1024, DictionaryHandling::Hydrate) {
        // damaged streams derived from the plain one
        if m.len() >= 2 {
            out.push(fl_inp("no-schema", m[1..].to_vec()));
            let mut twice = m.clone();
            twice.insert(2.min(m.len()), m[0].clone());
            out.push(fl_inp("second-schema", twice));
            let mut bad = m.clone();
            let k = m.len() - 1;
            let mut h = bad[k].data_header.to_vec();
            if h.len() > 12 {
                h[10] ^= 0x7f;
            }
            bad[k].data_header = h.into();
            out.push(fl_inp("bad-header", bad));
            let mut short = m.clone();
            let body = short[k].data_body.clone();
            short[k].data_body = body.slice(..body.len() / 2);
            out.push(fl_inp("short-body", short));
        }
        out.push(fl_inp("hydrate", m));
    }
    // a small message size limit splits the batches into several messages
    if let Some(m) = encode(batches.clone(), 64, DictionaryHandling::Hydrate) {
        out.push(fl_inp("split64", m));
    }
    if let Some(m) = encode(batches.clone(), 2 * 1024 * 1024, DictionaryHandling::Resend) {
        out.push(fl_inp("resend", m));
    }
    if let Some(m) = encode(vec![], 1024, DictionaryHandling::Hydrate) {
        out.push(fl_inp("no-batches", m));
    }
    out
}
