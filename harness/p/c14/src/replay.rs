//! spec -> impl: cases computed by TLC from CsvRecords.tla (Gen_CsvRecords) are fed to the real
//! arrow-csv Decoder under ALL chunkings; the rows and the outcome must be the specified ones.
//! Nothing is decided here beyond equality with what TLC wrote.
use crate::text::{run_csv, CsvCfg};
use crate::{Cfg, Inp};
use arrow_schema::{DataType, Field, Schema};
use std::sync::Arc;
use vcore::{json, Value};

fn concrete(text: &[Value]) -> Vec<u8> {
    text.iter()
        .enumerate()
        .map(|(i, c)| match c.as_str().unwrap_or("o") {
            "d" => b',',
            "q" => b'"',
            "r" => b'\r',
            "n" => b'\n',
            _ => b'a' + (i % 26) as u8,
        })
        .collect()
}

/// the token the harness would log for a field made of the input bytes at `pos` (1-based)
fn field_token(bytes: &[u8], pos: &[Value]) -> String {
    if pos.is_empty() {
        return "~".to_string(); // arrow-csv reads the empty string as null
    }
    let mut s = String::from("sx");
    for p in pos {
        s.push_str(&format!("{:02x}", bytes[p.as_u64().unwrap() as usize - 1]));
    }
    s
}

pub fn replay_csv(path: &str) {
    let mut replayed = 0usize;
    let mut sessions = 0usize;
    let mut mismatches = 0usize;
    for line in std::fs::read_to_string(path).unwrap().lines() {
        let Ok(case) = serde_json::from_str::<Value>(line) else { continue };
        let text = case["text"].as_array().cloned().unwrap_or_default();
        let bytes = concrete(&text);
        let ncols = case["ncols"].as_u64().unwrap() as usize;
        let bs = case["bs"].as_u64().unwrap() as usize;
        let want_ok = case["outcome"] == "ok";
        let want: Vec<Vec<String>> = case["batches"]
            .as_array()
            .map(|bs| {
                bs.iter()
                    .map(|b| {
                        b.as_array()
                            .unwrap()
                            .iter()
                            .map(|rec| rec.as_array().unwrap().iter().map(|f| field_token(&bytes, f.as_array().unwrap())).collect::<Vec<_>>().join("|"))
                            .collect()
                    })
                    .collect()
            })
            .unwrap_or_default();
        let schema = Arc::new(Schema::new((0..ncols).map(|i| Field::new(format!("c{i}"), DataType::Utf8, true)).collect::<Vec<_>>()));
        let cfg = CsvCfg { schema, header: false, escape: None, terminator: None, comment: None, truncated: false, bounds: None };
        let n = bytes.len();
        let inp = Inp { fmt: "csv", name: String::new(), bytes, n, marks: vec![], bodies: vec![], must: vec![], batch_sizes: None, lean: false, cfg: Cfg::Ipc(None), uses_bs: true, allow_empty: false, pinned: "", modes: vec![] };
        replayed += 1;
        // all 2^(n-1) chunkings
        let k = n.saturating_sub(1);
        for m in 0..(1usize << k) {
            let cuts: Vec<usize> = (0..k).filter(|i| m >> i & 1 == 1).map(|i| i + 1).collect();
            for mode in ["canon", "rolling"] {
                let s = vcore::guarded(|| run_csv(&inp, &cfg, &cuts, bs, mode));
                sessions += 1;
                let (ok, batches, cls) = match s {
                    Ok(s) => (s.ok, s.batches, s.cls),
                    Err(_) => (false, vec![], "panic".to_string()),
                };
                // on an error the model emits the full batches before it, as the implementation does
                if ok != want_ok || batches != want {
                    mismatches += 1;
                    if mismatches <= 20 {
                        println!("MISMATCH {}", json!({"case": case, "cuts": cuts, "mode": mode, "got_ok": ok, "got_cls": cls, "got": batches}));
                    }
                }
            }
        }
    }
    println!("REPLAYED {replayed}");
    println!("DRIVER c14-replay-csv cases={replayed} sessions={sessions} mismatches={mismatches}");
}
