//! Avro: (a) object container files read by `Reader` over a *chunked* `BufRead` (the chunking reaches the
//! push `HeaderDecoder` / `BlockDecoder` / `VLQDecoder`), against the same reader over the whole input;
//! (b) single-object / Confluent framing through the push `Decoder`.
//!
//! Decoder protocol (arrow-avro reader/mod.rs): `decode(data)` returns the number of bytes consumed, "which
//! may be 0 if more bytes are required, or less than data.len() if a prefix/body straddles the chunk
//! boundary"; unconsumed bytes are re-presented with the following bytes appended (rolling buffer);
//! `flush()` yields the rows completed so far and applies a pending schema switch.
use crate::{variant, Cfg, Inp, Sess};
use arrow_array::builder::{Int32Builder, ListBuilder};
use arrow_array::*;
use arrow_avro::reader::ReaderBuilder;
use arrow_avro::schema::{AvroSchema, Fingerprint, FingerprintAlgorithm, FingerprintStrategy, SchemaStore};
use arrow_avro::writer::format::AvroSoeFormat;
use arrow_avro::writer::WriterBuilder;
use arrow_schema::{DataType, Field, Schema};
use std::io::{BufRead, Read};
use std::sync::Arc;
use vcore::{tok, Rng};

// ------------------------------------------------------------------ OCF

/// BufRead over the chunks: `fill_buf` returns the rest of the current chunk (empty chunks are skipped:
/// for a BufRead an empty buffer means end of input)
struct Chunked<'a> {
    chunks: Vec<&'a [u8]>,
    idx: usize,
    off: usize,
    log: Vec<(usize, usize)>,
}

impl Read for Chunked<'_> {
    fn read(&mut self, out: &mut [u8]) -> std::io::Result<usize> {
        let b = self.fill_buf()?;
        let k = b.len().min(out.len());
        out[..k].copy_from_slice(&b[..k]);
        self.consume(k);
        Ok(k)
    }
}

impl BufRead for Chunked<'_> {
    fn fill_buf(&mut self) -> std::io::Result<&[u8]> {
        while self.idx < self.chunks.len() && self.off == self.chunks[self.idx].len() {
            self.idx += 1;
            self.off = 0;
        }
        if self.idx == self.chunks.len() {
            return Ok(&[]);
        }
        let b = &self.chunks[self.idx][self.off..];
        self.log.push((b.len(), 0));
        Ok(b)
    }
    fn consume(&mut self, n: usize) {
        self.off += n;
        if let Some(l) = self.log.last_mut() {
            l.1 += n;
        }
    }
}

fn read_all<R: BufRead>(s: &mut Sess, src: R, bs: usize) {
    let mut rd = match ReaderBuilder::new().with_batch_size(bs).build(src) {
        Ok(r) => r,
        Err(e) => {
            s.fail("open", &variant(&e));
            return;
        }
    };
    s.schema = tok::schema_str(&rd.schema());
    loop {
        match rd.next() {
            None => break,
            Some(Ok(b)) => s.batches.push(tok::batch_rows(&b)),
            Some(Err(e)) => {
                s.fail("read", &variant(&e));
                break;
            }
        }
    }
}

pub fn run_ocf(inp: &Inp, cuts: &[usize], bs: usize) -> Sess {
    let mut s = Sess { ok: true, ..Default::default() };
    let mut src = Chunked { chunks: inp.chunks(cuts), idx: 0, off: 0, log: vec![] };
    read_all(&mut s, &mut src, bs);
    for (o, c) in &src.log {
        s.call(*o, *c);
    }
    s
}

pub fn oneshot_ocf(inp: &Inp, bs: usize) -> Sess {
    let mut s = Sess { ok: true, ..Default::default() };
    read_all(&mut s, std::io::Cursor::new(inp.bytes.clone()), bs);
    s
}

fn varint(b: &[u8], pos: &mut usize) -> Option<i64> {
    let mut v: u64 = 0;
    let mut shift = 0;
    loop {
        let x = *b.get(*pos)?;
        *pos += 1;
        v |= ((x & 0x7f) as u64) << shift;
        if x & 0x80 == 0 {
            break;
        }
        shift += 7;
        if shift > 63 {
            return None;
        }
    }
    Some((v >> 1) as i64 ^ -((v & 1) as i64))
}

/// structural positions of an OCF: header end, and for every block the ends of count / size / data / sync
fn ocf_marks(bytes: &[u8]) -> Vec<usize> {
    let mut m = vec![4usize];
    let Ok(h) = arrow_avro::reader::read_header_info(std::io::Cursor::new(bytes)) else { return m };
    let mut pos = h.header_len() as usize;
    m.push(pos - 16);
    m.push(pos);
    while pos < bytes.len() {
        let Some(_count) = varint(bytes, &mut pos) else { break };
        m.push(pos);
        let Some(size) = varint(bytes, &mut pos) else { break };
        m.push(pos);
        if size < 0 || pos + size as usize + 16 > bytes.len() {
            break;
        }
        // a few positions inside the block data as well
        let sz = size as usize;
        for k in [1usize, sz / 2] {
            if k < sz {
                m.push(pos + k);
            }
        }
        pos += sz;
        m.push(pos);
        pos += 16;
        m.push(pos);
    }
    m
}

/// every byte position of the framing varints of the header (metadata map) and the first 40 bytes of
/// every block (count, size and the first record bytes): cut positions that are always exercised
fn ocf_must(bytes: &[u8]) -> Vec<usize> {
    let mut m = vec![];
    let mut pos = 4usize;
    // header metadata map: blocks of (count [size] (keylen key vallen val)*) until count 0
    'map: loop {
        let s0 = pos;
        let Some(mut cnt) = varint(bytes, &mut pos) else { return m };
        m.extend(s0..=pos);
        if cnt == 0 {
            break 'map;
        }
        if cnt < 0 {
            let s1 = pos;
            if varint(bytes, &mut pos).is_none() {
                return m;
            }
            m.extend(s1..=pos);
            cnt = -cnt;
        }
        for _ in 0..(2 * cnt) {
            let s1 = pos;
            let Some(len) = varint(bytes, &mut pos) else { return m };
            m.extend(s1..=pos);
            if len < 0 || pos + len as usize > bytes.len() {
                return m;
            }
            pos += len as usize;
        }
    }
    pos += 16;
    while pos < bytes.len() {
        let start = pos;
        m.extend(start..(start + 40).min(bytes.len()));
        let Some(_c) = varint(bytes, &mut pos) else { break };
        let Some(size) = varint(bytes, &mut pos) else { break };
        if size < 0 || pos + size as usize + 16 > bytes.len() {
            break;
        }
        pos += size as usize;
        // the sync marker and the step to the next block
        m.extend(pos..=(pos + 16).min(bytes.len()));
        pos += 16;
    }
    m
}

/// an OCF whose framing varints have the interesting encodings (leading 0x80 bytes, ...)
fn ocf_varint_inp(name: &str, bytes: Vec<u8>, rows: usize) -> Inp {
    let mut i = ocf_inp(name, bytes);
    i.must = ocf_must(&i.bytes);
    if rows > 1000 {
        i.batch_sizes = Some(vec![1024]);
        i.lean = true;
    } else {
        i.batch_sizes = Some(vec![1, 3, 1024]);
    }
    i
}

fn ocf_inp(name: &str, bytes: Vec<u8>) -> Inp {
    Inp {
        fmt: "avro-ocf",
        name: name.to_string(),
        n: bytes.len(),
        marks: ocf_marks(&bytes),
        bytes,
        bodies: vec![], must: vec![], batch_sizes: None, lean: false,
        cfg: Cfg::AvroOcf,
        uses_bs: true,
        allow_empty: false,
        pinned: "",
        modes: vec![],
    }
}

fn write_ocf(schema: &Schema, batches: &[RecordBatch], codec: Option<arrow_avro::compression::CompressionCodec>) -> Option<Vec<u8>> {
    let mut w = WriterBuilder::new(schema.clone()).with_compression(codec).build::<_, arrow_avro::writer::format::AvroOcfFormat>(Vec::new()).ok()?;
    for b in batches {
        w.write(b).ok()?;
    }
    w.finish().ok()?;
    Some(w.into_inner())
}

fn sample_batches(rng: &mut Rng) -> (Arc<Schema>, Vec<RecordBatch>) {
    let schema = Arc::new(Schema::new(vec![
        Field::new("x", DataType::Int64, false),
        Field::new("s", DataType::Utf8, false),
        Field::new("n", DataType::Int32, true),
        Field::new("d", DataType::Float64, false),
        Field::new("b", DataType::Boolean, false),
    ]));
    let words = ["", "a", "hello", "h\u{e9}llo \u{1F600}", "0123456789abcdefghijklmnopqrstuvwxyz-0123456789abcdefghijklmnopqrstuvwxyz-0123456789abcdefghijklmnopqrstuvwxyz-0123456789abcdefghijklmnopqrstuvwxyz"];
    let mut batches = vec![];
    for len in [3usize, 0, 4, 1] {
        let x: Vec<i64> = (0..len).map(|_| *rng.pick(&[0i64, -1, 63, 64, -65, 8191, 8192, i64::MAX, i64::MIN, 300])).collect();
        let s: Vec<&str> = (0..len).map(|_| *rng.pick(&words)).collect();
        let n: Vec<Option<i32>> = (0..len).map(|_| if rng.chance(30) { None } else { Some(rng.range(-70000, 70000) as i32) }).collect();
        let d: Vec<f64> = (0..len).map(|_| rng.range(-100, 100) as f64 / 4.0).collect();
        let b: Vec<bool> = (0..len).map(|_| rng.chance(50)).collect();
        batches.push(
            RecordBatch::try_new(
                schema.clone(),
                vec![Arc::new(Int64Array::from(x)), Arc::new(StringArray::from(s)), Arc::new(Int32Array::from(n)), Arc::new(Float64Array::from(d)), Arc::new(BooleanArray::from(b))],
            )
            .unwrap(),
        );
    }
    (schema, batches)
}

fn nested_batches() -> (Arc<Schema>, Vec<RecordBatch>) {
    let mut lb = ListBuilder::new(Int32Builder::new());
    lb.append_value([Some(1), Some(-2), Some(300)]);
    lb.append_value([] as [Option<i32>; 0]);
    lb.append_value([Some(70000)]);
    let list = lb.finish();
    let schema = Arc::new(Schema::new(vec![
        Field::new("l", list.data_type().clone(), false),
        Field::new("bin", DataType::Binary, true),
    ]));
    let b = RecordBatch::try_new(schema.clone(), vec![Arc::new(list), Arc::new(BinaryArray::from(vec![Some(&b"\x00\x01"[..]), None, Some(&b""[..])]))]).unwrap();
    (schema, vec![b.clone(), b.slice(1, 2)])
}

/// Inputs whose framing varints hit the encodings with leading 0x80 bytes: zig-zag of 64 is 0x80 0x01, of
/// 128 is 0x80 0x02, of 8192 is 0x80 0x80 0x01, of 16384 is 0x80 0x80 0x02 (the low 7-bit groups are zero, so a
/// decoder that tells "nothing read yet" from the accumulated value instead of the shift goes wrong when the
/// chunk ends right behind those bytes); 63 / 65 as controls.
fn varint_inputs(out: &mut Vec<Inp>, thorough: bool) {
    let ls = Arc::new(Schema::new(vec![Field::new("v", DataType::Int64, false)]));
    let longs = |vals: Vec<i64>| RecordBatch::try_new(ls.clone(), vec![Arc::new(Int64Array::from(vals))]).unwrap();
    // one-byte values: block count = block byte size = number of rows
    let one = |n: usize| longs((0..n).map(|i| (i % 64) as i64).collect());
    // two-byte values (64..8191): block byte size = 2 * number of rows
    let two = |n: usize| longs((0..n).map(|i| 64 + (i % 1000) as i64).collect());
    let mut add = |name: &str, batches: Vec<RecordBatch>| {
        let rows: usize = batches.iter().map(|b| b.num_rows()).sum();
        if let Some(b) = write_ocf(&ls, &batches, None) {
            out.push(ocf_varint_inp(name, b, rows));
        }
    };
    add("vl-count64", vec![one(64)]);
    add("vl-count63", vec![one(63)]);
    add("vl-count65", vec![one(65)]);
    add("vl-count128", vec![one(128)]);
    add("vl-size64", vec![two(32)]); // 32 records in 64 bytes
    add("vl-size128-count64", vec![two(64)]);
    add("vl-blocks", vec![one(64), one(63), two(32), one(128), one(1)]);
    add("vl-count8192", vec![one(8192)]);
    add("vl-count16384", vec![one(16384)]);
    if thorough {
        add("vl-size8192", vec![two(4096)]);
        add("vl-size16384-count8192", vec![two(8192)]);
        add("vl-blocks-big", vec![one(8192), one(64), one(16384)]);
    }
    // string / bytes field lengths of 64 and 8192
    let ss = Arc::new(Schema::new(vec![Field::new("s", DataType::Utf8, false), Field::new("b", DataType::Binary, false)]));
    let s64 = "x".repeat(64);
    let s8192 = "y".repeat(8192);
    let strs = RecordBatch::try_new(
        ss.clone(),
        vec![
            Arc::new(StringArray::from(vec![s64.as_str(), "a", s8192.as_str(), s64.as_str()])),
            Arc::new(BinaryArray::from(vec![&[7u8; 64][..], &[1u8; 63][..], &[2u8; 65][..], &[3u8; 128][..]])),
        ],
    )
    .unwrap();
    if let Some(b) = write_ocf(&ss, &[strs.slice(0, 2), strs.slice(2, 2)], None) {
        let mut i = ocf_varint_inp("vl-strlen", b, 4);
        i.batch_sizes = Some(vec![1, 1024]);
        out.push(i);
    }
    // the schema JSON (a header metadata value) padded to 64·n bytes through the record's doc string
    let json_len = |bytes: &[u8]| -> Option<usize> {
        // header: magic, map count, key length, key "avro.schema", value length
        let mut pos = 4usize;
        varint(bytes, &mut pos)?;
        let k = varint(bytes, &mut pos)? as usize;
        pos += k;
        varint(bytes, &mut pos).map(|v| v as usize)
    };
    let with_doc = |doc: String| -> Option<Vec<u8>> {
        let md = std::collections::HashMap::from([(arrow_avro::schema::AVRO_DOC_METADATA_KEY.to_string(), doc)]);
        let schema = Schema::new_with_metadata(ls.fields().clone(), md);
        let b = RecordBatch::try_new(Arc::new(schema.clone()), vec![Arc::new(Int64Array::from(vec![1i64, 2, 3]))]).ok()?;
        write_ocf(&schema, &[b], None)
    };
    if let Some(l0) = with_doc(String::new()).and_then(|b| json_len(&b)) {
        for target in [128usize, 192, 8192, 16384] {
            if target < l0 {
                continue;
            }
            if let Some(bytes) = with_doc("d".repeat(target - l0)) {
                if json_len(&bytes) == Some(target) {
                    out.push(ocf_varint_inp(&format!("vl-schema-json{target}"), bytes, 3));
                }
            }
        }
    }
}

// ------------------------------------------------------------------ single-object / Confluent framing

#[derive(Clone)]
pub struct SoeCfg {
    pub store: SchemaStore,
}

pub fn run_soe(inp: &Inp, c: &SoeCfg, cuts: &[usize], bs: usize, mode: &str) -> Sess {
    let mut s = Sess { ok: true, ..Default::default() };
    let mut dec = match ReaderBuilder::new().with_writer_schema_store(c.store.clone()).with_batch_size(bs).build_decoder() {
        Ok(d) => d,
        Err(e) => {
            s.fail("open", &variant(&e));
            return s;
        }
    };
    let mut schemas: Vec<String> = vec![];
    macro_rules! flush {
        () => {
            match dec.flush() {
                Ok(Some(b)) => {
                    let sc = tok::schema_str(&b.schema());
                    if schemas.last() != Some(&sc) {
                        schemas.push(sc);
                    }
                    s.batches.push(tok::batch_rows(&b));
                    true
                }
                Ok(None) => false,
                Err(e) => {
                    s.fail("flush", &variant(&e));
                    s.schema = schemas.join("|");
                    return s;
                }
            }
        };
    }
    let mut pending: Vec<u8> = vec![];
    for chunk in inp.chunks(cuts) {
        pending.extend_from_slice(chunk);
        loop {
            if pending.is_empty() {
                break;
            }
            let n = match dec.decode(&pending) {
                Ok(n) => n,
                Err(e) => {
                    s.call(pending.len(), 0);
                    s.fail("decode", &variant(&e));
                    s.schema = schemas.join("|");
                    return s;
                }
            };
            s.call(pending.len(), n);
            pending.drain(..n);
            if dec.batch_is_full() {
                flush!();
                continue;
            }
            if n == 0 {
                break; // more bytes are required
            }
        }
        if mode == "early" {
            flush!();
        }
    }
    while flush!() {}
    s.schema = schemas.join("|");
    if !pending.is_empty() {
        // the input ended inside a prefix or a record body
        s.fail("end", "Truncated");
    }
    s
}

fn soe_rows(schema: &Schema, batches: &[RecordBatch], strat: FingerprintStrategy) -> Option<(Vec<u8>, Vec<usize>)> {
    let mut enc = WriterBuilder::new(schema.clone()).with_fingerprint_strategy(strat).build_encoder::<AvroSoeFormat>().ok()?;
    for b in batches {
        enc.encode(b).ok()?;
    }
    let rows = enc.flush();
    Some((rows.bytes().to_vec(), rows.offsets().to_vec()))
}

fn soe_inp(name: &str, bytes: Vec<u8>, offsets: &[usize], prefix: usize, store: SchemaStore) -> Inp {
    let mut marks = vec![];
    let mut bodies = vec![];
    for w in offsets.windows(2) {
        marks.push(w[0]);
        marks.push(w[0] + 1);
        marks.push(w[0] + prefix);
        if w[0] + prefix < bytes.len() {
            bodies.push((w[0] + prefix, w[1].min(bytes.len())));
        }
    }
    Inp {
        fmt: if prefix == 10 { "avro-soe" } else { "avro-confluent" },
        name: name.to_string(),
        n: bytes.len(),
        marks,
        bytes,
        bodies, must: vec![], batch_sizes: None, lean: false,
        cfg: Cfg::AvroSoe(SoeCfg { store }),
        uses_bs: true,
        allow_empty: true,
        pinned: "",
        modes: vec!["early"],
    }
}

pub fn inputs(rng: &mut Rng, thorough: bool) -> Vec<Inp> {
    let mut out = vec![];
    // ---- OCF
    let (schema, batches) = sample_batches(rng);
    if let Some(b) = write_ocf(&schema, &batches, None) {
        // damaged variants first need the structure
        let marks = ocf_marks(&b);
        out.push(ocf_inp("mixed", b.clone()));
        let hdr_end = marks.get(2).copied().unwrap_or(0);
        if hdr_end > 0 && b.len() > hdr_end + 40 {
            // truncated inside the header, inside the first block, inside the last sync marker
            out.push(ocf_inp("trunc-header", b[..hdr_end - 7].to_vec()));
            out.push(ocf_inp("trunc-block", b[..hdr_end + 9].to_vec()));
            out.push(ocf_inp("trunc-sync", b[..b.len() - 5].to_vec()));
            out.push(ocf_inp("header-only", b[..hdr_end].to_vec()));
            // bad sync marker of the first block
            if let Some(&first_sync_end) = marks.iter().find(|&&p| p > hdr_end + 16 && marks.contains(&(p - 16))) {
                let mut c = b.clone();
                c[first_sync_end - 3] ^= 0xff;
                out.push(ocf_inp("bad-sync", c));
            }
            // corrupted block size (one more / one less)
            let mut c = b.clone();
            c[hdr_end + 1] = c[hdr_end + 1].wrapping_add(2);
            out.push(ocf_inp("bad-size", c));
            // corrupted magic
            let mut c = b.clone();
            c[2] = b'k';
            out.push(ocf_inp("bad-magic", c));
            // a corrupted byte in the record data (a varint continuation bit)
            let mut c = b.clone();
            c[hdr_end + 3] |= 0x80;
            out.push(ocf_inp("bad-data", c));
        }
    }
    if let Some(b) = write_ocf(&schema, &batches[..1], Some(arrow_avro::compression::CompressionCodec::Deflate)) {
        out.push(ocf_inp("deflate", b));
    }
    let (ns, nb) = nested_batches();
    if let Some(b) = write_ocf(&ns, &nb, None) {
        out.push(ocf_inp("nested", b));
    }
    if let Some(b) = write_ocf(&schema, &[], None) {
        out.push(ocf_inp("no-blocks", b));
    }
    out.push(ocf_inp("empty", vec![]));
    varint_inputs(&mut out, thorough);

    // ---- single-object framing (Rabin fingerprint): DESIGN 5.1 example first
    let xs = Arc::new(Schema::new(vec![Field::new("x", DataType::Int64, false), Field::new("s", DataType::Utf8, false)]));
    let xb = RecordBatch::try_new(xs.clone(), vec![Arc::new(Int64Array::from(vec![1i64, -2])), Arc::new(StringArray::from(vec!["hello", "arrow"]))]).unwrap();
    let reg = |schemas: &[&Schema]| -> Option<SchemaStore> {
        let mut st = SchemaStore::new();
        for s in schemas {
            st.register(AvroSchema::try_from(*s).ok()?).ok()?;
        }
        Some(st)
    };
    if let (Some((bytes, offs)), Some(store)) = (soe_rows(&xs, &[xb.clone()], FingerprintStrategy::Rabin), reg(&[&xs])) {
        out.push(soe_inp("long-string", bytes.clone(), &offs, 10, store.clone()));
        // truncated inside the last body / inside a prefix; an unknown fingerprint; a wrong magic
        out.push(soe_inp("trunc-body", bytes[..bytes.len() - 2].to_vec(), &offs, 10, store.clone()));
        out.push(soe_inp("trunc-prefix", bytes[..offs[1] + 4].to_vec(), &offs[..2], 10, store.clone()));
        let mut c = bytes.clone();
        c[offs[1] + 5] ^= 0x55;
        out.push(soe_inp("unknown-fingerprint", c, &offs, 10, store.clone()));
        let mut c = bytes.clone();
        c[offs[1]] = 0xC4;
        out.push(soe_inp("bad-magic", c, &offs, 10, store.clone()));
    }
    // one long column only: bodies are single (multi-byte) varints
    let ls = Arc::new(Schema::new(vec![Field::new("v", DataType::Int64, false)]));
    let lbatch = RecordBatch::try_new(ls.clone(), vec![Arc::new(Int64Array::from(vec![0i64, -1, 64, 8192, i64::MIN, 5, 6, 7]))]).unwrap();
    if let (Some((bytes, offs)), Some(store)) = (soe_rows(&ls, &[lbatch.clone()], FingerprintStrategy::Rabin), reg(&[&ls])) {
        out.push(soe_inp("longs", bytes, &offs, 10, store));
    }
    let (ms, mb) = sample_batches(rng);
    if let (Some((bytes, offs)), Some(store)) = (soe_rows(&ms, &mb, FingerprintStrategy::Rabin), reg(&[&ms])) {
        out.push(soe_inp("mixed", bytes, &offs, 10, store));
    }
    // list / binary columns: a body cut inside a list
    let (ns2, nb2) = nested_batches();
    if let (Some((bytes, offs)), Some(store)) = (soe_rows(&ns2, &nb2, FingerprintStrategy::Rabin), reg(&[&ns2])) {
        out.push(soe_inp("nested", bytes, &offs, 10, store));
    }
    // two string columns (the same type twice)
    let ss = Arc::new(Schema::new(vec![Field::new("a", DataType::Utf8, false), Field::new("b", DataType::Utf8, false)]));
    let sb = RecordBatch::try_new(ss.clone(), vec![Arc::new(StringArray::from(vec!["ab", "cde", ""])), Arc::new(StringArray::from(vec!["xyz", "", "w"]))]).unwrap();
    if let (Some((bytes, offs)), Some(store)) = (soe_rows(&ss, &[sb], FingerprintStrategy::Rabin), reg(&[&ss])) {
        out.push(soe_inp("two-strings", bytes, &offs, 10, store));
    }
    // string lengths whose varint has a leading 0x80 byte
    let s1 = Arc::new(Schema::new(vec![Field::new("s", DataType::Utf8, false)]));
    let w64 = "z".repeat(64);
    let sb1 = RecordBatch::try_new(s1.clone(), vec![Arc::new(StringArray::from(vec![w64.as_str(), "q", w64.as_str()]))]).unwrap();
    if let (Some((bytes, offs)), Some(store)) = (soe_rows(&s1, &[sb1], FingerprintStrategy::Rabin), reg(&[&s1])) {
        let mut i = soe_inp("vl-strlen64", bytes, &offs, 10, store);
        // every position of the prefix and the length varint of each record
        i.must = offs.iter().flat_map(|o| (*o..*o + 13)).collect();
        out.push(i);
    }
    // two writer schemas on one stream: schema switches take effect at flush
    if let (Some((b1, o1)), Some((b2, o2)), Some(store)) =
        (soe_rows(&xs, &[xb.clone()], FingerprintStrategy::Rabin), soe_rows(&ls, &[lbatch.slice(0, 3)], FingerprintStrategy::Rabin), reg(&[&xs, &ls]))
    {
        let mut bytes = b1.clone();
        let mut offs = o1.clone();
        for (src, so) in [(&b2, &o2), (&b1, &o1), (&b2, &o2)] {
            let base = bytes.len();
            bytes.extend_from_slice(src);
            offs.extend(so.iter().skip(1).map(|x| x + base));
        }
        out.push(soe_inp("schema-switch", bytes, &offs, 10, store));
    }
    // ---- Confluent framing (magic 0x00 + 4-byte big-endian id)
    let mut cstore = SchemaStore::new_with_type(FingerprintAlgorithm::Id);
    let ok1 = AvroSchema::try_from(xs.as_ref()).ok().and_then(|a| cstore.set(Fingerprint::Id(7), a).ok()).is_some();
    let ok2 = AvroSchema::try_from(ls.as_ref()).ok().and_then(|a| cstore.set(Fingerprint::Id(300), a).ok()).is_some();
    if ok1 && ok2 {
        if let Some((bytes, offs)) = soe_rows(&xs, &[xb.clone()], FingerprintStrategy::Id(7)) {
            out.push(soe_inp("long-string", bytes, &offs, 5, cstore.clone()));
        }
        if let (Some((b1, o1)), Some((b2, o2))) = (soe_rows(&ls, &[lbatch.slice(0, 4)], FingerprintStrategy::Id(300)), soe_rows(&xs, &[xb.clone()], FingerprintStrategy::Id(7))) {
            let mut bytes = b1.clone();
            let mut offs = o1.clone();
            let base = bytes.len();
            bytes.extend_from_slice(&b2);
            offs.extend(o2.iter().skip(1).map(|x| x + base));
            out.push(soe_inp("schema-switch", bytes, &offs, 5, cstore.clone()));
        }
    }
    let _ = thorough;
    out
}

/// probe (not part of the check): an OCF block whose count is smaller than the rows its bytes hold
pub fn probe_count() {
    let mut rng = Rng::new(1);
    let (schema, batches) = sample_batches(&mut rng);
    let b = write_ocf(&schema, &batches[..1], None).unwrap();
    let marks = ocf_marks(&b);
    let hdr_end = marks[2];
    let mut c = b.clone();
    println!("count byte {:#x}", c[hdr_end]);
    c[hdr_end] -= 2; // zig-zag: one row less
    let (tx, rx) = std::sync::mpsc::channel();
    std::thread::spawn(move || {
        let inp = ocf_inp("probe", c);
        let s = oneshot_ocf(&inp, 1024);
        let _ = tx.send((s.ok, s.cls, s.batches.iter().map(|b| b.len()).sum::<usize>()));
    });
    match rx.recv_timeout(std::time::Duration::from_secs(5)) {
        Ok(r) => println!("returned {r:?}"),
        Err(_) => println!("NO RETURN within 5 s (reader spins)"),
    }
}
