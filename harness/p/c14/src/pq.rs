//! Parquet footer metadata: `ParquetMetaDataPushDecoder` (push) vs `ParquetMetaDataReader` (pull).
//!
//! Protocol (push_decoder.rs): `try_decode()` returns `NeedsData(ranges)` until the ranges were pushed;
//! any other data may be pushed speculatively ("prefetching").  The chunking of a session is the set of
//! pieces in which the file was pushed speculatively; requested ranges not covered by a *single* pushed
//! piece are then supplied exactly as requested (PushBuffers does not coalesce: DESIGN appendix A).
use crate::{schema_id, variant, Cfg, Inp, Sess};
use arrow_array::*;
use arrow_schema::{DataType, Field, Schema};
use bytes::Bytes;
use parquet::arrow::ArrowWriter;
use parquet::file::metadata::{PageIndexPolicy, ParquetMetaData, ParquetMetaDataPushDecoder, ParquetMetaDataReader};
use parquet::file::properties::{EnabledStatistics, WriterProperties};
use parquet::DecodeResult;
use std::sync::Arc;
use vcore::Rng;

#[derive(Clone)]
pub struct PqCfg {
    pub policy: PageIndexPolicy,
    /// the length announced to the decoder (may differ from the real length for damaged inputs)
    pub file_len: u64,
}

fn project(m: &ParquetMetaData) -> Vec<String> {
    let mut t = vec![format!("file:{}", schema_id(&format!("{:?}", m.file_metadata()))), format!("rows:{}", m.file_metadata().num_rows())];
    for (i, rg) in m.row_groups().iter().enumerate() {
        t.push(format!("rg{i}:{}:{}", rg.num_rows(), schema_id(&format!("{rg:?}"))));
    }
    for (i, rg) in m.row_groups().iter().enumerate() {
        for j in 0..rg.num_columns() {
            let ci = m.page_index().and_then(|p| p.column_index(i, j)).map(|x| schema_id(&format!("{x:?}"))).unwrap_or_else(|| "none".into());
            let oi = m.page_index().and_then(|p| p.offset_index(i, j)).map(|x| schema_id(&format!("{x:?}"))).unwrap_or_else(|| "none".into());
            t.push(format!("pi{i}.{j}:{ci}:{oi}"));
        }
    }
    t
}

pub fn run(inp: &Inp, c: &PqCfg, cuts: &[usize], mode: &str) -> Sess {
    let mut s = Sess { ok: true, ..Default::default() };
    let file = Bytes::from(inp.bytes.clone());
    let n = file.len();
    let mut dec = match ParquetMetaDataPushDecoder::try_new(c.file_len) {
        Ok(d) => d.with_page_index_policy(c.policy),
        Err(e) => {
            s.fail("open", &variant(&e));
            return s;
        }
    };
    // the pieces, last first (a reader of footers fetches from the end)
    let mut bounds: Vec<usize> = vec![0];
    bounds.extend_from_slice(cuts);
    bounds.push(n);
    let mut pieces: Vec<(usize, usize)> = bounds.windows(2).map(|w| (w[0], w[1])).filter(|(a, b)| a < b).collect();
    pieces.reverse();
    if mode == "tail" {
        pieces.truncate(1);
    }
    if mode == "exact" {
        pieces.clear();
    }
    let mut next_piece = 0;
    if mode != "stepwise" {
        for (a, b) in &pieces {
            if let Err(e) = dec.push_range(*a as u64..*b as u64, file.slice(*a..*b)) {
                s.fail("push", &variant(&e));
                return s;
            }
        }
        next_piece = pieces.len();
    }
    for _ in 0..10_000 {
        match dec.try_decode() {
            Ok(DecodeResult::Data(m)) => {
                s.batches.push(project(&m));
                s.schema = format!("{:?}", m.file_metadata().schema_descr().root_schema());
                return s;
            }
            Ok(DecodeResult::Finished) => {
                s.fail("decode", "FinishedWithoutData");
                return s;
            }
            Ok(DecodeResult::NeedsData(ranges)) => {
                if next_piece < pieces.len() {
                    // stepwise: deliver the next speculative piece and ask again
                    let (a, b) = pieces[next_piece];
                    next_piece += 1;
                    if let Err(e) = dec.push_range(a as u64..b as u64, file.slice(a..b)) {
                        s.fail("push", &variant(&e));
                        return s;
                    }
                    continue;
                }
                let mut bufs = vec![];
                for r in &ranges {
                    if r.start > r.end || r.end > n as u64 {
                        s.fail("decode", "RangeOutsideFile");
                        return s;
                    }
                    s.call((r.end - r.start) as usize, (r.end - r.start) as usize);
                    bufs.push(file.slice(r.start as usize..r.end as usize));
                }
                if let Err(e) = dec.push_ranges(ranges, bufs) {
                    s.fail("push", &variant(&e));
                    return s;
                }
            }
            Err(e) => {
                s.fail("decode", &variant(&e));
                return s;
            }
        }
    }
    s.fail("decode", "NoProgress");
    s
}

pub fn oneshot(inp: &Inp, c: &PqCfg) -> Sess {
    let mut s = Sess { ok: true, ..Default::default() };
    let file = Bytes::from(inp.bytes.clone());
    match ParquetMetaDataReader::new().with_page_index_policy(c.policy).parse_and_finish(&file) {
        Ok(m) => {
            s.batches.push(project(&m));
            s.schema = format!("{:?}", m.file_metadata().schema_descr().root_schema());
        }
        Err(e) => s.fail("read", &variant(&e)),
    }
    s
}

fn pq_inp(name: &str, bytes: Vec<u8>, policy: PageIndexPolicy, marks: Vec<usize>, pinned: &'static str) -> Inp {
    Inp {
        fmt: "parquet-meta",
        name: name.to_string(),
        n: bytes.len(),
        marks,
        cfg: Cfg::Pq(PqCfg { policy, file_len: bytes.len() as u64 }),
        bytes,
        bodies: vec![], must: vec![], batch_sizes: None, lean: false,
        uses_bs: false,
        allow_empty: true,
        pinned,
        modes: vec!["tail", "stepwise", "exact"],
    }
}

fn write_file(stats: EnabledStatistics, rng: &mut Rng) -> Vec<u8> {
    let schema = Arc::new(Schema::new(vec![
        Field::new("a", DataType::Int32, true),
        Field::new("s", DataType::Utf8, true),
        Field::new("f", DataType::Float64, false),
    ]));
    let props = WriterProperties::builder().set_max_row_group_row_count(Some(5)).set_data_page_row_count_limit(2).set_write_batch_size(2).set_statistics_enabled(stats).build();
    let mut buf = Vec::new();
    {
        let mut w = ArrowWriter::try_new(&mut buf, schema.clone(), Some(props)).unwrap();
        for len in [4usize, 5, 3] {
            let a: Vec<Option<i32>> = (0..len).map(|_| if rng.chance(20) { None } else { Some(rng.range(-50, 50) as i32) }).collect();
            let sv: Vec<Option<String>> = (0..len).map(|i| if rng.chance(20) { None } else { Some(format!("v{}", i * 7 % 5)) }).collect();
            let f: Vec<f64> = (0..len).map(|_| rng.range(-9, 9) as f64 / 2.0).collect();
            let b = RecordBatch::try_new(schema.clone(), vec![Arc::new(Int32Array::from(a)), Arc::new(StringArray::from(sv)), Arc::new(Float64Array::from(f))]).unwrap();
            w.write(&b).unwrap();
        }
        w.close().unwrap();
    }
    buf
}

pub fn inputs(rng: &mut Rng, _thorough: bool) -> Vec<Inp> {
    let mut out = vec![];
    let file = write_file(EnabledStatistics::Page, rng);
    let n = file.len();
    // structural positions: footer tail, metadata start, page index range
    let mut marks = vec![n - 8, n - 4];
    let meta_len = u32::from_le_bytes(file[n - 8..n - 4].try_into().unwrap()) as usize;
    if meta_len + 8 <= n {
        marks.push(n - 8 - meta_len);
    }
    if let Ok(m) = ParquetMetaDataReader::new().with_page_index_policy(PageIndexPolicy::Optional).parse_and_finish(&Bytes::from(file.clone())) {
        for rg in m.row_groups() {
            for c in rg.columns() {
                for (o, l) in [(c.column_index_offset(), c.column_index_length()), (c.offset_index_offset(), c.offset_index_length())] {
                    if let (Some(o), Some(l)) = (o, l) {
                        marks.push(o as usize);
                        marks.push(o as usize + l as usize);
                    }
                }
            }
        }
    }
    marks.sort();
    marks.dedup();
    out.push(pq_inp("index-optional", file.clone(), PageIndexPolicy::Optional, marks.clone(), ""));
    out.push(pq_inp("index-skip", file.clone(), PageIndexPolicy::Skip, marks.clone(), ""));
    out.push(pq_inp("index-required", file.clone(), PageIndexPolicy::Required, marks.clone(), ""));
    let nostats = write_file(EnabledStatistics::None, rng);
    let m2 = vec![nostats.len() - 8, nostats.len() - 4];
    out.push(pq_inp("nostats-required", nostats.clone(), PageIndexPolicy::Required, m2.clone(), ""));
    out.push(pq_inp("nostats-optional", nostats, PageIndexPolicy::Optional, m2, ""));
    // damaged: magic, metadata length (beyond the file / slightly wrong), a byte of the thrift metadata, truncation
    let mut c = file.clone();
    c[n - 1] = b'X';
    out.push(pq_inp("bad-magic", c, PageIndexPolicy::Optional, marks.clone(), ""));
    let mut c = file.clone();
    c[n - 8..n - 4].copy_from_slice(&(n as u32 + 10).to_le_bytes());
    out.push(pq_inp("len-beyond-file", c, PageIndexPolicy::Optional, marks.clone(), ""));
    let mut c = file.clone();
    c[n - 8..n - 4].copy_from_slice(&(meta_len as u32 - 3).to_le_bytes());
    out.push(pq_inp("len-short", c, PageIndexPolicy::Optional, marks.clone(), ""));
    let mut c = file.clone();
    c[n - 8 - meta_len / 2] ^= 0x5a;
    out.push(pq_inp("bad-thrift", c, PageIndexPolicy::Optional, marks.clone(), ""));
    out.push(pq_inp("truncated", file[..n - 3].to_vec(), PageIndexPolicy::Optional, vec![n - 11], ""));
    out.push(pq_inp("tiny", file[..5].to_vec(), PageIndexPolicy::Optional, vec![], ""));
    out
}
