//! Nesting grid (inputs only): every type family that has its own buffer-slicing code in the IPC writer,
//! as the child of every container kind, written (a) unsliced, (b) with the batch sliced at an offset that
//! is not a multiple of 8, (c) with the child itself carrying a non-zero offset, (d) both.
//! One session = 4 columns (4 different (container, family) pairs) x 4 batches (the 4 modes) cut from the
//! same base columns, so that dictionaries stay logically the same from batch to batch.
use crate::episodes::Episode;
use arrow_array::*;
use arrow_schema::{DataType, Field, Fields, Schema, UnionFields, UnionMode};
use std::sync::Arc;
use vcore::mk::{self, Cfg};
use vcore::{mutate, tok, Rng};

fn fld(name: &str, t: DataType, nullable: bool) -> Arc<Field> {
    Arc::new(Field::new(name, t, nullable))
}

pub const FAMILIES: [&str; 17] = [
    "bool", "prim", "bytes", "view", "fsb", "list", "llist", "lview", "llview", "fsl", "struct", "map", "dict", "ree", "usparse", "udense", "null",
];
pub const CONTAINERS: [&str; 11] = ["list", "llist", "lview", "llview", "fsl", "struct", "map", "dict", "ree", "usparse", "udense"];
pub const MODES: [&str; 4] = ["unsliced", "sliced", "child-offset", "child-offset+sliced"];

pub fn family_type(rng: &mut Rng, fam: &str) -> DataType {
    use DataType::*;
    match fam {
        "bool" => Boolean,
        "prim" => rng.pick(&[Int32, Int64, Float64, Int8, Decimal128(20, 2), Timestamp(arrow_schema::TimeUnit::Millisecond, None)]).clone(),
        "bytes" => rng.pick(&[Utf8, LargeUtf8, Binary, LargeBinary]).clone(),
        "view" => rng.pick(&[Utf8View, BinaryView]).clone(),
        "fsb" => FixedSizeBinary(3),
        "list" => List(fld("item", Int32, true)),
        "llist" => LargeList(fld("item", Utf8, true)),
        "lview" => ListView(fld("item", Int32, true)),
        "llview" => LargeListView(fld("item", Utf8, true)),
        "fsl" => FixedSizeList(fld("item", Int16, true), 2),
        "struct" => Struct(Fields::from(vec![Field::new("x", Int32, true), Field::new("y", Utf8, true)])),
        "map" => Map(fld("entries", Struct(Fields::from(vec![Field::new("key", Utf8, false), Field::new("value", Int32, true)])), false), false),
        "dict" => Dictionary(Box::new(Int8), Box::new(Utf8)),
        "ree" => RunEndEncoded(fld("run_ends", Int32, false), fld("values", Utf8, true)),
        "usparse" => Union(UnionFields::try_new(vec![0, 1], vec![Field::new("i", Int32, true), Field::new("s", Utf8, true)]).unwrap(), UnionMode::Sparse),
        "udense" => Union(UnionFields::try_new(vec![3, 7], vec![Field::new("i", Int64, true), Field::new("b", Boolean, true)]).unwrap(), UnionMode::Dense),
        _ => Null,
    }
}

pub fn wrap(container: &str, child: DataType) -> DataType {
    use DataType::*;
    // a field of union type is declared non-nullable: Flight drops the flag of union fields (known finding
    // C04-flight-union-field-flags-lost), which for a nested nullable union makes the encoder's cast fail
    let nl = !matches!(child, Union(_, _));
    match container {
        "list" => List(fld("item", child, nl)),
        "llist" => LargeList(fld("item", child, nl)),
        "lview" => ListView(fld("item", child, nl)),
        "llview" => LargeListView(fld("item", child, nl)),
        "fsl" => FixedSizeList(fld("item", child, nl), 2),
        "struct" => Struct(Fields::from(vec![Field::new("c", child, nl), Field::new("n", Int32, true)])),
        "map" => Map(fld("entries", Struct(Fields::from(vec![Field::new("key", Int32, false), Field::new("value", child, nl)])), false), false),
        "dict" => Dictionary(Box::new(Int8), Box::new(child)),
        "ree" => RunEndEncoded(fld("run_ends", Int32, false), fld("values", child, nl)),
        "usparse" => Union(UnionFields::try_new(vec![0, 1], vec![Field::new("c", child, nl), Field::new("n", Int32, true)]).unwrap(), UnionMode::Sparse),
        _ => Union(UnionFields::try_new(vec![2, 5], vec![Field::new("c", child, nl), Field::new("s", Utf8, true)]).unwrap(), UnionMode::Dense),
    }
}

/// every (container, family) pair the IPC format can express
pub fn pairs() -> Vec<(&'static str, &'static str)> {
    let mut v = vec![];
    for c in CONTAINERS {
        for f in FAMILIES {
            if c == "dict" && f == "dict" {
                continue; // dictionary of dictionary: refused by the writers by design
            }
            v.push((c, f));
        }
    }
    v
}

/// the same container over children that carry a non-zero offset (children = [garbage | rows] sliced back)
pub fn child_offset(rng: &mut Rng, a: &ArrayRef) -> Option<ArrayRef> {
    let d = a.to_data();
    let n = d.child_data().len();
    if n == 0 {
        return None;
    }
    let r = vcore::guarded(|| {
        let mut kids = d.child_data().to_vec();
        for (i, k) in kids.iter_mut().enumerate() {
            if matches!(d.data_type(), DataType::RunEndEncoded(_, _)) && i == 0 {
                continue; // run ends stay as they are
            }
            let arr = make_array(k.clone());
            let padded = if matches!(d.data_type(), DataType::Map(_, _)) {
                // entries: pad the value column (non-null keys are kept), then the struct itself
                let st = arrow_array::cast::AsArray::as_struct(arr.as_ref());
                let v = mutate::pad_slice(rng, st.column(1))?;
                let st2: ArrayRef = Arc::new(StructArray::try_new(st.fields().clone(), vec![st.column(0).clone(), v], st.nulls().cloned()).ok()?);
                mutate::pad_slice_with(rng, &st2, 0)?
            } else {
                mutate::pad_slice(rng, &arr)?
            };
            if padded.len() != arr.len() {
                return None;
            }
            *k = padded.to_data();
        }
        let out = make_array(d.clone().into_builder().child_data(kids).build().ok()?);
        if tok::rows(out.as_ref()) == tok::rows(a.as_ref()) { Some(out) } else { None }
    });
    r.ok().flatten()
}

pub struct Nest {
    pub ep: Episode,
    /// (container, family) per column; which modes were really produced per column
    pub pairs: Vec<(&'static str, &'static str)>,
    pub modes: Vec<Vec<bool>>,
}

pub fn episode(rng: &mut Rng, cols: &[(&'static str, &'static str)]) -> Option<Nest> {
    let n = 4 + rng.below(12);
    let k = *rng.pick(&[1usize, 3, 5, 7, 9, 11, 13]);
    let total = n + k + rng.below(4);
    let mut fields = vec![];
    let mut base: Vec<ArrayRef> = vec![];
    let mut shifted: Vec<ArrayRef> = vec![];
    let mut modes = vec![];
    for (i, (c, f)) in cols.iter().enumerate() {
        let t = wrap(c, family_type(rng, f));
        let np = *rng.pick(&[0usize, 20, 40]);
        let a = vcore::guarded(|| mk::array(rng, &t, total, Cfg::wild(np))).ok()?;
        // (RunArray::try_new names its own child fields: give the array the declared type)
        let a = if a.data_type() != &t { make_array(a.to_data().into_builder().data_type(t.clone()).build().ok()?) } else { a };
        let s = child_offset(rng, &a);
        modes.push(vec![true, true, s.is_some(), s.is_some()]);
        shifted.push(s.unwrap_or_else(|| a.clone()));
        fields.push(Field::new(format!("{c}_{f}_{i}"), t, true));
        base.push(a);
    }
    let schema = Arc::new(Schema::new(fields));
    let b0 = RecordBatch::try_new(schema.clone(), base).ok()?;
    let b2 = RecordBatch::try_new(schema.clone(), shifted).ok()?;
    let k2 = (*rng.pick(&[1usize, 2, 3, 5, 7])).min(total - 2);
    let n2 = total - k2 - rng.below(2);
    let batches = vec![b0.clone(), b0.slice(k, n), b2.clone(), b2.slice(k2, n2)];
    let evo = vec!["unsliced".to_string(), format!("slice({k},{n})"), "child-offset".to_string(), format!("child-offset+slice({k2},..)")];
    Some(Nest { ep: Episode { name: "nest".into(), schema, batches, evo }, pairs: cols.to_vec(), modes })
}
