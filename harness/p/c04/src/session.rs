//! One writer session (FileWriter / StreamWriter / StreamEncoder) recorded step by step:
//!   new    the writer is constructed (options, schema, messages written by the constructor)
//!   write  one batch: its dictionaries (values + array identity), the outcome, the messages the call emitted
//!   finish end-of-stream marker / footer
//!   read   the bytes read back (FileReader, StreamReader, StreamDecoder; with and without projection)
use crate::common::*;
use crate::episodes::{Episode, Opts};
use arrow_array::RecordBatch;
use arrow_buffer::Buffer;
use arrow_ipc::reader::{FileReader, StreamDecoder, StreamReader};
use arrow_ipc::writer::{FileWriter, StreamEncoder, StreamWriter};
use arrow_schema::{ArrowError, Schema};
use std::io::Cursor;
use vcore::{guarded, json, Rng, Value};

pub enum W {
    File(FileWriter<Vec<u8>>),
    Stream(StreamWriter<Vec<u8>>),
    Encoder(Option<StreamEncoder>, Vec<u8>),
}

impl W {
    fn bytes(&self) -> &[u8] {
        match self {
            W::File(w) => w.get_ref(),
            W::Stream(w) => w.get_ref(),
            W::Encoder(_, b) => b,
        }
    }
    fn write(&mut self, b: &RecordBatch) -> Result<(), ArrowError> {
        match self {
            W::File(w) => w.write(b),
            W::Stream(w) => w.write(b),
            W::Encoder(e, out) => {
                for buf in e.as_mut().unwrap().encode(b)? {
                    out.extend_from_slice(buf.as_slice());
                }
                Ok(())
            }
        }
    }
    fn finish(&mut self) -> Result<(), ArrowError> {
        match self {
            W::File(w) => w.finish(),
            W::Stream(w) => w.finish(),
            W::Encoder(e, out) => {
                for buf in e.take().unwrap().finish()? {
                    out.extend_from_slice(buf.as_slice());
                }
                Ok(())
            }
        }
    }
}

pub struct Outcome {
    pub events: Vec<Value>,
    pub skipped: bool,
    pub refused: usize,
}

fn outcome_str(r: &Result<Result<(), ArrowError>, String>) -> (String, bool) {
    match r {
        Ok(Ok(())) => ("ok".into(), false),
        Ok(Err(e)) => (format!("err:{}", variant(e)), unsupported(&e.to_string())),
        Err(p) => ("panic".into(), unsupported(p)),
    }
}

fn out_batch(b: &RecordBatch) -> Value {
    json!({"n": b.num_rows(), "cols": cols_json(b), "dv": attached_json(b)})
}

fn schema_json(s: &Schema) -> Value {
    json!({"meta": schema_meta(s), "fields": schema_fields(s, PLAIN)})
}

fn read_event(via: &str, proj: &[usize], schema: Option<Value>, out: Vec<Value>, err: String) -> Value {
    read_event_cm(via, proj, schema, out, err, "[]".into())
}

fn read_event_cm(via: &str, proj: &[usize], schema: Option<Value>, out: Vec<Value>, err: String, cmeta: String) -> Value {
    json!({"op": "read", "via": via, "proj": proj, "has_schema": schema.is_some(), "cmeta": cmeta,
           "schema": schema.unwrap_or_else(|| json!({"meta": "", "fields": []})), "out": out, "err": err})
}

fn collect<I: Iterator<Item = Result<RecordBatch, ArrowError>>>(it: I) -> (Vec<Value>, String) {
    let mut out = vec![];
    let mut err = String::new();
    let mut it = it;
    loop {
        match guarded(|| it.next()) {
            Ok(None) => break,
            Ok(Some(Ok(b))) => match guarded(|| out_batch(&b)) {
                Ok(v) => out.push(v),
                Err(_) => {
                    err = "panic-projecting".into();
                    break;
                }
            },
            Ok(Some(Err(e))) => {
                err = format!("err:{}", variant(&e));
                break;
            }
            Err(_) => {
                err = "panic".into();
                break;
            }
        }
        if out.len() > 64 {
            err = "runaway".into();
            break;
        }
    }
    (out, err)
}

pub fn read_file(bytes: &[u8], proj: &[usize]) -> Value {
    let p = if proj.is_empty() { None } else { Some(proj.to_vec()) };
    match guarded(|| FileReader::try_new(Cursor::new(bytes.to_vec()), p)) {
        Ok(Ok(r)) => {
            let s = schema_json(&r.schema());
            let mut cm: Vec<(String, String)> = r.custom_metadata().iter().map(|(k, v)| (k.clone(), v.clone())).collect();
            cm.sort();
            let (out, err) = collect(r);
            read_event_cm("FileReader", proj, Some(s), out, err, format!("{cm:?}"))
        }
        Ok(Err(e)) => read_event("FileReader", proj, None, vec![], format!("err:{}", variant(&e))),
        Err(_) => read_event("FileReader", proj, None, vec![], "panic".into()),
    }
}

pub fn read_stream(bytes: &[u8], proj: &[usize]) -> Value {
    let p = if proj.is_empty() { None } else { Some(proj.to_vec()) };
    match guarded(|| StreamReader::try_new(Cursor::new(bytes.to_vec()), p)) {
        Ok(Ok(r)) => {
            let s = schema_json(&r.schema());
            let (out, err) = collect(r);
            read_event("StreamReader", proj, Some(s), out, err)
        }
        Ok(Err(e)) => read_event("StreamReader", proj, None, vec![], format!("err:{}", variant(&e))),
        Err(_) => read_event("StreamReader", proj, None, vec![], "panic".into()),
    }
}

/// the push decoder, fed in chunks of arbitrary sizes
pub fn read_decoder(rng: &mut Rng, bytes: &[u8]) -> Value {
    let mut d = StreamDecoder::new();
    let mut out = vec![];
    let mut err = String::new();
    let mut pos = 0usize;
    let r = guarded(|| {
        while pos < bytes.len() && err.is_empty() {
            let n = match rng.below(4) {
                0 => 1 + rng.below(7),
                1 => 1 + rng.below(200),
                _ => bytes.len() - pos,
            }
            .min(bytes.len() - pos);
            let mut buf = Buffer::from(bytes[pos..pos + n].to_vec());
            pos += n;
            while !buf.is_empty() {
                match d.decode(&mut buf) {
                    Ok(Some(b)) => out.push(out_batch(&b)),
                    Ok(None) => {}
                    Err(e) => {
                        err = format!("err:{}", variant(&e));
                        break;
                    }
                }
            }
        }
        if err.is_empty() {
            if let Err(e) = d.finish() {
                err = format!("err:{}", variant(&e));
            }
        }
    });
    if let Err(p) = &r {
        if std::env::var("C04_DEBUG").is_ok() {
            eprintln!("StreamDecoder panic: {p}");
        }
        err = "panic".into();
    }
    let s = d.schema().map(|s| schema_json(&s));
    read_event("StreamDecoder", &[], s, out, err)
}

/// runs the session; `kind` is "file", "stream" or "encoder"
pub fn run(rng: &mut Rng, ep: &Episode, kind: &str, o: &Opts, epno: usize) -> Outcome {
    let mut events = vec![];
    let skipped = |events| Outcome { events, skipped: true, refused: 0 };
    let Ok(ipc) = o.ipc() else { return skipped(vec![]) };
    let made = guarded(|| -> Result<W, ArrowError> {
        Ok(match kind {
            "file" => W::File(FileWriter::try_new_with_options(Vec::new(), &ep.schema, ipc.clone())?),
            "stream" => W::Stream(StreamWriter::try_new_with_options(Vec::new(), &ep.schema, ipc.clone())?),
            _ => W::Encoder(Some(StreamEncoder::try_new_with_options(&ep.schema, ipc.clone())?), Vec::new()),
        })
    });
    let mut w = match made {
        Ok(Ok(w)) => w,
        Ok(Err(e)) if unsupported(&e.to_string()) => return skipped(vec![]),
        other => {
            let what = match other {
                Ok(Err(e)) => format!("err:{}", variant(&e)),
                _ => "panic".to_string(),
            };
            events.push(json!({"op": "new", "ep": epno, "name": ep.name, "w": kind, "hand": o.hand(), "align": o.align, "ver": o.ver, "legacy": o.legacy, "comp": o.comp, "ree": schema_has_ree(&ep.schema), "dunion": schema_has_dense_union(&ep.schema), "ulist": schema_has_union_in_list(&ep.schema), "cmeta": "[]",
                               "ctor": what, "nd": 0, "top": [], "schema": schema_json(&ep.schema), "msgs": [], "start": 0}));
            return Outcome { events, skipped: false, refused: 0 };
        }
    };
    // dictionary ids of the schema: taken from the first batch if there is one (every batch has the same shape)
    let tops: Vec<i32> = schema_dicts(&ep.schema).iter().map(|inner| if *inner { 0 } else { 1 }).collect();
    let nd = tops.len();
    let mut parser = Parser::new();
    let mut msgs = vec![];
    // an IPC file starts with the magic padded to the alignment
    let start = if kind == "file" { (6 + o.align - 1) / o.align * o.align } else { 0 };
    let mut pos = parser.stream(w.bytes(), start.min(w.bytes().len()), &mut msgs);
    let magic_ok = kind != "file" || w.bytes().starts_with(b"ARROW1");
    events.push(json!({"op": "new", "ep": epno, "name": ep.name, "w": kind, "hand": o.hand(), "align": o.align, "ver": o.ver, "legacy": o.legacy, "comp": o.comp, "ree": schema_has_ree(&ep.schema), "dunion": schema_has_dense_union(&ep.schema), "ulist": schema_has_union_in_list(&ep.schema), "cmeta": "[]",
                       "ctor": if magic_ok { "ok" } else { "bad-magic" }, "nd": nd, "top": tops, "schema": schema_json(&ep.schema), "msgs": msgs, "start": start}));
    let mut ids = ObjIds::default();
    let mut refused = 0;
    for (i, b) in ep.batches.iter().enumerate() {
        let dicts = dicts_json(b, &mut ids);
        let flags = batch_flags(b);
        let r = guarded(|| w.write(b));
        let (res, unsup) = outcome_str(&r);
        if unsup {
            return skipped(vec![]);
        }
        if res != "ok" {
            refused += 1;
        }
        let mut msgs = vec![];
        pos = parser.stream(w.bytes(), pos, &mut msgs);
        events.push(json!({"op": "write", "i": i + 1, "evo": ep.evo[i], "dicts": dicts, "res": res, "n": b.num_rows(), "ree0": flags.ree0, "uoff": flags.uoff, "cols": cols_json(b), "msgs": msgs}));
    }
    // user metadata of an IPC file (footer)
    let mut cmeta: Vec<(String, String)> = vec![];
    if let W::File(fw) = &mut w {
        for i in 0..rng.below(3) {
            let (k, v) = (format!("user{i}"), ["", "v", "é \u{1F600}"][rng.below(3)].to_string());
            fw.write_metadata(k.clone(), v.clone());
            cmeta.push((k, v));
        }
    }
    let r = guarded(|| w.finish());
    let (res, _) = outcome_str(&r);
    let mut msgs = vec![];
    pos = parser.stream(w.bytes(), pos, &mut msgs);
    let bytes = w.bytes().to_vec();
    let (fd, fr, fstart) = if kind == "file" { footer_blocks(&bytes).unwrap_or((vec![], vec![], 0)) } else { (vec![], vec![], pos) };
    events.push(json!({"op": "finish", "res": res, "msgs": msgs, "fdicts": fd, "fbatches": fr, "end": pos, "footer": fstart, "len": bytes.len(), "cmeta": format!("{cmeta:?}")}));
    // read back
    let ncols = ep.schema.fields().len();
    let mut projs: Vec<Vec<usize>> = vec![];
    if ncols > 0 {
        for _ in 0..2 {
            let k = 1 + rng.below(ncols.min(3));
            let mut p: Vec<usize> = (0..k).map(|_| rng.below(ncols)).collect();
            if rng.chance(70) {
                p.sort();
                p.dedup();
            }
            projs.push(p);
        }
    }
    if kind == "file" {
        events.push(read_file(&bytes, &[]));
        for p in &projs {
            events.push(read_file(&bytes, p));
        }
    } else {
        events.push(read_stream(&bytes, &[]));
        for p in &projs {
            events.push(read_stream(&bytes, p));
        }
        events.push(read_decoder(rng, &bytes));
    }
    Outcome { events, skipped: false, refused }
}
