//! Arrow Flight: FlightDataEncoder -> FlightRecordBatchStream, one event per session.
use crate::common::*;
use crate::episodes::{Episode, Opts};
use arrow_array::RecordBatch;
use arrow_flight::decode::FlightRecordBatchStream;
use arrow_flight::encode::{DictionaryHandling, FlightDataEncoderBuilder};
use arrow_flight::error::FlightError;
use arrow_flight::FlightData;
use futures::{StreamExt, TryStreamExt};
use vcore::{guarded, json, Value};

pub fn encode(ep: &Episode, o: &Opts, resend: bool, max: usize, with_schema: bool) -> Result<Result<Vec<FlightData>, FlightError>, String> {
    let batches: Vec<RecordBatch> = ep.batches.clone();
    let schema = ep.schema.clone();
    let ipc = o.ipc().map_err(|e| e.to_string())?;
    guarded(move || {
        let mut b = FlightDataEncoderBuilder::new()
            .with_max_flight_data_size(max)
            .with_options(ipc)
            .with_dictionary_handling(if resend { DictionaryHandling::Resend } else { DictionaryHandling::Hydrate });
        if with_schema {
            b = b.with_schema(schema);
        }
        let enc = b.build(futures::stream::iter(batches.into_iter().map(Ok)));
        futures::executor::block_on(enc.try_collect::<Vec<_>>())
    })
}

pub fn decode(msgs: &[FlightData]) -> (Option<Value>, Option<Value>, bool, Vec<Value>, String) {
    let mut out = vec![];
    let mut err = String::new();
    let mut st = FlightRecordBatchStream::new_from_flight_data(futures::stream::iter(msgs.to_vec().into_iter().map(Ok)));
    loop {
        match guarded(|| futures::executor::block_on(st.next())) {
            Ok(None) => break,
            Ok(Some(Ok(b))) => out.push(json!({"n": b.num_rows(), "cols": cols_json(&b), "dv": attached_json(&b)})),
            Ok(Some(Err(e))) => {
                if std::env::var("C04_DEBUG").is_ok() {
                    eprintln!("flight decode error: {e}");
                }
                err = format!("err:{}", variant(&e));
                break;
            }
            Err(_) => {
                err = "panic".into();
                break;
            }
        }
        if out.len() > 4096 {
            err = "runaway".into();
            break;
        }
    }
    let s = st.schema().cloned();
    let sj = s.as_ref().map(|s| json!({"meta": schema_meta(s), "fields": schema_fields(s, PLAIN), "ufields": schema_fields(s, PLAIN_U)}));
    let hf = s.as_ref().map(|s| json!({"fields": schema_fields(s, HYD), "ufields": schema_fields(s, HYD_U)}));
    let od = s.as_ref().map(|s| schema_has_dict(s)).unwrap_or(false);
    (sj, hf, od, out, err)
}

/// None = the encoder reports the schema as unsupported (e.g. no cast to the hydrated type): skipped
pub fn run(ep: &Episode, o: &Opts, resend: bool, max: usize, with_schema: bool, epno: usize) -> Option<Value> {
    let enc = encode(ep, o, resend, max, with_schema);
    let (res, msgs): (String, Vec<FlightData>) = match enc {
        Ok(Ok(m)) => ("ok".into(), m),
        Ok(Err(e)) => {
            if unsupported(&e.to_string()) {
                return None;
            }
            if std::env::var("C04_DEBUG").is_ok() {
                eprintln!("flight encode error [{}]: {e}", ep.schema.fields().iter().map(|f| f.name().as_str()).collect::<Vec<_>>().join(","));
            }
            (format!("err:{}", variant(&e)), vec![])
        }
        Err(p) => {
            if unsupported(&p) {
                return None;
            }
            ("panic".into(), vec![])
        }
    };
    let mut parser = Parser::new();
    let pm: Vec<Value> = msgs.iter().map(|m| parser.message(&m.data_header, &m.data_body, 0, 0)).collect();
    let (sj, hf, od, out, err) = decode(&msgs);
    let mut ids = ObjIds::default();
    let steps: Vec<Value> = ep.batches.iter().map(|b| json!({"dicts": dicts_json(b, &mut ids), "n": b.num_rows(), "cols": cols_json(b)})).collect();
    let tops: Vec<i32> = schema_dicts(&ep.schema).iter().map(|inner| if *inner { 0 } else { 1 }).collect();
    Some(json!({
        "op": "flight", "ep": epno, "name": ep.name, "fh": if resend { "resend" } else { "hydrate" }, "hand": o.hand(), "align": o.align, "ver": o.ver, "comp": o.comp, "ree": schema_has_ree(&ep.schema), "ulist": schema_has_union_in_list(&ep.schema), "reelist": schema_has_ree_in_list(&ep.schema),
        "max": max, "with_schema": with_schema, "nd": tops.len(), "top": tops,
        "schema": {"meta": schema_meta(&ep.schema), "fields": schema_fields(&ep.schema, PLAIN), "ufields": schema_fields(&ep.schema, PLAIN_U)},
        "hschema": {"fields": schema_fields(&ep.schema, HYD), "ufields": schema_fields(&ep.schema, HYD_U)},
        "steps": steps, "res": res, "msgs": pm,
        "has_schema": sj.is_some(), "oschema": sj.unwrap_or_else(|| json!({"meta": "", "fields": [], "ufields": []})),
        "ohschema": hf.unwrap_or_else(|| json!({"fields": [], "ufields": []})), "odict": od,
        "out": out, "err": err,
    }))
}
