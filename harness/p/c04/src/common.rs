//! Projections shared by the C04 drivers: canonical schema strings, the dictionaries of a batch in the
//! depth-first order in which the IPC writer visits them, identities of dictionary value arrays
//! (`ArrayData::ptr_eq`), and the message sequence of IPC bytes read back with the flatbuffer accessors.
//! Nothing here decides anything: Trace_IpcRoundTrip.tla / IpcDict.tla do.
use arrow_array::cast::AsArray;
use arrow_array::*;
use arrow_buffer::Buffer;
use arrow_data::ArrayData;
use arrow_ipc::reader::RecordBatchDecoder;
use arrow_ipc::{MessageHeader, MetadataVersion};
use arrow_schema::{DataType, Field, Schema, SchemaRef};
use std::collections::HashMap;
use std::sync::Arc;
use vcore::{json, tok, Value};

pub fn variant<E: std::fmt::Debug>(e: &E) -> String {
    let s = format!("{e:?}");
    let end = s.find(|c: char| !(c.is_alphanumeric() || c == '_')).unwrap_or(s.len());
    s[..end].to_string()
}

/// "not supported" style refusals: the case is skipped, not judged
pub fn unsupported(msg: &str) -> bool {
    let m = msg.to_ascii_lowercase();
    m.contains("not supported") || m.contains("not yet implemented") || m.contains("not implemented") || m.contains("unsupported")
        || m.contains("cannot encode") || m.contains("casting from") || m.contains("cannot cast") || m.contains("does not support")
}

// ------------------------------------------------------------------------------------------ schema
fn meta_canon<'a>(m: impl IntoIterator<Item = (&'a String, &'a String)>) -> String {
    let mut v: Vec<(&String, &String)> = m.into_iter().collect();
    v.sort();
    format!("{v:?}")
}

/// canonical text of a field: name, type (recursively, with child field names / nullability / metadata),
/// nullability, metadata.  mode 1 (`HYD`): dictionary types are replaced by their value types (Flight
/// hydration); mode 2 (`HYD_U`) / 3 (`PLAIN_U`): additionally / only, fields of union type are printed as
/// non-nullable without metadata (identifies known finding C04-flight-union-field-flags-lost).
pub const PLAIN: u8 = 0;
pub const HYD: u8 = 1;
pub const HYD_U: u8 = 2;
pub const PLAIN_U: u8 = 3;

pub fn field_canon(f: &Field, mode: u8) -> String {
    let unorm = (mode == HYD_U || mode == PLAIN_U) && matches!(f.data_type(), DataType::Union(_, _));
    let nullable = if unorm { false } else { f.is_nullable() };
    let meta = if unorm { "[]".to_string() } else { meta_canon(f.metadata()) };
    format!("{}:{}:{}:{}", f.name(), type_canon(f.data_type(), mode), if nullable { "null" } else { "nn" }, meta)
}

pub fn type_canon(t: &DataType, hyd: u8) -> String {
    use DataType::*;
    match t {
        List(f) => format!("List<{}>", field_canon(f, hyd)),
        LargeList(f) => format!("LargeList<{}>", field_canon(f, hyd)),
        ListView(f) => format!("ListView<{}>", field_canon(f, hyd)),
        LargeListView(f) => format!("LargeListView<{}>", field_canon(f, hyd)),
        FixedSizeList(f, n) => format!("FixedSizeList<{},{n}>", field_canon(f, hyd)),
        Struct(fs) => format!("Struct<{}>", fs.iter().map(|f| field_canon(f, hyd)).collect::<Vec<_>>().join(";")),
        Map(f, sorted) => format!("Map<{},{sorted}>", field_canon(f, hyd)),
        Union(fs, mode) => format!("Union<{mode:?},{}>", fs.iter().map(|(i, f)| format!("{i}={}", field_canon(f, hyd))).collect::<Vec<_>>().join(";")),
        RunEndEncoded(r, v) => format!("REE<{},{}>", field_canon(r, hyd), field_canon(v, hyd)),
        Dictionary(k, v) => {
            if hyd == HYD || hyd == HYD_U { type_canon(v, hyd) } else { format!("Dict<{k:?},{}>", type_canon(v, hyd)) }
        }
        other => format!("{other:?}"),
    }
}

pub fn has_dict(t: &DataType) -> bool {
    use DataType::*;
    match t {
        Dictionary(_, _) => true,
        List(f) | LargeList(f) | ListView(f) | LargeListView(f) | FixedSizeList(f, _) | Map(f, _) => has_dict(f.data_type()),
        Struct(fs) => fs.iter().any(|f| has_dict(f.data_type())),
        Union(fs, _) => fs.iter().any(|(_, f)| has_dict(f.data_type())),
        RunEndEncoded(_, v) => has_dict(v.data_type()),
        _ => false,
    }
}

pub fn has_ree(t: &DataType) -> bool {
    use DataType::*;
    match t {
        RunEndEncoded(_, _) => true,
        Dictionary(_, v) => has_ree(v),
        List(f) | LargeList(f) | ListView(f) | LargeListView(f) | FixedSizeList(f, _) | Map(f, _) => has_ree(f.data_type()),
        Struct(fs) => fs.iter().any(|f| has_ree(f.data_type())),
        Union(fs, _) => fs.iter().any(|(_, f)| has_ree(f.data_type())),
        _ => false,
    }
}
pub fn has_dense_union(t: &DataType) -> bool {
    use DataType::*;
    match t {
        Union(_, arrow_schema::UnionMode::Dense) => true,
        Union(fs, _) => fs.iter().any(|(_, f)| has_dense_union(f.data_type())),
        Dictionary(_, v) => has_dense_union(v),
        RunEndEncoded(_, v) => has_dense_union(v.data_type()),
        List(f) | LargeList(f) | ListView(f) | LargeListView(f) | FixedSizeList(f, _) | Map(f, _) => has_dense_union(f.data_type()),
        Struct(fs) => fs.iter().any(|f| has_dense_union(f.data_type())),
        _ => false,
    }
}
pub fn schema_has_dense_union(s: &Schema) -> bool {
    s.fields().iter().any(|f| has_dense_union(f.data_type()))
}
/// what the writer's slicing code will meet in this batch:
///  ree0: a run-end array of which zero rows are written although it has runs (a zero-length slice, also as
///        the child of empty lists);
///  uoff: a union array below a list / large list / map whose child range does not start at 0 or does not
///        cover the whole child (the writer slices the child's ArrayData, giving the union a non-zero
///        offset / a shorter length)
#[derive(Default, Clone, Copy)]
pub struct BatchFlags {
    pub ree0: bool,
    pub uoff: bool,
}

pub fn batch_flags(b: &RecordBatch) -> BatchFlags {
    fn go(a: &ArrayRef, eff_len: usize, under: bool, f: &mut BatchFlags) {
        use DataType::*;
        fn range<O: arrow_array::OffsetSizeTrait>(offs: &[O]) -> (usize, usize) {
            (offs[0].as_usize(), offs[offs.len() - 1].as_usize())
        }
        let mut listy = |values: &ArrayRef, first: usize, last: usize, f: &mut BatchFlags| {
            let sliced = first != 0 || last != values.len();
            go(values, last - first, under || sliced, f);
        };
        match a.data_type() {
            RunEndEncoded(_, _) => {
                let d = a.to_data();
                if eff_len == 0 && !d.child_data()[0].is_empty() {
                    f.ree0 = true;
                }
                go(&make_array(d.child_data()[1].clone()), d.child_data()[1].len(), false, f);
            }
            Union(fields, mode) => {
                if under {
                    f.uoff = true;
                }
                let u = a.as_union();
                for (id, _) in fields.iter() {
                    let c = u.child(id);
                    let n = if *mode == arrow_schema::UnionMode::Sparse { eff_len } else { c.len() };
                    go(c, n, under, f);
                }
            }
            List(_) => {
                let l = a.as_list::<i32>();
                let (x, y) = range(l.value_offsets());
                listy(l.values(), x, y, f)
            }
            LargeList(_) => {
                let l = a.as_list::<i64>();
                let (x, y) = range(l.value_offsets());
                listy(l.values(), x, y, f)
            }
            Map(_, _) => {
                let m = a.as_map();
                let (x, y) = range(m.value_offsets());
                let e: ArrayRef = Arc::new(m.entries().clone());
                listy(&e, x, y, f)
            }
            FixedSizeList(_, n) => go(a.as_fixed_size_list().values(), eff_len * (*n as usize), under, f),
            ListView(_) => go(a.as_list_view::<i32>().values(), a.as_list_view::<i32>().values().len(), under, f),
            LargeListView(_) => go(a.as_list_view::<i64>().values(), a.as_list_view::<i64>().values().len(), under, f),
            Struct(_) => a.as_struct().columns().iter().for_each(|c| go(c, eff_len, under, f)),
            Dictionary(_, _) => {
                let v = a.as_any_dictionary().values().clone();
                go(&v, v.len(), false, f)
            }
            _ => {}
        }
    }
    let mut f = BatchFlags::default();
    for c in b.columns() {
        go(c, c.len(), false, &mut f);
    }
    f
}

/// the schema has a run-end type below a list / large list / map (at any depth)
pub fn schema_has_ree_in_list(s: &Schema) -> bool {
    fn go(t: &DataType, under: bool) -> bool {
        use DataType::*;
        match t {
            RunEndEncoded(_, v) => under || go(v.data_type(), under),
            Union(fs, _) => fs.iter().any(|(_, f)| go(f.data_type(), under)),
            List(f) | LargeList(f) | Map(f, _) => go(f.data_type(), true),
            FixedSizeList(f, _) | ListView(f) | LargeListView(f) => go(f.data_type(), under),
            Struct(fs) => fs.iter().any(|f| go(f.data_type(), under)),
            Dictionary(_, v) => go(v, false),
            _ => false,
        }
    }
    s.fields().iter().any(|f| go(f.data_type(), false))
}

/// the schema has a union type below a list / large list / map (at any depth)
pub fn schema_has_union_in_list(s: &Schema) -> bool {
    fn go(t: &DataType, under: bool) -> bool {
        use DataType::*;
        match t {
            Union(fs, _) => under || fs.iter().any(|(_, f)| go(f.data_type(), under)),
            List(f) | LargeList(f) | Map(f, _) => go(f.data_type(), true),
            FixedSizeList(f, _) | ListView(f) | LargeListView(f) => go(f.data_type(), under),
            Struct(fs) => fs.iter().any(|f| go(f.data_type(), under)),
            Dictionary(_, v) => go(v, false),
            RunEndEncoded(_, v) => go(v.data_type(), false),
            _ => false,
        }
    }
    s.fields().iter().any(|f| go(f.data_type(), false))
}
pub fn schema_has_ree(s: &Schema) -> bool {
    s.fields().iter().any(|f| has_ree(f.data_type()))
}

pub fn schema_fields(s: &Schema, hyd: u8) -> Vec<String> {
    s.fields().iter().map(|f| field_canon(f, hyd)).collect()
}
pub fn schema_meta(s: &Schema) -> String {
    meta_canon(s.metadata())
}
pub fn schema_has_dict(s: &Schema) -> bool {
    s.fields().iter().any(|f| has_dict(f.data_type()))
}

// ------------------------------------------------------------------------------------ dictionaries
/// the dictionary arrays of a column in the order the writer visits them (nested before parent);
/// the flag tells whether the array sits inside the values of another dictionary
pub fn dict_arrays(col: &ArrayRef, inner: bool, out: &mut Vec<(ArrayRef, bool)>) {
    if let DataType::Dictionary(_, _) = col.data_type() {
        let values = col.as_any_dictionary().values().clone();
        children(&values, true, out);
        out.push((col.clone(), inner));
    } else {
        children(col, inner, out);
    }
}

fn children(col: &ArrayRef, inner: bool, out: &mut Vec<(ArrayRef, bool)>) {
    use DataType::*;
    match col.data_type() {
        Struct(_) => {
            for c in col.as_struct().columns() {
                dict_arrays(c, inner, out);
            }
        }
        RunEndEncoded(_, _) => {
            let d = col.to_data();
            dict_arrays(&make_array(d.child_data()[1].clone()), inner, out);
        }
        List(_) => dict_arrays(col.as_list::<i32>().values(), inner, out),
        LargeList(_) => dict_arrays(col.as_list::<i64>().values(), inner, out),
        ListView(_) => dict_arrays(col.as_list_view::<i32>().values(), inner, out),
        LargeListView(_) => dict_arrays(col.as_list_view::<i64>().values(), inner, out),
        FixedSizeList(_, _) => dict_arrays(col.as_fixed_size_list().values(), inner, out),
        Map(_, _) => {
            let m = col.as_map();
            dict_arrays(m.keys(), inner, out);
            dict_arrays(m.values(), inner, out);
        }
        Union(fields, _) => {
            let u = col.as_union();
            for (id, _) in fields.iter() {
                dict_arrays(u.child(id), inner, out);
            }
        }
        _ => {}
    }
}

pub fn batch_dicts(b: &RecordBatch) -> Vec<(ArrayRef, bool)> {
    let mut out = vec![];
    for c in b.columns() {
        dict_arrays(c, false, &mut out);
    }
    out
}

/// Row tokens of a dictionary's values at the granularity of the writer's dictionary comparison (ArrayData
/// equality): as vcore::tok, except that inside the values a nested dictionary entry with a null key ("~k")
/// is told apart from a valid key that denotes a null value (both are the logical null "~" for vcore::tok).
pub fn cmp_row(a: &dyn Array, i: usize) -> String {
    use DataType::*;
    fn seq(a: &dyn Array) -> String {
        format!("[{}]", (0..a.len()).map(|i| cmp_row(a, i)).collect::<Vec<_>>().join(","))
    }
    match a.data_type() {
        Dictionary(_, _) => {
            let d = a.as_any_dictionary();
            if d.keys().is_null(i) || d.values().is_empty() {
                return "~k".to_string();
            }
            cmp_row(d.values().as_ref(), d.normalized_keys()[i])
        }
        List(_) if a.is_valid(i) => seq(a.as_list::<i32>().value(i).as_ref()),
        LargeList(_) if a.is_valid(i) => seq(a.as_list::<i64>().value(i).as_ref()),
        FixedSizeList(_, _) if a.is_valid(i) => seq(a.as_fixed_size_list().value(i).as_ref()),
        Struct(_) if a.is_valid(i) => {
            format!("{{{}}}", a.as_struct().columns().iter().map(|c| cmp_row(c.as_ref(), i)).collect::<Vec<_>>().join(","))
        }
        _ => tok::row(a, i),
    }
}

pub fn cmp_rows_json(a: &dyn Array) -> Value {
    Value::Array((0..a.len()).map(|i| Value::String(cmp_row(a, i))).collect())
}

/// identities of dictionary value arrays within one writer session (ArrayData::ptr_eq)
#[derive(Default)]
pub struct ObjIds {
    seen: Vec<ArrayData>,
}

impl ObjIds {
    pub fn id(&mut self, values: &ArrayRef) -> usize {
        let d = values.to_data();
        if let Some(i) = self.seen.iter().position(|s| ArrayData::ptr_eq(s, &d)) {
            return i;
        }
        self.seen.push(d);
        self.seen.len() - 1
    }
}

/// `[{"vals": tokens of the dictionary values, "obj": identity}]` for every dictionary of the batch
pub fn dicts_json(b: &RecordBatch, ids: &mut ObjIds) -> Value {
    Value::Array(
        batch_dicts(b)
            .iter()
            .map(|(a, _)| {
                let v = a.as_any_dictionary().values().clone();
                json!({"vals": cmp_rows_json(v.as_ref()), "obj": ids.id(&v)})
            })
            .collect(),
    )
}

/// the values attached to every dictionary array of a decoded batch
pub fn attached_json(b: &RecordBatch) -> Value {
    Value::Array(batch_dicts(b).iter().map(|(a, _)| cmp_rows_json(a.as_any_dictionary().values().as_ref())).collect())
}

pub fn cols_json(b: &RecordBatch) -> Value {
    Value::Array(b.columns().iter().map(|c| tok::rows_json(c.as_ref())).collect())
}

// --------------------------------------------------------------------------------------- messages
/// reads IPC messages back (public flatbuffer accessors) and projects each to what the specification
/// talks about.  Keeps the reader-side dictionaries so that dictionary batches can be decoded.
pub struct Parser {
    pub schema: Option<SchemaRef>,
    dicts: HashMap<i64, ArrayRef>,
}

impl Parser {
    pub fn new() -> Parser {
        Parser { schema: None, dicts: HashMap::new() }
    }

    /// one encapsulated message: flatbuffer `header`, `body`; `off`/`meta` = position and total metadata
    /// length (prefix + padded flatbuffer) in the byte stream, 0 when there is none (Flight)
    pub fn message(&mut self, header: &[u8], body: &[u8], off: usize, meta: usize) -> Value {
        let bad = |what: &str| json!({"k": what, "id": 0, "delta": false, "vals": [], "off": off, "meta": meta, "body": body.len(), "offs": [], "n": 0, "ver": 0, "comp": "", "blen": 0});
        let Ok(msg) = arrow_ipc::root_as_message(header) else { return bad("unparsable") };
        let ver = match msg.version() {
            MetadataVersion::V4 => 4,
            MetadataVersion::V5 => 5,
            _ => 0,
        };
        let blen = msg.bodyLength();
        let mut out = json!({"k": "", "id": 0, "delta": false, "vals": [], "off": off, "meta": meta, "body": body.len(), "offs": [], "n": 0, "ver": ver, "comp": "", "blen": blen});
        let rb_info = |rb: arrow_ipc::RecordBatch, out: &mut Value| {
            let mut offs: Vec<i64> = rb.buffers().map(|bs| bs.iter().map(|b| b.offset() % 64).collect()).unwrap_or_default();
            offs.sort();
            offs.dedup();
            out["offs"] = json!(offs);
            out["n"] = json!(rb.length());
            out["comp"] = json!(rb.compression().map(|c| format!("{:?}", c.codec())).unwrap_or_default());
        };
        match msg.header_type() {
            MessageHeader::Schema => {
                out["k"] = json!("schema");
                if let Some(s) = msg.header_as_schema() {
                    if let Ok(s) = arrow_ipc::convert::try_fb_to_schema(s) {
                        self.schema = Some(Arc::new(s));
                    }
                }
            }
            MessageHeader::RecordBatch => {
                out["k"] = json!("batch");
                if let Some(rb) = msg.header_as_record_batch() {
                    rb_info(rb, &mut out);
                }
            }
            MessageHeader::DictionaryBatch => {
                out["k"] = json!("dict");
                let Some(db) = msg.header_as_dictionary_batch() else { return bad("unparsable") };
                out["id"] = json!(db.id() + 1);
                out["delta"] = json!(db.isDelta());
                if let Some(rb) = db.data() {
                    rb_info(rb, &mut out);
                }
                let Some(schema) = self.schema.clone() else { return bad("dict-before-schema") };
                #[allow(deprecated)]
                let fields = schema.fields_with_dict_id(db.id());
                let vt = fields.first().and_then(|f| match f.data_type() {
                    DataType::Dictionary(_, v) => Some(v.as_ref().clone()),
                    _ => None,
                });
                let buf = Buffer::from(body.to_vec());
                let version = msg.version();
                let vals = vt.and_then(|vt| {
                    let fake = Arc::new(Schema::new(vec![Field::new("", vt, true)]));
                    let rb = db.data()?;
                    vcore::guarded(|| RecordBatchDecoder::try_new(&buf, rb, fake, &self.dicts, &version).and_then(|d| d.read_record_batch()).ok())
                        .ok()
                        .flatten()
                });
                match vals {
                    Some(b) => out["vals"] = cmp_rows_json(b.column(0).as_ref()),
                    None => out["k"] = json!("dict-undecodable"),
                }
                // keep the reader-side state for dictionaries nested in later dictionary batches
                let _ = vcore::guarded(|| arrow_ipc::reader::read_dictionary(&buf, db, &schema, &mut self.dicts, &version));
            }
            other => out["k"] = json!(format!("{other:?}")),
        }
        out
    }

    /// the encapsulated messages in bytes[pos..] (stream framing); returns the position behind the last one
    pub fn stream(&mut self, bytes: &[u8], mut pos: usize, out: &mut Vec<Value>) -> usize {
        while pos + 4 <= bytes.len() {
            let w = |p: usize| u32::from_le_bytes([bytes[p], bytes[p + 1], bytes[p + 2], bytes[p + 3]]);
            let (prefix, len) = if w(pos) == 0xFFFF_FFFF {
                if pos + 8 > bytes.len() {
                    break;
                }
                (8, w(pos + 4) as usize)
            } else {
                (4, w(pos) as usize)
            };
            if len == 0 {
                out.push(json!({"k": "eos", "id": 0, "delta": false, "vals": [], "off": pos, "meta": prefix, "body": 0, "offs": [], "n": 0, "ver": 0, "comp": "", "blen": 0}));
                pos += prefix;
                break;
            }
            if pos + prefix + len > bytes.len() {
                break;
            }
            let header = &bytes[pos + prefix..pos + prefix + len];
            let blen = arrow_ipc::root_as_message(header).map(|m| m.bodyLength().max(0) as usize).unwrap_or(0);
            let b0 = pos + prefix + len;
            if b0 + blen > bytes.len() {
                out.push(json!({"k": "truncated", "id": 0, "delta": false, "vals": [], "off": pos, "meta": prefix + len, "body": 0, "offs": [], "n": 0, "ver": 0, "comp": "", "blen": blen}));
                break;
            }
            out.push(self.message(header, &bytes[b0..b0 + blen], pos, prefix + len));
            pos = b0 + blen;
        }
        pos
    }
}

/// footer of an IPC file: the dictionary and record-batch blocks as [off, meta, body] triples
pub fn footer_blocks(bytes: &[u8]) -> Option<(Vec<Value>, Vec<Value>, usize)> {
    let n = bytes.len();
    if n < 10 || &bytes[n - 6..] != b"ARROW1" {
        return None;
    }
    let flen = i32::from_le_bytes([bytes[n - 10], bytes[n - 9], bytes[n - 8], bytes[n - 7]]) as usize;
    if flen + 10 > n {
        return None;
    }
    let start = n - 10 - flen;
    let footer = arrow_ipc::root_as_footer(&bytes[start..n - 10]).ok()?;
    let conv = |b: &arrow_ipc::Block| json!({"off": b.offset(), "meta": b.metaDataLength(), "body": b.bodyLength()});
    let d: Vec<Value> = footer.dictionaries().map(|v| v.iter().map(conv).collect()).unwrap_or_default();
    let r: Vec<Value> = footer.recordBatches().map(|v| v.iter().map(conv).collect()).unwrap_or_default();
    Some((d, r, start))
}

/// the dictionary ids of a schema in the writer's order; flag = nested inside another dictionary's values
pub fn schema_dicts(s: &Schema) -> Vec<bool> {
    fn ty(t: &DataType, inner: bool, out: &mut Vec<bool>) {
        use DataType::*;
        match t {
            Dictionary(_, v) => {
                kids(v, true, out);
                out.push(inner);
            }
            _ => kids(t, inner, out),
        }
    }
    fn kids(t: &DataType, inner: bool, out: &mut Vec<bool>) {
        use DataType::*;
        match t {
            Struct(fs) => fs.iter().for_each(|f| ty(f.data_type(), inner, out)),
            RunEndEncoded(_, v) => ty(v.data_type(), inner, out),
            List(f) | LargeList(f) | ListView(f) | LargeListView(f) | FixedSizeList(f, _) => ty(f.data_type(), inner, out),
            Map(f, _) => {
                if let Struct(kv) = f.data_type() {
                    kv.iter().for_each(|f| ty(f.data_type(), inner, out));
                }
            }
            Union(fs, _) => fs.iter().for_each(|(_, f)| ty(f.data_type(), inner, out)),
            _ => {}
        }
    }
    let mut out = vec![];
    for f in s.fields() {
        ty(f.data_type(), false, &mut out);
    }
    out
}
