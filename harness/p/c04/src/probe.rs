//! minimal reproductions of what the C04 check found (diagnostic aid: `c04 probe`)
use arrow_array::types::*;
use arrow_array::*;
use arrow_ipc::reader::{FileReader, StreamReader};
use arrow_ipc::writer::{FileWriter, IpcWriteOptions, StreamWriter};
use arrow_ipc::MetadataVersion;
use arrow_schema::{DataType, Field, Schema};
use std::sync::Arc;

fn roundtrip(name: &str, schema: Arc<Schema>, batch: RecordBatch, opts: IpcWriteOptions) {
    let mut w = StreamWriter::try_new_with_options(Vec::new(), &schema, opts.clone()).unwrap();
    let r = w.write(&batch);
    w.finish().unwrap();
    let bytes = w.into_inner().unwrap();
    print!("{name}: stream write {:?}; ", r.map_err(|e| e.to_string()));
    match StreamReader::try_new(std::io::Cursor::new(bytes), None) {
        Ok(rd) => {
            for b in rd {
                match b {
                    Ok(b) => print!("read {:?}; ", vcore::tok::batch_rows(&b)),
                    Err(e) => print!("read error {e}; "),
                }
            }
        }
        Err(e) => print!("open error {e}"),
    }
    println!(" expected {:?}", vcore::tok::batch_rows(&batch));
    let mut w = FileWriter::try_new_with_options(Vec::new(), &schema, opts).unwrap();
    let r = w.write(&batch);
    w.finish().unwrap();
    let bytes = w.into_inner().unwrap();
    print!("{name}: file write {:?}; ", r.map_err(|e| e.to_string()));
    match FileReader::try_new(std::io::Cursor::new(bytes), None) {
        Ok(rd) => {
            for b in rd {
                match b {
                    Ok(b) => print!("read {:?}; ", vcore::tok::batch_rows(&b)),
                    Err(e) => print!("read error {e}; "),
                }
            }
        }
        Err(e) => print!("open error {e}"),
    }
    println!();
}

pub fn run() {
    // RunEndEncoded under metadata V4
    let ree = RunArray::<Int16Type>::try_new(&Int16Array::from(vec![2i16, 3]), &Int64Array::from(vec![Some(7), None])).unwrap();
    let schema = Arc::new(Schema::new(vec![Field::new("r", ree.data_type().clone(), false)]));
    let batch = RecordBatch::try_new(schema.clone(), vec![Arc::new(ree)]).unwrap();
    roundtrip("ree-v4", schema.clone(), batch.clone(), IpcWriteOptions::try_new(8, false, MetadataVersion::V4).unwrap());
    roundtrip("ree-v5", schema, batch, IpcWriteOptions::try_new(8, false, MetadataVersion::V5).unwrap());
    // empty RunEndEncoded array (a zero-length slice)
    let ree = RunArray::<Int32Type>::try_new(&Int32Array::from(vec![2, 3]), &StringArray::from(vec![Some("a"), None])).unwrap();
    let schema = Arc::new(Schema::new(vec![Field::new("r", ree.data_type().clone(), false)]));
    for (o, n) in [(1usize, 0usize), (0, 0), (3, 0), (1, 1)] {
        let batch = RecordBatch::try_new(schema.clone(), vec![Arc::new(ree.slice(o, n))]).unwrap();
        roundtrip(&format!("ree-slice({o},{n})"), schema.clone(), batch, IpcWriteOptions::default());
    }
    let empty = RunArray::<Int32Type>::try_new(&Int32Array::from(Vec::<i32>::new()), &StringArray::from(Vec::<&str>::new())).unwrap();
    roundtrip("ree-empty", schema.clone(), RecordBatch::try_new(schema.clone(), vec![Arc::new(empty)]).unwrap(), IpcWriteOptions::default());
    let _ = DataType::Null;
}
