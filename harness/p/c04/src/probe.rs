//! minimal reproductions of what the C04 check found (diagnostic aid: `c04 probe`)
use arrow_array::types::*;
use arrow_array::*;
use arrow_ipc::reader::{FileReader, StreamReader};
use arrow_ipc::writer::{FileWriter, IpcWriteOptions, StreamWriter};
use arrow_ipc::MetadataVersion;
use arrow_schema::{DataType, Field, Schema};
use std::sync::Arc;

fn roundtrip(name: &str, schema: Arc<Schema>, batch: RecordBatch, opts: IpcWriteOptions) {
    let mut w = StreamWriter::try_new_with_options(Vec::new(), &schema, opts.clone()).unwrap();
    let r = w.write(&batch);
    w.finish().unwrap();
    let bytes = w.into_inner().unwrap();
    print!("{name}: stream write {:?}; ", r.map_err(|e| e.to_string()));
    match StreamReader::try_new(std::io::Cursor::new(bytes), None) {
        Ok(rd) => {
            for b in rd {
                match b {
                    Ok(b) => print!("read {:?}; ", vcore::tok::batch_rows(&b)),
                    Err(e) => print!("read error {e}; "),
                }
            }
        }
        Err(e) => print!("open error {e}"),
    }
    println!(" expected {:?}", vcore::tok::batch_rows(&batch));
    let mut w = FileWriter::try_new_with_options(Vec::new(), &schema, opts).unwrap();
    let r = w.write(&batch);
    w.finish().unwrap();
    let bytes = w.into_inner().unwrap();
    print!("{name}: file write {:?}; ", r.map_err(|e| e.to_string()));
    match FileReader::try_new(std::io::Cursor::new(bytes), None) {
        Ok(rd) => {
            for b in rd {
                match b {
                    Ok(b) => print!("read {:?}; ", vcore::tok::batch_rows(&b)),
                    Err(e) => print!("read error {e}; "),
                }
            }
        }
        Err(e) => print!("open error {e}"),
    }
    println!();
}

/// C04-file-delta-tracker-ahead
fn tracker_ahead() {
    use arrow_ipc::writer::DictionaryHandling;
    let dt = DataType::Dictionary(Box::new(DataType::Int8), Box::new(DataType::Utf8));
    let schema = Arc::new(Schema::new(vec![Field::new("a", dt.clone(), true), Field::new("b", dt, true)]));
    let d = |keys: Vec<i8>, vals: Vec<&str>| Arc::new(DictionaryArray::<Int8Type>::new(Int8Array::from(keys), Arc::new(StringArray::from(vals)))) as ArrayRef;
    let b1 = RecordBatch::try_new(schema.clone(), vec![d(vec![0], vec!["a"]), d(vec![0], vec!["x"])]).unwrap();
    let b2 = RecordBatch::try_new(schema.clone(), vec![d(vec![1], vec!["a", "b"]), d(vec![0], vec!["y"])]).unwrap();
    let b3 = RecordBatch::try_new(schema.clone(), vec![d(vec![1], vec!["a", "b", "c"]), d(vec![0], vec!["x"])]).unwrap();
    let opts = IpcWriteOptions::default().with_dictionary_handling(DictionaryHandling::Delta);
    let mut w = FileWriter::try_new_with_options(Vec::new(), &schema, opts).unwrap();
    for (i, b) in [&b1, &b2, &b3].iter().enumerate() {
        println!("tracker-ahead: write {} -> {:?}", i + 1, w.write(b).map_err(|e| e.to_string().chars().take(60).collect::<String>()));
    }
    w.finish().unwrap();
    let r = FileReader::try_new(std::io::Cursor::new(w.into_inner().unwrap()), None).unwrap();
    for b in r {
        println!("tracker-ahead: read {:?}", b.map(|b| vcore::tok::batch_rows(&b)).map_err(|e| e.to_string()));
    }
    println!("tracker-ahead: third batch was written as {:?}", vcore::tok::batch_rows(&b3));
}

/// C04-stream-decoder-dense-union-unaligned
fn dense_union_decoder() {
    use arrow_schema::{UnionFields, UnionMode};
    let fields = UnionFields::try_new(vec![0, 1], vec![Field::new("i", DataType::Int32, true), Field::new("s", DataType::Utf8, true)]).unwrap();
    let u = UnionArray::try_new(fields.clone(), vec![0i8, 1, 0].into(), Some(vec![0i32, 0, 1].into()), vec![Arc::new(Int32Array::from(vec![1, 2])), Arc::new(StringArray::from(vec!["x"]))]).unwrap();
    let schema = Arc::new(Schema::new(vec![Field::new("u", DataType::Union(fields, UnionMode::Dense), false)]));
    let batch = RecordBatch::try_new(schema.clone(), vec![Arc::new(u)]).unwrap();
    let mut w = StreamWriter::try_new(Vec::new(), &schema).unwrap();
    w.write(&batch).unwrap();
    w.finish().unwrap();
    let bytes = w.into_inner().unwrap();
    for shift in [0usize, 1] {
        // the same stream, starting at an aligned / odd address of the caller's buffer
        let mut padded = vec![0u8; shift];
        padded.extend_from_slice(&bytes);
        let r = vcore::guarded(|| {
            let mut d = arrow_ipc::reader::StreamDecoder::new();
            let mut buf = arrow_buffer::Buffer::from(padded).slice(shift);
            let mut n = 0;
            while !buf.is_empty() {
                if d.decode(&mut buf).unwrap().is_some() {
                    n += 1;
                }
            }
            n
        });
        println!("dense-union StreamDecoder, buffer shifted by {shift}: {r:?}");
    }
}

/// C04-flight-union-field-flags-lost
fn flight_union_flags() {
    use arrow_schema::{UnionFields, UnionMode};
    use futures::TryStreamExt;
    let fields = UnionFields::try_new(vec![0], vec![Field::new("i", DataType::Int32, true)]).unwrap();
    let u = UnionArray::try_new(fields.clone(), vec![0i8].into(), None, vec![Arc::new(Int32Array::from(vec![1]))]).unwrap();
    let f = Field::new("u", DataType::Union(fields, UnionMode::Sparse), true).with_metadata(std::collections::HashMap::from([("k".to_string(), "v".to_string())]));
    let schema = Arc::new(Schema::new(vec![f]));
    let batch = RecordBatch::try_new(schema.clone(), vec![Arc::new(u)]).unwrap();
    let enc = arrow_flight::encode::FlightDataEncoderBuilder::new().build(futures::stream::iter(vec![Ok(batch)]));
    let msgs: Vec<arrow_flight::FlightData> = futures::executor::block_on(enc.try_collect()).unwrap();
    let mut st = arrow_flight::decode::FlightRecordBatchStream::new_from_flight_data(futures::stream::iter(msgs.into_iter().map(Ok)));
    let _: Vec<RecordBatch> = futures::executor::block_on((&mut st).try_collect()).unwrap();
    println!("flight union field in : {:?}", schema.field(0));
    println!("flight union field out: {:?}", st.schema().unwrap().field(0));
}

/// union as the child of a sliced list
fn union_in_sliced_list() {
    use arrow_buffer::OffsetBuffer;
    use arrow_schema::{UnionFields, UnionMode};
    for mode in [UnionMode::Sparse, UnionMode::Dense] {
        let fields = UnionFields::try_new(vec![0, 1], vec![Field::new("i", DataType::Int32, true), Field::new("s", DataType::Utf8, true)]).unwrap();
        let tids: Vec<i8> = vec![0, 1, 0, 1, 0];
        let u = match mode {
            UnionMode::Sparse => UnionArray::try_new(fields.clone(), tids.into(), None, vec![Arc::new(Int32Array::from(vec![10, 11, 12, 13, 14])), Arc::new(StringArray::from(vec!["a", "b", "c", "d", "e"]))]),
            UnionMode::Dense => UnionArray::try_new(fields.clone(), tids.into(), Some(vec![0i32, 0, 1, 1, 2].into()), vec![Arc::new(Int32Array::from(vec![10, 12, 14])), Arc::new(StringArray::from(vec!["b", "d"]))]),
        }
        .unwrap();
        let item = Arc::new(Field::new("item", DataType::Union(fields, mode), true));
        let l = ListArray::new(item.clone(), OffsetBuffer::new(vec![0i32, 2, 3, 5].into()), Arc::new(u), None);
        let schema = Arc::new(Schema::new(vec![Field::new("l", DataType::List(item), true)]));
        let batch = RecordBatch::try_new(schema.clone(), vec![Arc::new(l)]).unwrap();
        roundtrip(&format!("list<{mode:?} union> unsliced"), schema.clone(), batch.clone(), IpcWriteOptions::default());
        roundtrip(&format!("list<{mode:?} union> slice(1,2)"), schema.clone(), batch.slice(1, 2), IpcWriteOptions::default());
    }
}

/// ArrayData equality of dictionary arrays whose keys are all null but whose dictionaries differ
fn null_key_dictionary_equality() {
    use arrow_buffer::OffsetBuffer;
    let d = |vals: Vec<Option<&[u8]>>| Arc::new(DictionaryArray::<Int8Type>::new(Int8Array::from(vec![None, None, None, None]), Arc::new(BinaryArray::from(vals)))) as ArrayRef;
    let a = d(vec![None]);
    let b = d(vec![]);
    println!("null-key dictionaries: tokens {:?} vs {:?}; ArrayData equal: {}", vcore::tok::rows(a.as_ref()), vcore::tok::rows(b.as_ref()), a.to_data() == b.to_data());
    let item = Arc::new(Field::new("item", a.data_type().clone(), true));
    let l = |c: ArrayRef| ListArray::new(item.clone(), OffsetBuffer::new(vec![0i32, 2, 4].into()), c, None);
    println!("lists of them: ArrayData equal: {}", l(a).to_data() == l(b).to_data());
}

pub fn run() {
    // RunEndEncoded under metadata V4
    let ree = RunArray::<Int16Type>::try_new(&Int16Array::from(vec![2i16, 3]), &Int64Array::from(vec![Some(7), None])).unwrap();
    let schema = Arc::new(Schema::new(vec![Field::new("r", ree.data_type().clone(), false)]));
    let batch = RecordBatch::try_new(schema.clone(), vec![Arc::new(ree)]).unwrap();
    roundtrip("ree-v4", schema.clone(), batch.clone(), IpcWriteOptions::try_new(8, false, MetadataVersion::V4).unwrap());
    roundtrip("ree-v5", schema, batch, IpcWriteOptions::try_new(8, false, MetadataVersion::V5).unwrap());
    // empty RunEndEncoded array (a zero-length slice)
    let ree = RunArray::<Int32Type>::try_new(&Int32Array::from(vec![2, 3]), &StringArray::from(vec![Some("a"), None])).unwrap();
    let schema = Arc::new(Schema::new(vec![Field::new("r", ree.data_type().clone(), false)]));
    for (o, n) in [(1usize, 0usize), (0, 0), (3, 0), (1, 1)] {
        let batch = RecordBatch::try_new(schema.clone(), vec![Arc::new(ree.slice(o, n))]).unwrap();
        roundtrip(&format!("ree-slice({o},{n})"), schema.clone(), batch, IpcWriteOptions::default());
    }
    let empty = RunArray::<Int32Type>::try_new(&Int32Array::from(Vec::<i32>::new()), &StringArray::from(Vec::<&str>::new())).unwrap();
    roundtrip("ree-empty", schema.clone(), RecordBatch::try_new(schema.clone(), vec![Arc::new(empty)]).unwrap(), IpcWriteOptions::default());
    union_in_sliced_list();
    null_key_dictionary_equality();
    tracker_ahead();
    dense_union_decoder();
    flight_union_flags();
}
