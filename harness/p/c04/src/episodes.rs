//! Inputs (never an oracle): writer sessions = a schema, a sequence of record batches and write options.
//!  * zoo episodes: schemas over every data type, batches cut out of long columns at arbitrary offsets,
//!    different physical realisations, empty batches, zero-column batches, field / schema metadata;
//!  * dictionary episodes: schemas with several (nested) dictionaries whose value arrays evolve from
//!    batch to batch: the same array, an equal copy, extended, shrunk, changed, reversed, emptied.
use arrow_array::types::*;
use arrow_array::*;
use arrow_buffer::{NullBuffer, OffsetBuffer};
use arrow_ipc::writer::{DictionaryHandling, IpcWriteOptions};
use arrow_ipc::{CompressionType, MetadataVersion};
use arrow_schema::{ArrowError, DataType, Field, Fields, Schema, SchemaRef, UnionFields, UnionMode};
use std::collections::HashMap;
use std::sync::Arc;
use vcore::mk::{self, Cfg};
use vcore::{mutate, tok, Rng};

#[derive(Clone, Debug)]
pub struct Opts {
    pub align: usize,
    pub ver: i32,
    pub legacy: bool,
    pub comp: &'static str,
    /// zstd compression level (try_with_compression_level)
    pub level: Option<i32>,
    pub delta: bool,
}

impl Opts {
    pub fn random(rng: &mut Rng) -> Opts {
        let align = *rng.pick(&[8usize, 16, 32, 64]);
        let ver = if rng.chance(30) { 4 } else { 5 };
        let legacy = ver == 4 && rng.chance(40);
        let comp = if ver == 5 { *rng.pick(&["none", "none", "lz4", "zstd"]) } else { "none" };
        let level = if comp == "zstd" && rng.chance(50) { Some(*rng.pick(&[1, 3, 9])) } else { None };
        Opts { align, ver, legacy, comp, level, delta: rng.chance(50) }
    }
    pub fn ipc(&self) -> Result<IpcWriteOptions, ArrowError> {
        let v = if self.ver == 4 { MetadataVersion::V4 } else { MetadataVersion::V5 };
        let o = IpcWriteOptions::try_new(self.align, self.legacy, v)?;
        let o = match self.comp {
            "lz4" => o.try_with_compression(Some(CompressionType::LZ4_FRAME))?,
            "zstd" => o.try_with_compression(Some(CompressionType::ZSTD))?,
            _ => o,
        };
        let o = if self.level.is_some() { o.try_with_compression_level(self.level)? } else { o };
        Ok(o.with_dictionary_handling(if self.delta { DictionaryHandling::Delta } else { DictionaryHandling::Resend }))
    }
    pub fn hand(&self) -> &'static str {
        if self.delta { "delta" } else { "resend" }
    }
}

pub struct Episode {
    pub name: String,
    pub schema: SchemaRef,
    pub batches: Vec<RecordBatch>,
    /// how each batch was made (information for whoever reads a rejected event)
    pub evo: Vec<String>,
}

fn fld(name: &str, t: DataType, nullable: bool) -> Arc<Field> {
    Arc::new(Field::new(name, t, nullable))
}

/// nested types that carry dictionaries at places the writer has to find
pub fn nested_dict_types() -> Vec<DataType> {
    use DataType::*;
    let d8 = Dictionary(Box::new(Int8), Box::new(Utf8));
    let d32 = Dictionary(Box::new(Int32), Box::new(Int64));
    let kv = fld("entries", Struct(Fields::from(vec![Field::new("key", Utf8, false), Field::new("value", d8.clone(), true)])), false);
    vec![
        Struct(Fields::from(vec![Field::new("a", d8.clone(), true), Field::new("n", Int32, true), Field::new("b", d32.clone(), true)])),
        LargeList(fld("item", d32.clone(), true)),
        FixedSizeList(fld("item", d8.clone(), true), 2),
        ListView(fld("item", d8.clone(), true)),
        Map(kv, false),
        RunEndEncoded(fld("run_ends", Int32, false), fld("values", d8.clone(), true)),
        Union(UnionFields::try_new(vec![0, 1], vec![Field::new("d", d8.clone(), true), Field::new("i", Int32, true)]).unwrap(), UnionMode::Sparse),
        Union(UnionFields::try_new(vec![2, 5], vec![Field::new("d", d32.clone(), true), Field::new("s", Utf8, true)]).unwrap(), UnionMode::Dense),
        Dictionary(Box::new(Int8), Box::new(List(fld("item", d8.clone(), true)))),
        Dictionary(Box::new(Int16), Box::new(Struct(Fields::from(vec![Field::new("x", d8.clone(), true), Field::new("y", Int8, true)])))),
        Dictionary(Box::new(UInt8), Box::new(Utf8View)),
        Dictionary(Box::new(Int32), Box::new(FixedSizeBinary(2))),
        List(fld("item", Struct(Fields::from(vec![Field::new("k", d8, true)])), true)),
    ]
}

fn rand_meta(rng: &mut Rng) -> HashMap<String, String> {
    let mut m = HashMap::new();
    if rng.chance(35) {
        for _ in 0..1 + rng.below(2) {
            m.insert(["k", "key two", "é", ""][rng.below(4)].to_string(), ["v", "", "a much longer metadata value \u{1F600}", "x=y"][rng.below(4)].to_string());
        }
    }
    m
}

fn realise(rng: &mut Rng, a: &ArrayRef) -> (String, ArrayRef) {
    let rs = mutate::realisations(rng, a, 6);
    let (name, r) = rs[rng.below(rs.len())].clone();
    // a mutator that changed the logical content (or panics on projection) is not used
    let same = vcore::guarded(|| r.len() == a.len() && r.data_type() == a.data_type() && tok::rows(r.as_ref()) == tok::rows(a.as_ref())).unwrap_or(false);
    if same { (name, r) } else { ("orig".into(), a.clone()) }
}

/// a session over the type zoo
pub fn zoo(rng: &mut Rng, types: &[DataType], max_rows: usize) -> Episode {
    let ncols = if rng.chance(7) { 0 } else { 1 + rng.below(4) };
    let total = mk::rand_len(rng, max_rows);
    let mut fields = vec![];
    let mut long: Vec<ArrayRef> = vec![];
    let mut how = vec![];
    for c in 0..ncols {
        let t = rng.pick(types).clone();
        let nullable = rng.chance(75);
        let name = match rng.below(12) {
            0 => String::new(),
            1 => format!("naïve \"{c}\""),
            _ => format!("c{c}"),
        };
        let np = *rng.pick(&[0usize, 20, 50]);
        let cfg = Cfg::wild(if nullable { np } else { 0 });
        let a = mk::array(rng, &t, total, cfg);
        let (h, a) = if rng.chance(50) { realise(rng, &a) } else { ("orig".to_string(), a) };
        // a column with physical nulls cannot sit in a non-nullable field
        let nullable = nullable || a.null_count() > 0 || a.logical_null_count() > 0;
        fields.push(Field::new(name, t, nullable).with_metadata(rand_meta(rng)));
        long.push(a);
        how.push(h);
    }
    let schema = Arc::new(Schema::new(fields).with_metadata(rand_meta(rng)));
    let nb = rng.below(5);
    let mut batches = vec![];
    let mut evo = vec![];
    for _ in 0..nb {
        let off = rng.below(total + 1);
        let len = if rng.chance(12) { 0 } else { rng.below(total - off + 1) };
        let mut cols = vec![];
        let mut tags = vec![];
        for (c, a) in long.iter().enumerate() {
            let s = a.slice(off, len);
            if rng.chance(25) {
                let (h, r) = realise(rng, &s);
                tags.push(format!("{}/{h}", how[c]));
                cols.push(r);
            } else {
                tags.push(how[c].clone());
                cols.push(s);
            }
        }
        let opts = RecordBatchOptions::new().with_row_count(Some(len));
        match RecordBatch::try_new_with_options(schema.clone(), cols, &opts) {
            Ok(b) => {
                batches.push(b);
                evo.push(format!("slice({off},{len}) {}", tags.join(",")));
            }
            Err(_) => {} // a realisation the batch constructor refuses: not a case
        }
    }
    Episode { name: "zoo".into(), schema, batches, evo }
}

// ------------------------------------------------------------------------------- dictionary episodes
struct Slot {
    kt: DataType,
    vt: DataType,
    pool: ArrayRef,
    cur: Vec<u32>,
    arr: ArrayRef,
}

fn take_pool(pool: &ArrayRef, cur: &[u32]) -> ArrayRef {
    arrow_select::take::take(pool.as_ref(), &UInt32Array::from(cur.to_vec()), None).unwrap()
}

impl Slot {
    fn new(rng: &mut Rng) -> Slot {
        use DataType::*;
        let vt = rng
            .pick(&[Utf8, Utf8, Int64, LargeUtf8, Utf8View, Decimal128(20, 2), Float64, FixedSizeBinary(3), Boolean, List(fld("item", Int32, true)), Binary])
            .clone();
        let kt = rng.pick(&[Int8, Int8, Int32, UInt16, Int64]).clone();
        let np = *rng.pick(&[0usize, 0, 20]);
        let pool = mk::array(rng, &vt, 7, Cfg::wild(np));
        let n = rng.below(4);
        let cur: Vec<u32> = (0..n).map(|_| rng.below(7) as u32).collect();
        let arr = take_pool(&pool, &cur);
        Slot { kt, vt, pool, cur, arr }
    }
    fn dtype(&self) -> DataType {
        DataType::Dictionary(Box::new(self.kt.clone()), Box::new(self.vt.clone()))
    }
    /// next batch's dictionary; returns the name of the step
    fn evolve(&mut self, rng: &mut Rng) -> &'static str {
        let n = self.cur.len();
        let op = *rng.pick(&["same", "same", "copy", "ext", "ext", "ext2", "shrink", "last", "first", "rev", "empty", "fresh"]);
        match op {
            "same" => return "same",
            "copy" => {}
            "ext" => self.cur.push(rng.below(7) as u32),
            "ext2" => {
                self.cur.push(rng.below(7) as u32);
                self.cur.push(rng.below(7) as u32);
            }
            "shrink" => {
                self.cur.pop();
            }
            "last" if n > 0 => self.cur[n - 1] = (self.cur[n - 1] + 1 + rng.below(6) as u32) % 7,
            "first" if n > 0 => self.cur[0] = (self.cur[0] + 1 + rng.below(6) as u32) % 7,
            "rev" => self.cur.reverse(),
            "empty" => self.cur.clear(),
            "fresh" => self.cur = (0..rng.below(4)).map(|_| rng.below(7) as u32).collect(),
            _ => {}
        }
        if self.cur.len() > 8 {
            self.cur.truncate(8);
        }
        self.arr = take_pool(&self.pool, &self.cur);
        op
    }
    /// a dictionary array of `len` rows over the current values
    fn array(&self, rng: &mut Rng, len: usize, nullable: bool) -> ArrayRef {
        let m = self.arr.len();
        let ks: Vec<Option<i64>> = (0..len).map(|_| if m == 0 || (nullable && rng.chance(15)) { None } else { Some(rng.below(m) as i64) }).collect();
        dict_from(&self.kt, &ks, self.arr.clone())
    }
}

fn dict_from(kt: &DataType, ks: &[Option<i64>], values: ArrayRef) -> ArrayRef {
    macro_rules! go {
        ($t:ty) => {{
            let keys: PrimitiveArray<$t> = ks.iter().map(|k| k.map(|x| x as <$t as ArrowPrimitiveType>::Native)).collect();
            Arc::new(DictionaryArray::<$t>::try_new(keys, values).unwrap()) as ArrayRef
        }};
    }
    match kt {
        DataType::Int8 => go!(Int8Type),
        DataType::Int16 => go!(Int16Type),
        DataType::Int32 => go!(Int32Type),
        DataType::Int64 => go!(Int64Type),
        DataType::UInt8 => go!(UInt8Type),
        DataType::UInt16 => go!(UInt16Type),
        DataType::UInt32 => go!(UInt32Type),
        _ => go!(UInt64Type),
    }
}

fn list_offsets(rng: &mut Rng, len: usize) -> (OffsetBuffer<i32>, usize) {
    let mut v = vec![0i32];
    let mut acc = 0usize;
    for _ in 0..len {
        acc += rng.below(3);
        v.push(acc as i32);
    }
    (OffsetBuffer::new(v.into()), acc)
}

fn some_nulls(rng: &mut Rng, len: usize) -> Option<NullBuffer> {
    if rng.chance(50) { None } else { Some(NullBuffer::from((0..len).map(|_| !rng.chance(20)).collect::<Vec<bool>>())) }
}

/// a session whose dictionaries evolve; `shape` selects where the dictionaries sit in the schema
pub fn dict_episode(rng: &mut Rng, shape: usize, nbatches: usize) -> Episode {
    use DataType::*;
    let mut s1 = Slot::new(rng);
    let mut s2 = Slot::new(rng);
    let mut s3 = Slot::new(rng);
    // shape 4: the outer dictionary's values are lists of keys into s1 (nested dictionary)
    let mut outer_entries: Vec<Vec<Option<i64>>> = vec![];
    let mut outer_cur: Vec<usize> = vec![];
    let mut outer_arr: Option<ArrayRef> = None;
    let inner_t = s1.dtype();
    let outer_vt = List(fld("item", inner_t.clone(), true));
    let names = ["one", "two-dicts", "list", "struct", "nested", "three", "map", "ree", "union"];
    let schema = match shape {
        0 => Schema::new(vec![Field::new("d", s1.dtype(), true)]),
        1 => Schema::new(vec![Field::new("d1", s1.dtype(), true), Field::new("i", Int32, true), Field::new("d2", s2.dtype(), true)]),
        2 => Schema::new(vec![Field::new("l", List(fld("item", s1.dtype(), true)), true)]),
        3 => Schema::new(vec![Field::new(
            "s",
            Struct(Fields::from(vec![Field::new("a", s1.dtype(), true), Field::new("x", Int32, true), Field::new("b", s2.dtype(), true)])),
            true,
        )]),
        4 => Schema::new(vec![Field::new("o", Dictionary(Box::new(Int8), Box::new(outer_vt.clone())), true), Field::new("d2", s2.dtype(), true)]),
        5 => Schema::new(vec![Field::new("d1", s1.dtype(), true), Field::new("d2", s2.dtype(), true), Field::new("d3", s3.dtype(), true)]),
        6 => {
            let kv = fld("entries", Struct(Fields::from(vec![Field::new("key", Int32, false), Field::new("value", s1.dtype(), true)])), false);
            Schema::new(vec![Field::new("m", Map(kv, false), true), Field::new("d2", s2.dtype(), true)])
        }
        7 => Schema::new(vec![Field::new("r", RunEndEncoded(fld("run_ends", Int32, false), fld("values", s1.dtype(), true)), true), Field::new("d2", s2.dtype(), true)]),
        _ => Schema::new(vec![
            Field::new("u", Union(UnionFields::try_new(vec![0, 1], vec![Field::new("d", s1.dtype(), true), Field::new("e", s2.dtype(), true)]).unwrap(), UnionMode::Sparse), false),
            Field::new("d3", s3.dtype(), true),
        ]),
    };
    let schema = Arc::new(schema);
    let mut batches = vec![];
    let mut evo = vec![];
    for b in 0..nbatches {
        let mut ops: Vec<String> = vec![];
        if b > 0 {
            let before = (s1.cur.clone(), s1.arr.clone());
            ops.push(s1.evolve(rng).to_string());
            ops.push(s2.evolve(rng).to_string());
            ops.push(s3.evolve(rng).to_string());
            if shape == 4 {
                let op = *rng.pick(&["same", "same", "copy", "ext", "ext", "shrink", "last", "rev", "empty"]);
                if op == "same" {
                    // the outer values array embeds the inner dictionary: it stays as it was
                    s1.cur = before.0;
                    s1.arr = before.1;
                    ops[0] = "same".into();
                } else {
                    match op {
                        "ext" => outer_cur.push(usize::MAX),
                        "shrink" => {
                            outer_cur.pop();
                        }
                        "last" => {
                            if let Some(x) = outer_cur.last_mut() {
                                *x = usize::MAX;
                            }
                        }
                        "rev" => outer_cur.reverse(),
                        "empty" => outer_cur.clear(),
                        _ => {}
                    }
                    outer_arr = None;
                }
                ops.push(format!("outer:{op}"));
            }
        }
        let len = if rng.chance(10) { 0 } else { 1 + rng.below(7) };
        let i32col = |rng: &mut Rng, n: usize| Arc::new(Int32Array::from((0..n).map(|_| if rng.chance(20) { None } else { Some(rng.range(-5, 5) as i32) }).collect::<Vec<_>>())) as ArrayRef;
        let cols: Vec<ArrayRef> = match shape {
            0 => vec![s1.array(rng, len, true)],
            1 => vec![s1.array(rng, len, true), i32col(rng, len), s2.array(rng, len, true)],
            2 => {
                let (o, n) = list_offsets(rng, len);
                vec![Arc::new(ListArray::new(fld("item", s1.dtype(), true), o, s1.array(rng, n, true), some_nulls(rng, len)))]
            }
            3 => {
                let Struct(fs) = schema.field(0).data_type().clone() else { unreachable!() };
                vec![Arc::new(StructArray::new(fs, vec![s1.array(rng, len, true), i32col(rng, len), s2.array(rng, len, true)], some_nulls(rng, len)))]
            }
            4 => {
                if b == 0 {
                    outer_cur = (0..rng.below(3)).map(|_| usize::MAX).collect();
                }
                if outer_arr.is_none() {
                    // entries marked usize::MAX are new: lists of keys into the inner dictionary as it is now
                    for x in outer_cur.iter_mut() {
                        if *x == usize::MAX {
                            let m = s1.arr.len();
                            outer_entries.push((0..rng.below(3)).map(|_| if m == 0 || rng.chance(15) { None } else { Some(rng.below(m) as i64) }).collect());
                            *x = outer_entries.len() - 1;
                        }
                    }
                    let m = s1.arr.len() as i64;
                    let mut keys: Vec<Option<i64>> = vec![];
                    let mut offs = vec![0i32];
                    for e in &outer_cur {
                        for k in &outer_entries[*e] {
                            keys.push(k.filter(|k| *k < m));
                        }
                        offs.push(keys.len() as i32);
                    }
                    let child = dict_from(&s1.kt, &keys, s1.arr.clone());
                    outer_arr = Some(Arc::new(ListArray::new(fld("item", inner_t.clone(), true), OffsetBuffer::new(offs.into()), child, None)));
                }
                let vals = outer_arr.clone().unwrap();
                let m = vals.len();
                let ks: Vec<Option<i64>> = (0..len).map(|_| if m == 0 || rng.chance(15) { None } else { Some(rng.below(m) as i64) }).collect();
                vec![dict_from(&Int8, &ks, vals), s2.array(rng, len, true)]
            }
            5 => vec![s1.array(rng, len, true), s2.array(rng, len, true), s3.array(rng, len, true)],
            6 => {
                let (o, n) = list_offsets(rng, len);
                let Map(kv, _) = schema.field(0).data_type().clone() else { unreachable!() };
                let Struct(fs) = kv.data_type().clone() else { unreachable!() };
                let keys = Arc::new(Int32Array::from((0..n as i32).collect::<Vec<_>>())) as ArrayRef;
                let entries = StructArray::new(fs, vec![keys, s1.array(rng, n, true)], None);
                vec![Arc::new(MapArray::new(kv, o, entries, some_nulls(rng, len), false)), s2.array(rng, len, true)]
            }
            7 => {
                let mut ends = vec![];
                let mut acc = 0usize;
                while acc < len {
                    acc = (acc + 1 + rng.below(3)).min(len);
                    ends.push(acc as i32);
                }
                let vals = s1.array(rng, ends.len(), true);
                vec![Arc::new(RunArray::<Int32Type>::try_new(&Int32Array::from(ends), vals.as_ref()).unwrap()), s2.array(rng, len, true)]
            }
            _ => {
                let Union(ufs, _) = schema.field(0).data_type().clone() else { unreachable!() };
                let tids: Vec<i8> = (0..len).map(|_| rng.below(2) as i8).collect();
                let u = UnionArray::try_new(ufs, tids.into(), None, vec![s1.array(rng, len, true), s2.array(rng, len, true)]).unwrap();
                vec![Arc::new(u), s3.array(rng, len, true)]
            }
        };
        let opts = RecordBatchOptions::new().with_row_count(Some(len));
        let batch = RecordBatch::try_new_with_options(schema.clone(), cols, &opts).expect("dictionary episode batch");
        // sometimes present the batch as a slice of itself (offsets in keys, dictionaries untouched)
        let batch = if len > 1 && rng.chance(25) { batch.slice(1, len - 1) } else { batch };
        batches.push(batch);
        evo.push(if b == 0 { "first".to_string() } else { ops.join(",") });
    }
    Episode { name: format!("dict-{}", names[shape.min(8)]), schema, batches, evo }
}

pub const DICT_SHAPES: usize = 9;

/// the session of known finding C04-file-delta-tracker-ahead: with delta handling the file writer refuses a
/// batch because its second dictionary was replaced, after the tracker has already recorded the extended
/// first dictionary; the next accepted batch is written against a dictionary that was never emitted
pub fn tracker_ahead_episode(rng: &mut Rng) -> Episode {
    let dt = DataType::Dictionary(Box::new(DataType::Int8), Box::new(DataType::Utf8));
    let schema = Arc::new(Schema::new(vec![Field::new("a", dt.clone(), true), Field::new("b", dt, true)]));
    let d = |keys: Vec<i8>, vals: Vec<&str>| Arc::new(DictionaryArray::<Int8Type>::new(Int8Array::from(keys), Arc::new(StringArray::from(vals)))) as ArrayRef;
    let third: Vec<&str> = if rng.chance(50) { vec!["a", "b", "c"] } else { vec!["a", "b"] };
    let k3: Vec<i8> = (0..third.len() as i8).collect();
    let batches = vec![
        RecordBatch::try_new(schema.clone(), vec![d(vec![0], vec!["a"]), d(vec![0], vec!["x"])]).unwrap(),
        RecordBatch::try_new(schema.clone(), vec![d(vec![1], vec!["a", "b"]), d(vec![0], vec!["y"])]).unwrap(),
        RecordBatch::try_new(schema.clone(), vec![d(k3.clone(), third), d(vec![0; k3.len()], vec!["x"])]).unwrap(),
    ];
    Episode { name: "tracker-ahead".into(), schema, batches, evo: vec!["first".into(), "ext,last".into(), "ext|copy,back".into()] }
}
