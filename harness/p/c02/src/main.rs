//! C02 driver: observations <<key, out>> of kernels over many physical realisations of the same
//! logical columns (row-wise kernels: one observation per row), `==` probes and read-back probes.
//! Congruence.tla / Trace_Congruence.tla decide; nothing is compared here.
use arrow_array::cast::AsArray;
use arrow_array::types::*;
use arrow_array::*;
use arrow_schema::{ArrowError, DataType, TimeUnit};
use std::collections::HashMap;
use std::sync::Arc;
use vcore::mk::{self, Cfg};
use vcore::trace::Trace;
use vcore::{guarded, json, mutate, tok, Args, Rng};

struct Obs {
    k: String,
    o: String,
    kernel: String,
    opts: String,
    ty: String,
    fam: String,
}

fn unsupported(msg: &str) -> bool {
    let m = msg.to_ascii_lowercase();
    m.contains("not supported") || m.contains("not yet implemented") || m.contains("not implemented") || m.contains("unsupported")
        || m.contains("invalid arithmetic operation") || m.contains("invalid comparison operation") || m.contains("cannot compare")
        || m.contains("casting from") || m.contains("cannot cast") || m.contains("does not support") || m.contains("invalid string")
}

enum R {
    Rows(Vec<String>),
    Err,
    Skip,
}

/// IEEE-754 does not say which NaN payload (or sign) an operation propagates, and vectorised
/// and scalar code paths differ: every NaN in a kernel OUTPUT is one logical value
fn canon_nan(t: String) -> String {
    let nan = |bits: u64, exp: u64, man: u64| (bits & exp) == exp && (bits & man) != 0;
    let parse = |s: &str| u64::from_str_radix(s, 16).ok();
    let is_nan = match t.as_bytes().first() {
        Some(b'h') if t.len() == 5 => parse(&t[1..]).is_some_and(|b| nan(b, 0x7C00, 0x03FF)),
        Some(b'f') if t.len() == 9 => parse(&t[1..]).is_some_and(|b| nan(b, 0x7F80_0000, 0x007F_FFFF)),
        Some(b'd') if t.len() == 17 => parse(&t[1..]).is_some_and(|b| nan(b, 0x7FF0_0000_0000_0000, 0x000F_FFFF_FFFF_FFFF)),
        _ => false,
    };
    if is_nan { "NaN".to_string() } else { t }
}

fn run_kernel(f: impl FnOnce() -> Result<ArrayRef, ArrowError>) -> R {
    match guarded(f) {
        Ok(Ok(a)) => match guarded(|| tok::rows(a.as_ref())) {
            Ok(r) => R::Rows(r.into_iter().map(canon_nan).collect()),
            Err(_) => R::Err,
        },
        Ok(Err(e)) => {
            if unsupported(&e.to_string()) { R::Skip } else { R::Err }
        }
        Err(p) => {
            if unsupported(&p) { R::Skip } else { R::Err }
        }
    }
}

struct Ctx {
    obs: Vec<Obs>,
    /// type family of the inputs of the kernel calls being recorded
    fam: String,
}

impl Ctx {
    /// whole-array observation + (when row aligned) one observation per row
    fn record(&mut self, kernel: &str, opts: &str, ty: &str, ins: &[&Vec<String>], rowwise: bool, r: R) {
        let whole_key = format!("{kernel}|{opts}|{ty}|ALL|{}", ins.iter().map(|c| c.join(",")).collect::<Vec<_>>().join("||"));
        match r {
            R::Skip => {}
            R::Err => self.obs.push(Obs { k: whole_key, o: "err".into(), kernel: kernel.into(), opts: opts.into(), ty: ty.into(), fam: self.fam.clone() }),
            R::Rows(out) => {
                let n = ins.iter().map(|c| c.len()).max().unwrap_or(0);
                if rowwise && out.len() == n {
                    for i in 0..n {
                        let tuple: Vec<&str> = ins.iter().map(|c| if c.len() == 1 && n != 1 { c[0].as_str() } else { c[i].as_str() }).collect();
                        self.obs.push(Obs { k: format!("{kernel}|{opts}|{ty}|ROW|{}", tuple.join("||")), o: out[i].clone(), kernel: kernel.into(), opts: opts.into(), ty: ty.into(), fam: self.fam.clone() });
                    }
                }
                self.obs.push(Obs { k: whole_key, o: format!("ok:{}", out.join(",")), kernel: kernel.into(), opts: opts.into(), ty: ty.into(), fam: self.fam.clone() });
            }
        }
    }
}

fn small_domain_array(rng: &mut Rng, dt: &DataType, n: usize) -> ArrayRef {
    // Wild profile already draws 3/8 of the values from {0..4} plus type boundaries: many repeated rows
    let np = *rng.pick(&[0usize, 15, 40]);
    mk::array(rng, dt, n, Cfg::wild(np))
}

fn realise(rng: &mut Rng, a: &ArrayRef, k: usize) -> Vec<ArrayRef> {
    let rows = tok::rows(a.as_ref());
    mutate::realisations(rng, a, k)
        .into_iter()
        .filter(|(_, r)| guarded(|| tok::rows(r.as_ref())).ok().as_ref() == Some(&rows))
        .map(|(_, r)| r)
        .collect()
}

fn unary_kernels(rng: &mut Rng, c: &mut Ctx, dt: &DataType, thorough: bool) {
    c.fam = tok::family(dt).to_string();
    let n = mk::rand_len(rng, if thorough { 70 } else { 24 });
    let base = small_domain_array(rng, dt, n);
    let Ok(rows) = guarded(|| tok::rows(base.as_ref())) else { return };
    let ty = tok::type_str(dt);
    for a in realise(rng, &base, 4) {
        let a2 = a.clone();
        c.record("is_null", "", &ty, &[&rows], true, run_kernel(|| arrow_arith::boolean::is_null(a2.as_ref()).map(|x| Arc::new(x) as ArrayRef)));
        c.record("is_not_null", "", &ty, &[&rows], true, run_kernel(|| arrow_arith::boolean::is_not_null(a2.as_ref()).map(|x| Arc::new(x) as ArrayRef)));
        c.record("neg_wrapping", "", &ty, &[&rows], true, run_kernel(|| arrow_arith::numeric::neg_wrapping(a2.as_ref())));
        c.record("neg", "", &ty, &[&rows], true, run_kernel(|| arrow_arith::numeric::neg(a2.as_ref())));
        c.record("length", "", &ty, &[&rows], true, run_kernel(|| arrow_string::length::length(a2.as_ref())));
        c.record("bit_length", "", &ty, &[&rows], true, run_kernel(|| arrow_string::length::bit_length(a2.as_ref())));
        if let DataType::Boolean = dt {
            c.record("not", "", &ty, &[&rows], true, run_kernel(|| arrow_arith::boolean::not(a2.as_boolean()).map(|x| Arc::new(x) as ArrayRef)));
        }
        if dt.is_temporal() {
            for part in [arrow_arith::temporal::DatePart::Year, arrow_arith::temporal::DatePart::Month, arrow_arith::temporal::DatePart::Day,
                         arrow_arith::temporal::DatePart::Hour, arrow_arith::temporal::DatePart::DayOfWeekSunday0, arrow_arith::temporal::DatePart::Nanosecond] {
                c.record("date_part", &format!("{part:?}"), &ty, &[&rows], true, run_kernel(|| arrow_arith::temporal::date_part(a2.as_ref(), part)));
            }
        }
        // casts (safe mode: row failures become nulls; strict mode: whole-array outcome)
        for to in cast_targets(dt) {
            if !arrow_cast::can_cast_types(dt, &to) {
                continue;
            }
            let tos = tok::type_str(&to);
            c.record("cast_safe", &tos, &ty, &[&rows], true, run_kernel(|| arrow_cast::cast(a2.as_ref(), &to)));
            let strict = arrow_cast::CastOptions { safe: false, ..Default::default() };
            c.record("cast_strict", &tos, &ty, &[&rows], true, run_kernel(|| arrow_cast::cast_with_options(a2.as_ref(), &to, &strict)));
        }
        // whole-array kernels on short arrays
        if n <= 24 {
            for (d, nf) in [(false, false), (true, false), (false, true), (true, true)] {
                let so = arrow_schema::SortOptions { descending: d, nulls_first: nf };
                c.record("sort", &format!("{d}{nf}"), &ty, &[&rows], false, run_kernel(|| arrow_ord::sort::sort(a2.as_ref(), Some(so))));
                c.record("rank", &format!("{d}{nf}"), &ty, &[&rows], false,
                    run_kernel(|| arrow_ord::rank::rank(a2.as_ref(), Some(so)).map(|v| Arc::new(UInt32Array::from(v)) as ArrayRef)));
            }
            c.record("partition", "", &ty, &[&rows], false, run_kernel(|| {
                let p = arrow_ord::partition::partition(&[a2.clone()])?;
                let v: Vec<u32> = p.ranges().iter().flat_map(|r| [r.start as u32, r.end as u32]).collect();
                Ok(Arc::new(UInt32Array::from(v)) as ArrayRef)
            }));
            c.record("row_format", "", &ty, &[&rows], true, run_kernel(|| {
                let conv = arrow_row::RowConverter::new(vec![arrow_row::SortField::new(dt.clone())])?;
                let r = conv.convert_columns(&[a2.clone()])?;
                Ok(Arc::new(BinaryArray::from_iter_values(r.iter().map(|x| x.as_ref().to_vec()))) as ArrayRef)
            }));
            for agg in ["min", "max", "sum", "bit_and", "bit_or", "bool_and"] {
                c.record(agg, "", &ty, &[&rows], false, aggregate(agg, a2.as_ref()));
            }
        }
    }
}

fn aggregate(agg: &str, a: &dyn Array) -> R {
    use arrow_arith::aggregate as ag;
    macro_rules! prim {
        ($t:ty) => {{
            let p = a.as_primitive::<$t>();
            let s = match agg {
                "min" => format!("{:?}", ag::min(p)),
                "max" => format!("{:?}", ag::max(p)),
                "sum" => format!("{:?}", ag::sum(p)),
                "bit_and" => format!("{:?}", ag::bit_and(p)),
                "bit_or" => format!("{:?}", ag::bit_or(p)),
                _ => return Err(()),
            };
            Ok::<String, ()>(s)
        }};
    }
    let r = guarded(|| -> Result<String, ()> {
        match a.data_type() {
            DataType::Int8 => prim!(Int8Type),
            DataType::Int32 => prim!(Int32Type),
            DataType::Int64 => prim!(Int64Type),
            DataType::UInt16 => prim!(UInt16Type),
            DataType::UInt64 => prim!(UInt64Type),
            DataType::Float32 => {
                let p = a.as_primitive::<Float32Type>();
                Ok(match agg {
                    "min" => format!("{:?}", ag::min(p).map(|x| x.to_bits())),
                    "max" => format!("{:?}", ag::max(p).map(|x| x.to_bits())),
                    _ => return Err(()),
                })
            }
            DataType::Float64 => {
                let p = a.as_primitive::<Float64Type>();
                Ok(match agg {
                    "min" => format!("{:?}", ag::min(p).map(|x| x.to_bits())),
                    "max" => format!("{:?}", ag::max(p).map(|x| x.to_bits())),
                    _ => return Err(()),
                })
            }
            DataType::Boolean => {
                let p = a.as_boolean();
                Ok(match agg {
                    "min" => format!("{:?}", ag::min_boolean(p)),
                    "max" => format!("{:?}", ag::max_boolean(p)),
                    "bool_and" => format!("{:?}", ag::bool_and(p)),
                    _ => return Err(()),
                })
            }
            DataType::Utf8 => {
                let p = a.as_string::<i32>();
                Ok(match agg {
                    "min" => format!("{:?}", ag::min_string(p)),
                    "max" => format!("{:?}", ag::max_string(p)),
                    _ => return Err(()),
                })
            }
            _ => Err(()),
        }
    });
    match r {
        Ok(Ok(s)) => R::Rows(vec![s]),
        Ok(Err(())) => R::Skip,
        Err(_) => R::Err,
    }
}

fn cast_targets(dt: &DataType) -> Vec<DataType> {
    use DataType::*;
    let mut v = vec![Utf8, Int64, Int8, Float64, LargeUtf8, Utf8View];
    match dt {
        Utf8 | LargeUtf8 | Utf8View => v.extend([Binary, Dictionary(Box::new(Int8), Box::new(Utf8)), Date32, Boolean]),
        Int32 | Int64 | Int8 | UInt8 | UInt64 => v.extend([Decimal128(20, 2), UInt8, Boolean, Dictionary(Box::new(Int32), Box::new(dt.clone())), Timestamp(TimeUnit::Millisecond, None)]),
        Timestamp(_, _) => v.extend([Date32, Timestamp(TimeUnit::Second, None), Timestamp(TimeUnit::Nanosecond, Some("+02:00".into()))]),
        Decimal128(_, _) | Decimal256(_, _) | Decimal32(_, _) | Decimal64(_, _) => v.extend([Decimal128(10, 0), Decimal256(40, 12), Int32]),
        Dictionary(_, vt) => v.push(vt.as_ref().clone()),
        RunEndEncoded(_, vt) => v.push(vt.data_type().clone()),
        List(f) => v.push(LargeList(f.clone())),
        _ => {}
    }
    v
}

fn binary_kernels(rng: &mut Rng, c: &mut Ctx, dt: &DataType, thorough: bool) {
    c.fam = tok::family(dt).to_string();
    // one call in four uses long arrays with very few nulls (kernels switch strategy on the
    // null density / on 64-element chunks); the realisations put garbage under those nulls
    let long = dt.is_primitive() && rng.chance(50);
    let n = if long { *rng.pick(&[64usize, 128, 130, 200, 256, 257]) } else { mk::rand_len(rng, if thorough { 70 } else { 24 }) };
    let sparse = |rng: &mut Rng, len: usize| -> ArrayRef {
        // small non-zero values (1..=3 in the lowest byte) so that checked operations normally
        // succeed: an error can then only come from what sits under the null slot
        let w = dt.primitive_width().unwrap_or(1);
        let mut bytes = vec![0u8; w * len];
        for i in 0..len {
            bytes[i * w] = 1 + rng.below(3) as u8;
        }
        let mut mb = arrow_buffer::MutableBuffer::new(bytes.len());
        mb.extend_from_slice(&bytes);
        let a = match arrow_data::ArrayData::builder(dt.clone()).len(len).add_buffer(mb.into()).build() {
            Ok(d) => make_array(d),
            Err(_) => mk::array(rng, dt, len, Cfg::wild(0)),
        };
        let mut valid = vec![true; len];
        valid[rng.below(len)] = false; // exactly one null: sparse for every kernel heuristic
        let d = a.to_data().into_builder().nulls(Some(arrow_buffer::NullBuffer::from(valid))).build().unwrap();
        make_array(d)
    };
    let b_scalar = !long && rng.chance(25);
    let a = if long { sparse(rng, n) } else { small_domain_array(rng, dt, n) };
    let b = if long { sparse(rng, n) } else { small_domain_array(rng, dt, if b_scalar { 1 } else { n }) };
    let (Ok(ra), Ok(rb)) = (guarded(|| tok::rows(a.as_ref())), guarded(|| tok::rows(b.as_ref()))) else { return };
    let ty = tok::type_str(dt);
    let ras = realise(rng, &a, 4);
    let rbs = realise(rng, &b, 4);
    for x in &ras {
        for y in &rbs {
            type K = fn(&dyn Datum, &dyn Datum) -> Result<ArrayRef, ArrowError>;
            fn b2a(f: fn(&dyn Datum, &dyn Datum) -> Result<BooleanArray, ArrowError>, l: &dyn Datum, r: &dyn Datum) -> Result<ArrayRef, ArrowError> {
                f(l, r).map(|x| Arc::new(x) as ArrayRef)
            }
            let arith: [(&str, K, bool); 8] = [
                ("add_wrapping", arrow_arith::numeric::add_wrapping, true),
                ("sub_wrapping", arrow_arith::numeric::sub_wrapping, true),
                ("mul_wrapping", arrow_arith::numeric::mul_wrapping, true),
                ("add", arrow_arith::numeric::add, true),
                ("sub", arrow_arith::numeric::sub, true),
                ("mul", arrow_arith::numeric::mul, true),
                ("div", arrow_arith::numeric::div, true),
                ("rem", arrow_arith::numeric::rem, true),
            ];
            let sopt = if b_scalar { "scalar" } else { "" };
            for (name, f, rw) in arith {
                let r = run_kernel(|| {
                    let s;
                    let rd: &dyn Datum = if b_scalar { s = Scalar::new(y.clone()); &s } else { y };
                    f(x, rd)
                });
                c.record(name, sopt, &ty, &[&ra, &rb], rw, r);
            }
            let cmps: [(&str, fn(&dyn Datum, &dyn Datum) -> Result<BooleanArray, ArrowError>); 8] = [
                ("eq", arrow_ord::cmp::eq), ("neq", arrow_ord::cmp::neq), ("lt", arrow_ord::cmp::lt), ("lt_eq", arrow_ord::cmp::lt_eq),
                ("gt", arrow_ord::cmp::gt), ("gt_eq", arrow_ord::cmp::gt_eq), ("distinct", arrow_ord::cmp::distinct), ("not_distinct", arrow_ord::cmp::not_distinct),
            ];
            for (name, f) in cmps {
                let r = run_kernel(|| {
                    let s;
                    let rd: &dyn Datum = if b_scalar { s = Scalar::new(y.clone()); &s } else { y };
                    b2a(f, x, rd)
                });
                c.record(name, sopt, &ty, &[&ra, &rb], true, r);
            }
            if let (DataType::Boolean, false) = (dt, b_scalar) {
                let fs: [(&str, fn(&BooleanArray, &BooleanArray) -> Result<BooleanArray, ArrowError>); 5] = [
                    ("and", arrow_arith::boolean::and), ("or", arrow_arith::boolean::or), ("and_kleene", arrow_arith::boolean::and_kleene),
                    ("or_kleene", arrow_arith::boolean::or_kleene), ("and_not", arrow_arith::boolean::and_not),
                ];
                for (name, f) in fs {
                    c.record(name, "", &ty, &[&ra, &rb], true, run_kernel(|| f(x.as_boolean(), y.as_boolean()).map(|v| Arc::new(v) as ArrayRef)));
                }
            }
            if matches!(dt, DataType::Utf8 | DataType::LargeUtf8 | DataType::Utf8View) {
                let fs: [(&str, fn(&dyn Datum, &dyn Datum) -> Result<BooleanArray, ArrowError>); 4] = [
                    ("like", arrow_string::like::like), ("ilike", arrow_string::like::ilike), ("starts_with", arrow_string::like::starts_with), ("contains", arrow_string::like::contains),
                ];
                for (name, f) in fs {
                    let r = run_kernel(|| {
                        let s;
                        let rd: &dyn Datum = if b_scalar { s = Scalar::new(y.clone()); &s } else { y };
                        b2a(f, x, rd)
                    });
                    c.record(name, sopt, &ty, &[&ra, &rb], true, r);
                }
            }
        }
    }
}

/// a dictionary array in which some non-null key references a null dictionary value
fn key_to_null_value(a: &dyn Array) -> bool {
    match a.as_any_dictionary_opt() {
        Some(d) if !d.values().is_empty() && d.values().null_count() > 0 => {
            let k = d.normalized_keys();
            (0..d.len()).any(|i| !d.keys().is_null(i) && d.values().is_null(k[i]))
        }
        _ => false,
    }
}

fn eq_probes(rng: &mut Rng, t: &mut Trace, dt: &DataType) {
    let n = mk::rand_len(rng, 40);
    let a = small_domain_array(rng, dt, n);
    let Ok(rows) = guarded(|| tok::rows(a.as_ref())) else { return };
    let ty = tok::type_str(dt);
    let fam = tok::family(dt);
    let fam = match dt {
        DataType::Union(_, arrow_schema::UnionMode::Sparse) => "union-sparse",
        DataType::Union(_, arrow_schema::UnionMode::Dense) => "union-dense",
        _ => fam,
    };
    let rs = mutate::realisations(rng, &a, 7);
    for (n1, x) in &rs {
        let rx = guarded(|| tok::rows(x.as_ref())).unwrap_or_default();
        t.emit(json!({"op":"readback","via":format!("realise:{n1}"),"src":tok::strs(&rows),"got":tok::strs(&rx)}));
        for (n2, y) in &rs {
            let ry = guarded(|| tok::rows(y.as_ref())).unwrap_or_default();
            if let Ok(r) = guarded(|| x.as_ref() == y.as_ref()) {
                t.emit(json!({"op":"eq","via":format!("{n1}/{n2}"),"fam":fam,"kvnull":key_to_null_value(x.as_ref()) || key_to_null_value(y.as_ref()),"ta":ty,"a":tok::strs(&rx),"tb":ty,"b":tok::strs(&ry),"r":r}));
            } else {
                t.emit(json!({"op":"eq","via":format!("{n1}/{n2} PANIC"),"fam":fam,"kvnull":false,"ta":ty,"a":tok::strs(&rx),"tb":ty,"b":tok::strs(&ry),"r":"panic"}));
            }
        }
        // against an independently generated array (mostly different) and a one-row-shorter slice
        let other = small_domain_array(rng, dt, n);
        let ro = guarded(|| tok::rows(other.as_ref())).unwrap_or_default();
        if let Ok(r) = guarded(|| x.as_ref() == other.as_ref()) {
            t.emit(json!({"op":"eq","via":format!("{n1}/other"),"fam":fam,"kvnull":key_to_null_value(x.as_ref()) || key_to_null_value(other.as_ref()),"ta":ty,"a":tok::strs(&rx),"tb":ty,"b":tok::strs(&ro),"r":r}));
        }
        if n > 0 {
            let sh = x.slice(0, n - 1);
            let rs2 = guarded(|| tok::rows(sh.as_ref())).unwrap_or_default();
            if let Ok(r) = guarded(|| x.as_ref() == sh.as_ref()) {
                t.emit(json!({"op":"eq","via":format!("{n1}/shorter"),"fam":fam,"kvnull":false,"ta":ty,"a":tok::strs(&rx),"tb":ty,"b":tok::strs(&rs2),"r":r}));
            }
        }
    }
}

/// `==` on List<Boolean> over the whole lattice of (first list offset S, child ArrayData offset k)
/// in 0..=8 x 0..=8 against a freshly built equal array and a one-bit-different one: the
/// equality of bit-packed children has byte-aligned fast paths that depend on S, k and S + k
fn eq_lattice(rng: &mut Rng, t: &mut Trace) {
    use arrow_buffer::OffsetBuffer;
    use arrow_schema::Field;
    let field = Arc::new(Field::new("item", DataType::Boolean, true));
    let ty = tok::type_str(&DataType::List(field.clone()));
    for s0 in 0..=8usize {
        for k in 0..=8usize {
            let body = 8 + rng.below(20); // >= 8 values so that whole bytes are compared
            let total = s0 + body;
            let vals: Vec<bool> = (0..total).map(|_| rng.chance(50)).collect();
            // child with ArrayData offset k: [k random bits | vals] sliced back
            let mut padded: Vec<bool> = (0..k).map(|_| rng.chance(50)).collect();
            padded.extend(vals.iter().copied());
            let child: ArrayRef = Arc::new(BooleanArray::from(padded).slice(k, total));
            // lists over vals[s0..]: offsets start at s0
            let mut offs = vec![s0 as i32];
            let mut cur = s0;
            while cur < total {
                cur = (cur + 1 + rng.below(4)).min(total);
                offs.push(cur as i32);
            }
            let Ok(lhs) = ListArray::try_new(field.clone(), OffsetBuffer::new(offs.clone().into()), child, None) else { continue };
            let lhs: ArrayRef = Arc::new(lhs);
            // the same logical lists, freshly allocated from offset 0
            let fresh = |flip: Option<usize>| -> ArrayRef {
                let mut v: Vec<bool> = vals[s0..].to_vec();
                if let Some(i) = flip { v[i] = !v[i] }
                let o: Vec<i32> = offs.iter().map(|x| x - s0 as i32).collect();
                Arc::new(ListArray::new(field.clone(), OffsetBuffer::new(o.into()), Arc::new(BooleanArray::from(v)), None))
            };
            let same = fresh(None);
            let diff = fresh(Some(rng.below(body)));
            for (name, other) in [("same", &same), ("different", &diff)] {
                let (ra, rb) = (tok::rows(lhs.as_ref()), tok::rows(other.as_ref()));
                for (x, y, rx, ry, dir) in [(&lhs, other, &ra, &rb, "lr"), (other, &lhs, &rb, &ra, "rl")] {
                    match guarded(|| x.as_ref() == y.as_ref()) {
                        Ok(r) => t.emit(json!({"op":"eq","via":format!("lattice S={s0} k={k} {name} {dir}"),"fam":"list","kvnull":false,"ta":ty,"a":tok::strs(rx),"tb":ty,"b":tok::strs(ry),"r":r})),
                        Err(_) => t.emit(json!({"op":"eq","via":format!("lattice S={s0} k={k} {name} {dir} PANIC"),"fam":"list","kvnull":false,"ta":ty,"a":tok::strs(rx),"tb":ty,"b":tok::strs(ry),"r":"panic"})),
                    }
                }
            }
        }
    }
}

fn readback_probes(rng: &mut Rng, t: &mut Trace) {
    // arrays built from known values through different construction paths, read back through
    // value(i), iterators and the display formatter
    let n = mk::rand_len(rng, 70);
    let src: Vec<Option<i64>> = (0..n).map(|_| if rng.chance(20) { None } else { Some([0, 1, -1, i64::MAX, i64::MIN, 42][rng.below(6)]) }).collect();
    let st: Vec<String> = src.iter().map(|x| x.map(|v| v.to_string()).unwrap_or("~".into())).collect();
    let a1 = Int64Array::from(src.clone());
    let mut b = arrow_array::builder::Int64Builder::new();
    src.iter().for_each(|x| b.append_option(*x));
    let a2 = b.finish();
    let a3: Int64Array = src.iter().copied().collect();
    for (via, a) in [("From<Vec<Option>>", &a1), ("builder", &a2), ("FromIterator", &a3)] {
        let it: Vec<String> = a.iter().map(|x| x.map(|v| v.to_string()).unwrap_or("~".into())).collect();
        t.emit(json!({"op":"readback","via":format!("Int64 {via} iter"),"src":tok::strs(&st),"got":tok::strs(&it)}));
        t.emit(json!({"op":"readback","via":format!("Int64 {via} value(i)"),"src":tok::strs(&st),"got":tok::strs(&tok::rows(a))}));
        let f = arrow_cast::display::ArrayFormatter::try_new(a, &arrow_cast::display::FormatOptions::default().with_null("~")).unwrap();
        let ft: Vec<String> = (0..a.len()).map(|i| f.value(i).to_string()).collect();
        t.emit(json!({"op":"readback","via":format!("Int64 {via} formatter"),"src":tok::strs(&st),"got":tok::strs(&ft)}));
        let sl = a.slice(n / 3, n - n / 3);
        t.emit(json!({"op":"readback","via":format!("Int64 {via} slice"),"src":tok::strs(&st[n / 3..]),"got":tok::strs(&tok::rows(&sl))}));
        let rt = make_array(a.to_data());
        t.emit(json!({"op":"readback","via":format!("Int64 {via} to_data/make_array"),"src":tok::strs(&st),"got":tok::strs(&tok::rows(rt.as_ref()))}));
    }
    let ss: Vec<Option<String>> = (0..n).map(|_| if rng.chance(20) { None } else { Some(mk::rand_string(rng, Cfg::wild(0))) }).collect();
    let stt: Vec<String> = ss.iter().map(|x| x.clone().unwrap_or("~".into())).collect();
    let s1 = StringArray::from(ss.clone());
    let s2 = LargeStringArray::from(ss.clone());
    let s3 = StringViewArray::from_iter(ss.clone());
    let mut sb = arrow_array::builder::StringBuilder::new();
    ss.iter().for_each(|x| sb.append_option(x.as_deref()));
    let s4 = sb.finish();
    let fmt = |a: &dyn Array| -> Vec<String> {
        let f = arrow_cast::display::ArrayFormatter::try_new(a, &arrow_cast::display::FormatOptions::default().with_null("~")).unwrap();
        (0..a.len()).map(|i| f.value(i).to_string()).collect()
    };
    // "~" would be ambiguous with the null marker: skip such sources
    if !ss.iter().any(|x| x.as_deref() == Some("~")) {
        t.emit(json!({"op":"readback","via":"Utf8 iter","src":tok::strs(&stt),"got":tok::strs(&s1.iter().map(|x| x.map(|v| v.to_string()).unwrap_or("~".into())).collect::<Vec<_>>())}));
        t.emit(json!({"op":"readback","via":"LargeUtf8 iter","src":tok::strs(&stt),"got":tok::strs(&s2.iter().map(|x| x.map(|v| v.to_string()).unwrap_or("~".into())).collect::<Vec<_>>())}));
        t.emit(json!({"op":"readback","via":"Utf8View iter","src":tok::strs(&stt),"got":tok::strs(&s3.iter().map(|x| x.map(|v| v.to_string()).unwrap_or("~".into())).collect::<Vec<_>>())}));
        t.emit(json!({"op":"readback","via":"Utf8 builder iter","src":tok::strs(&stt),"got":tok::strs(&s4.iter().map(|x| x.map(|v| v.to_string()).unwrap_or("~".into())).collect::<Vec<_>>())}));
        t.emit(json!({"op":"readback","via":"Utf8 formatter","src":tok::strs(&stt),"got":tok::strs(&fmt(&s1))}));
        t.emit(json!({"op":"readback","via":"Utf8View formatter","src":tok::strs(&stt),"got":tok::strs(&fmt(&s3))}));
    }
    let bs: Vec<Option<bool>> = (0..n).map(|_| if rng.chance(20) { None } else { Some(rng.chance(50)) }).collect();
    let bt: Vec<String> = bs.iter().map(|x| x.map(|v| v.to_string()).unwrap_or("~".into())).collect();
    let b1 = BooleanArray::from(bs.clone());
    t.emit(json!({"op":"readback","via":"Boolean iter","src":tok::strs(&bt),"got":tok::strs(&b1.iter().map(|x| x.map(|v| v.to_string()).unwrap_or("~".into())).collect::<Vec<_>>())}));
    t.emit(json!({"op":"readback","via":"Boolean formatter","src":tok::strs(&bt),"got":tok::strs(&fmt(&b1))}));
}

fn main() {
    let args = Args::parse();
    vcore::quiet_panics();
    let mut rng = Rng::new(args.seed);
    let types = mk::all_types();
    let mut c = Ctx { obs: vec![], fam: String::new() };
    let rounds = args.scale(1, 12);
    for _ in 0..rounds {
        for dt in &types {
            unary_kernels(&mut rng, &mut c, dt, args.thorough());
            binary_kernels(&mut rng, &mut c, dt, args.thorough());
            if dt.is_primitive() {
                binary_kernels(&mut rng, &mut c, dt, args.thorough());
            }
            // the boolean kernels work on bit-packed data at arbitrary offsets: more layouts
            if let DataType::Boolean = dt {
                for _ in 0..10 {
                    binary_kernels(&mut rng, &mut c, dt, args.thorough());
                }
            }
        }
    }
    // order by key, route each key to one shard, keep at most 3 copies of an identical observation
    let shards = 14usize;
    c.obs.sort_by(|a, b| (a.k.as_str(), a.o.as_str()).cmp(&(b.k.as_str(), b.o.as_str())));
    let mut traces: Vec<Trace> = (0..shards).map(|i| Trace::create(&args.out, &format!("obs-{i:02}"))).collect();
    let mut counts: HashMap<(String, String), usize> = HashMap::new();
    let mut keys_multi = 0usize;
    let mut last_key = String::new();
    let mut run_len = 0usize;
    let total = c.obs.len();
    for o in c.obs {
        let e = counts.entry((o.k.clone(), o.o.clone())).or_insert(0);
        *e += 1;
        if o.k == last_key { run_len += 1; if run_len == 2 { keys_multi += 1 } } else { last_key = o.k.clone(); run_len = 1 }
        if *e > 3 {
            continue;
        }
        let mut h: u64 = 1469598103934665603;
        for b in o.k.bytes() {
            h = (h ^ b as u64).wrapping_mul(1099511628211);
        }
        traces[(h % shards as u64) as usize].emit(json!({"op":"obs","kernel":o.kernel,"opts":o.opts,"ty":o.ty,"fam":o.fam,"k":o.k,"o":o.o}));
    }
    let mut n = 0;
    for t in traces {
        n += t.finish();
    }
    // == and read-back probes (plus nested types with bit-packed children, whose equality has
    // byte-aligned fast paths that depend on start + offset)
    let mut eq_types = types.clone();
    {
        use arrow_schema::{Field, Fields};
        let f = |t: DataType| std::sync::Arc::new(Field::new("item", t, true));
        eq_types.extend([
            DataType::List(f(DataType::Boolean)),
            DataType::LargeList(f(DataType::Boolean)),
            DataType::FixedSizeList(f(DataType::Boolean), 3),
            DataType::List(f(DataType::FixedSizeBinary(2))),
            DataType::Struct(Fields::from(vec![Field::new("b", DataType::Boolean, true), Field::new("l", DataType::List(f(DataType::Boolean)), true)])),
            DataType::List(f(DataType::List(f(DataType::Boolean)))),
        ]);
    }
    let mut t = vcore::trace::Shards::create(&args.out, "eq", shards);
    for round in 0..args.scale(1, 10) {
        for (ti, dt) in eq_types.iter().enumerate() {
            // the added bit-packed nested types get several probes per round
            let reps = if ti >= types.len() { 6 } else { 1 };
            for _ in 0..reps {
                eq_probes(&mut rng, &mut t.shards[0], dt);
                t.shards.rotate_left(1);
            }
            let _ = round;
            continue;
        }
    }
    for _ in 0..0 {
        for dt in &types {
            eq_probes(&mut rng, &mut t.shards[0], dt);
            t.shards.rotate_left(1);
        }
    }
    for _ in 0..args.scale(10, 200) {
        readback_probes(&mut rng, &mut t.shards[0]);
        t.shards.rotate_left(1);
    }
    for _ in 0..args.scale(2, 20) {
        eq_lattice(&mut rng, &mut t.shards[0]);
        t.shards.rotate_left(1);
    }
    let n2 = t.finish();
    println!("DRIVER c02 observations={total} emitted={n} keys_observed_more_than_once={keys_multi} eq_readback_events={n2}");
}
