//! Writer sessions over the fault-injecting sink.
//!
//! A case = (format, variant) = one API script run the way a caller would: `new`, one `write` per batch
//! (plus `flush` / `sync` in some variants), then the terminating call(s).  After the first API error no
//! further data call is issued, only the terminating call(s); after a panic nothing.  Every API call is
//! logged with its result class and the number of sink calls made when it returned.
use crate::data::Data;
use crate::fault::{FaultSink, Shared};
use arrow_array::RecordBatchWriter;
use std::io::{BufWriter, Write};
use std::sync::{Arc, Mutex};

#[derive(Default)]
pub struct ApiLog {
    pub names: Vec<String>,
    pub res: Vec<String>,
    pub at: Vec<i64>,
    /// 0 data call (new / write / flush / sync), 1 terminating call that returns a Result (finish / close /
    /// into_inner / the caller's final BufWriter flush), 2 terminating call that cannot report (-> W)
    pub term: Vec<i64>,
    /// Avro OCF: the random sync marker of this writer
    pub marker: Option<[u8; 16]>,
}

#[derive(Clone)]
pub struct Api {
    pub dev: Shared,
    pub log: Arc<Mutex<ApiLog>>,
}

impl Api {
    pub fn new(dev: Shared) -> Api {
        Api { dev, log: Arc::new(Mutex::new(ApiLog::default())) }
    }
    /// one public API call; `None` when it returned an error or panicked
    pub fn call<T, E: std::fmt::Display>(&self, name: &str, f: impl FnOnce() -> Result<T, E>) -> Option<T> {
        let term = if matches!(name, "new" | "write" | "flush" | "sync") { 0 } else { 1 };
        self.call_as(name, term, f)
    }
    /// a terminating call whose signature has no way to report a failure (`into_inner(self) -> W`)
    pub fn take<T>(&self, name: &str, f: impl FnOnce() -> T) -> Option<T> {
        self.call_as(name, 2, || fine(f()))
    }
    fn call_as<T, E: std::fmt::Display>(&self, name: &str, term: i64, f: impl FnOnce() -> Result<T, E>) -> Option<T> {
        {
            // logged before the call so that a hang is attributed to it
            let mut l = self.log.lock().unwrap();
            l.names.push(name.to_string());
            l.res.push("hang".to_string());
            l.at.push(0);
            l.term.push(term);
        }
        let r = vcore::guarded(f);
        let at = self.dev.lock().unwrap().calls as i64;
        let mut l = self.log.lock().unwrap();
        let i = l.names.len() - 1;
        l.at[i] = at;
        match r {
            Ok(Ok(v)) => {
                l.res[i] = "ok".into();
                Some(v)
            }
            Ok(Err(_)) => {
                l.res[i] = "err".into();
                None
            }
            Err(_) => {
                l.res[i] = "panic".into();
                None
            }
        }
    }
    /// retry a failed terminating call: `f` up to `times` times, until it succeeds or panics
    pub fn retry(&self, name: &str, times: usize, mut f: impl FnMut() -> Result<(), String>) -> bool {
        for _ in 0..times {
            if self.call(name, &mut f).is_some() {
                return true;
            }
            if self.panicked() {
                return false;
            }
        }
        false
    }
    pub fn panicked(&self) -> bool {
        self.log.lock().unwrap().res.iter().any(|r| r == "panic")
    }
}

pub type Run = Box<dyn Fn(FaultSink, &Api) + Send + Sync>;

pub struct WCase {
    pub fmt: &'static str,
    pub variant: &'static str,
    /// the output embeds random bytes (Avro OCF sync marker): compared modulo those bytes
    pub random_sync: bool,
    /// gets the full index budget in the quick tier
    pub primary: bool,
    /// a retry script: only the sink calls of the terminating phase get faults (the data phase is covered
    /// by the plain scripts)
    pub term_only: bool,
    /// the sink interface has whole-buffer writes only (AsyncFileWriter): no short / interrupted / zero faults
    pub whole_writes: bool,
    /// which reader case (format name in rsess) reads this output back, and the rows written
    pub read_back: Option<(&'static str, Vec<String>)>,
    pub run: Run,
}

fn case(fmt: &'static str, variant: &'static str, run: Run) -> WCase {
    let secondary = matches!(variant, "direct/into_inner" | "direct/finish+into_inner") && fmt.starts_with("ipc");
    WCase { fmt, variant, random_sync: false, primary: !secondary, term_only: variant.contains("retry"), whole_writes: false, read_back: None, run }
}

fn flat_rows(d: &Data) -> Vec<String> {
    d.rows().into_iter().flatten().collect()
}

type Never = std::convert::Infallible;
fn fine<T>(v: T) -> Result<T, Never> {
    Ok(v)
}

// ------------------------------------------------------------------- IPC

#[derive(Clone, Copy, PartialEq)]
enum Fin {
    Finish,
    IntoInner,
    FinishIntoInner,
    Close,
    /// finish; while it fails: finish again, twice
    FinishRetry,
    /// finish; if it fails: close (which finishes)
    FinishThenClose,
}

macro_rules! ipc_script {
    ($W:ident, $mk:expr, $d:expr, $a:expr, $flush_each:expr, $fin:expr, $after:expr) => {{
        let d: &Data = $d;
        let a: &Api = $a;
        let Some(mut w) = a.call("new", || $mk) else { return };
        for b in &d.batches {
            if a.call("write", || w.write(b)).is_none() {
                break;
            }
            if $flush_each && a.call("flush", || w.flush()).is_none() {
                break;
            }
        }
        if a.panicked() {
            return;
        }
        match $fin {
            Fin::Finish => {
                a.call("finish", || w.finish());
            }
            Fin::Close => {
                a.call("close", || RecordBatchWriter::close(w));
            }
            Fin::IntoInner => {
                if let Some(inner) = a.call("into_inner", || w.into_inner()) {
                    $after(a, inner);
                }
            }
            Fin::FinishIntoInner => {
                if a.call("finish", || w.finish()).is_some() || !a.panicked() {
                    if let Some(inner) = a.call("into_inner", || w.into_inner()) {
                        $after(a, inner);
                    }
                }
            }
            Fin::FinishRetry => {
                a.retry("finish", 3, || w.finish().map_err(|e| e.to_string()));
            }
            Fin::FinishThenClose => {
                if a.call("finish", || w.finish()).is_none() && !a.panicked() {
                    a.call("close", || RecordBatchWriter::close(w));
                }
            }
        }
    }};
}

fn no_after<T>(_: &Api, _: T) {}

/// what a caller does with the BufWriter it gets back: `into_inner` flushes it
fn unwrap_buf(a: &Api, bw: BufWriter<FaultSink>) {
    a.call("buf_into_inner", || bw.into_inner().map(|_| ()).map_err(|e| e.error().to_string()));
}

/// the same with `flush` (which can be retried) in front
fn flush_retry_buf(a: &Api, mut bw: BufWriter<FaultSink>) {
    a.retry("buf_flush", 3, || bw.flush().map_err(|e| e.to_string()));
}

fn ipc_cases(d: &Data, out: &mut Vec<WCase>) {
    use arrow_ipc::writer::{FileWriter, StreamWriter};
    for (variant, flush_each, fin) in
        [("direct/finish", false, Fin::Finish), ("direct/into_inner", false, Fin::IntoInner), ("direct/flush_each+close", true, Fin::Close), ("direct/finish+into_inner", false, Fin::FinishIntoInner)]
    {
        let dd = d.clone();
        out.push(case("ipc_file", variant, Box::new(move |s, a| ipc_script!(FileWriter, FileWriter::try_new(s.clone(), &dd.schema), &dd, a, flush_each, fin, no_after))));
        let dd = d.clone();
        out.push(case("ipc_stream", variant, Box::new(move |s, a| ipc_script!(StreamWriter, StreamWriter::try_new(s.clone(), &dd.schema), &dd, a, flush_each, fin, no_after))));
    }
    for (variant, fin) in [("direct/finish-retry", Fin::FinishRetry), ("direct/finish-retry-close", Fin::FinishThenClose)] {
        let dd = d.clone();
        out.push(case("ipc_file", variant, Box::new(move |s, a| ipc_script!(FileWriter, FileWriter::try_new(s.clone(), &dd.schema), &dd, a, false, fin, no_after))));
        let dd = d.clone();
        out.push(case("ipc_stream", variant, Box::new(move |s, a| ipc_script!(StreamWriter, StreamWriter::try_new(s.clone(), &dd.schema), &dd, a, false, fin, no_after))));
    }
    let dd = d.clone();
    out.push(case("ipc_file", "buf64/finish-retry", Box::new(move |s, a| ipc_script!(FileWriter, FileWriter::try_new(BufWriter::with_capacity(64, s.clone()), &dd.schema), &dd, a, false, Fin::FinishRetry, no_after))));
    let dd = d.clone();
    out.push(case("ipc_stream", "buf64/finish-retry", Box::new(move |s, a| ipc_script!(StreamWriter, StreamWriter::try_new(BufWriter::with_capacity(64, s.clone()), &dd.schema), &dd, a, false, Fin::FinishRetry, no_after))));
    let dd = d.clone();
    out.push(case("ipc_file", "buffered/into_inner+flush-retry", Box::new(move |s, a| ipc_script!(FileWriter, FileWriter::try_new_buffered(s.clone(), &dd.schema), &dd, a, false, Fin::IntoInner, flush_retry_buf))));
    let dd = d.clone();
    out.push(case("ipc_stream", "buffered/into_inner+flush-retry", Box::new(move |s, a| ipc_script!(StreamWriter, StreamWriter::try_new_buffered(s.clone(), &dd.schema), &dd, a, false, Fin::IntoInner, flush_retry_buf))));
    let dd = d.clone();
    out.push(case("ipc_file", "buf64/finish", Box::new(move |s, a| ipc_script!(FileWriter, FileWriter::try_new(BufWriter::with_capacity(64, s.clone()), &dd.schema), &dd, a, false, Fin::Finish, no_after))));
    let dd = d.clone();
    out.push(case("ipc_file", "buffered/into_inner", Box::new(move |s, a| ipc_script!(FileWriter, FileWriter::try_new_buffered(s.clone(), &dd.schema), &dd, a, false, Fin::IntoInner, unwrap_buf))));
    let dd = d.clone();
    out.push(case("ipc_stream", "buf64/finish", Box::new(move |s, a| ipc_script!(StreamWriter, StreamWriter::try_new(BufWriter::with_capacity(64, s.clone()), &dd.schema), &dd, a, false, Fin::Finish, no_after))));
    let dd = d.clone();
    out.push(case("ipc_stream", "buffered/into_inner", Box::new(move |s, a| ipc_script!(StreamWriter, StreamWriter::try_new_buffered(s.clone(), &dd.schema), &dd, a, false, Fin::IntoInner, unwrap_buf))));
}

// --------------------------------------------------------------- Parquet

#[derive(Clone, Copy, PartialEq)]
enum PqFin {
    Close,
    Finish,
    IntoInner,
    TraitClose,
    FinishRetry,
    FinishThenClose,
    FinishThenIntoInner,
}

fn pq_run(d: &Data, s: FaultSink, a: &Api, group_rows: usize, flush_sync: bool, fin: PqFin) {
    use parquet::arrow::ArrowWriter;
    use parquet::file::properties::WriterProperties;
    // the wide table is written plain (no dictionary) so that the writer's 8 KiB BufWriter spills
    let props = WriterProperties::builder().set_max_row_group_row_count(Some(group_rows)).set_dictionary_enabled(group_rows < 1500).build();
    let Some(mut w) = a.call("new", || ArrowWriter::try_new(s.clone(), d.schema.clone(), Some(props))) else { return };
    for b in &d.batches {
        if a.call("write", || w.write(b)).is_none() {
            break;
        }
        if flush_sync && (a.call("flush", || w.flush()).is_none() || a.call("sync", || w.sync()).is_none()) {
            break;
        }
    }
    if a.panicked() {
        return;
    }
    match fin {
        PqFin::Close => {
            a.call("close", || w.close().map(|_| ()));
        }
        PqFin::TraitClose => {
            a.call("close", || RecordBatchWriter::close(w));
        }
        PqFin::Finish => {
            a.call("finish", || w.finish().map(|_| ()));
        }
        PqFin::IntoInner => {
            a.call("into_inner", || w.into_inner().map(|_| ()));
        }
        PqFin::FinishRetry => {
            a.retry("finish", 3, || w.finish().map(|_| ()).map_err(|e| e.to_string()));
        }
        PqFin::FinishThenClose => {
            if a.call("finish", || w.finish().map(|_| ())).is_none() && !a.panicked() {
                a.call("close", || w.close().map(|_| ()));
            }
        }
        PqFin::FinishThenIntoInner => {
            if a.call("finish", || w.finish().map(|_| ())).is_none() && !a.panicked() {
                a.call("into_inner", || w.into_inner().map(|_| ()));
            }
        }
    }
}

fn pq_cases(d: &Data, wide: &Data, out: &mut Vec<WCase>) {
    for (variant, group, fs, fin) in [
        ("close", 1024usize, false, PqFin::Close),
        ("finish", 1024, false, PqFin::Finish),
        ("into_inner", 1024, false, PqFin::IntoInner),
        ("groups4/flush+sync/close", 4, true, PqFin::TraitClose),
    ] {
        let dd = d.clone();
        out.push(case("parquet", variant, Box::new(move |s, a| pq_run(&dd, s, a, group, fs, fin))));
    }
    for (variant, fin) in [("finish-retry", PqFin::FinishRetry), ("finish-retry-close", PqFin::FinishThenClose), ("finish-retry-into_inner", PqFin::FinishThenIntoInner)] {
        let dd = d.clone();
        out.push(case("parquet", variant, Box::new(move |s, a| pq_run(&dd, s, a, 4, false, fin))));
    }
    let dd = wide.clone();
    out.push(case("parquet", "wide/finish-retry", Box::new(move |s, a| pq_run(&dd, s, a, 1500, false, PqFin::FinishRetry))));
    let dd = wide.clone();
    out.push(case("parquet", "wide/close", Box::new(move |s, a| pq_run(&dd, s, a, 1500, false, PqFin::Close))));
    let dd = wide.clone();
    out.push(case("parquet", "wide/into_inner", Box::new(move |s, a| pq_run(&dd, s, a, 1500, false, PqFin::IntoInner))));
}

fn pq_async_run(d: &Data, s: FaultSink, a: &Api, group_rows: usize, flush_each: bool, close: bool) {
    pq_async_fin(d, s, a, group_rows, flush_each, if close { 0 } else { 1 })
}

/// fin: 0 close, 1 finish, 2 finish retried twice, 3 finish then close
fn pq_async_fin(d: &Data, s: FaultSink, a: &Api, group_rows: usize, flush_each: bool, fin: u8) {
    use futures::executor::block_on;
    use parquet::arrow::AsyncArrowWriter;
    use parquet::file::properties::WriterProperties;
    let props = WriterProperties::builder().set_max_row_group_row_count(Some(group_rows)).set_dictionary_enabled(group_rows < 1500).build();
    let sink = crate::fault::FaultAsync(s.0.clone());
    let Some(mut w) = a.call("new", || AsyncArrowWriter::try_new(sink, d.schema.clone(), Some(props))) else { return };
    for b in &d.batches {
        if a.call("write", || block_on(w.write(b))).is_none() {
            break;
        }
        if flush_each && a.call("flush", || block_on(w.flush())).is_none() {
            break;
        }
    }
    if a.panicked() {
        return;
    }
    match fin {
        0 => {
            a.call("close", || block_on(w.close()).map(|_| ()));
        }
        1 => {
            a.call("finish", || block_on(w.finish()).map(|_| ()));
        }
        2 => {
            a.retry("finish", 3, || block_on(w.finish()).map(|_| ()).map_err(|e| e.to_string()));
        }
        _ => {
            if a.call("finish", || block_on(w.finish()).map(|_| ())).is_none() && !a.panicked() {
                a.call("close", || block_on(w.close()).map(|_| ()));
            }
        }
    }
}

fn pq_async_cases(d: &Data, wide: &Data, out: &mut Vec<WCase>) {
    for (variant, fin) in [("finish-retry", 2u8), ("finish-retry-close", 3)] {
        let dd = d.clone();
        out.push(WCase { whole_writes: true, ..case("pq_async", variant, Box::new(move |s, a| pq_async_fin(&dd, s, a, 4, false, fin))) });
    }
    let dd = wide.clone();
    out.push(WCase { whole_writes: true, ..case("pq_async", "wide/finish-retry", Box::new(move |s, a| pq_async_fin(&dd, s, a, 1500, false, 2))) });
    let dd = wide.clone();
    out.push(WCase { whole_writes: true, ..case("pq_async", "wide/close", Box::new(move |s, a| pq_async_run(&dd, s, a, 1500, false, true))) });
    for (variant, group, flush_each, close) in [("groups4/close", 4usize, false, true), ("flush_each/finish", 1024, true, false), ("close", 1024, false, true)] {
        let dd = d.clone();
        out.push(WCase { whole_writes: true, ..case("pq_async", variant, Box::new(move |s, a| pq_async_run(&dd, s, a, group, flush_each, close))) });
    }
}

// ------------------------------------------------------------------- CSV

fn csv_run(d: &Data, s: FaultSink, a: &Api, header: bool, fin: &str) {
    let Some(mut w) = a.call("new", || fine(arrow_csv::WriterBuilder::new().with_header(header).build(s.clone()))) else { return };
    for b in &d.batches {
        if a.call("write", || w.write(b)).is_none() {
            break;
        }
    }
    if a.panicked() {
        return;
    }
    match fin {
        "into_inner" => {
            a.take("into_inner", || {
                w.into_inner();
            });
        }
        "close" => {
            a.call("close", || RecordBatchWriter::close(w));
        }
        _ => drop(w),
    }
}

fn csv_cases(d: &Data, out: &mut Vec<WCase>) {
    for variant in ["into_inner", "close", "drop"] {
        let dd = d.clone();
        out.push(case("csv", variant, Box::new(move |s, a| csv_run(&dd, s, a, true, variant))));
    }
    let dd = d.clone();
    out.push(case("csv", "noheader/close", Box::new(move |s, a| csv_run(&dd, s, a, false, "close"))));
}

// ------------------------------------------------------------------ JSON

macro_rules! json_script {
    ($W:ident, $sink:expr, $d:expr, $a:expr, $fin:expr, $after:expr) => {{
        let d: &Data = $d;
        let a: &Api = $a;
        let Some(mut w) = a.call("new", || fine(arrow_json::$W::new($sink))) else { return };
        for b in &d.batches {
            if a.call("write", || w.write(b)).is_none() {
                break;
            }
        }
        if a.panicked() {
            return;
        }
        match $fin {
            Fin::Close => {
                a.call("close", || RecordBatchWriter::close(w));
            }
            Fin::Finish => {
                a.call("finish", || w.finish());
            }
            Fin::FinishRetry => {
                a.retry("finish", 3, || w.finish().map_err(|e| e.to_string()));
                if !a.panicked() {
                    if let Some(inner) = a.take("into_inner", || w.into_inner()) {
                        $after(a, inner);
                    }
                }
            }
            Fin::FinishThenClose => {
                if a.call("finish", || w.finish()).is_none() && !a.panicked() {
                    a.call("close", || RecordBatchWriter::close(w));
                }
            }
            _ => {
                a.call("finish", || w.finish());
                if !a.panicked() {
                    if let Some(inner) = a.take("into_inner", || w.into_inner()) {
                        $after(a, inner);
                    }
                }
            }
        }
    }};
}

/// the caller's own BufWriter: it has to be flushed by the caller
fn flush_buf(a: &Api, mut bw: BufWriter<FaultSink>) {
    a.call("buf_flush", || bw.flush());
}

fn json_cases(d: &Data, out: &mut Vec<WCase>) {
    for (variant, fin) in [("direct/finish", Fin::Finish), ("direct/close", Fin::Close), ("direct/finish+into_inner", Fin::FinishIntoInner)] {
        let dd = d.clone();
        out.push(case("json_lines", variant, Box::new(move |s, a| json_script!(LineDelimitedWriter, s.clone(), &dd, a, fin, no_after))));
        let dd = d.clone();
        out.push(case("json_array", variant, Box::new(move |s, a| json_script!(ArrayWriter, s.clone(), &dd, a, fin, no_after))));
    }
    for (variant, fin) in [("direct/finish-retry", Fin::FinishRetry), ("direct/finish-retry-close", Fin::FinishThenClose)] {
        let dd = d.clone();
        out.push(case("json_lines", variant, Box::new(move |s, a| json_script!(LineDelimitedWriter, s.clone(), &dd, a, fin, no_after))));
        let dd = d.clone();
        out.push(case("json_array", variant, Box::new(move |s, a| json_script!(ArrayWriter, s.clone(), &dd, a, fin, no_after))));
    }
    let dd = d.clone();
    out.push(case("json_lines", "buf64/finish-retry+flush-retry", Box::new(move |s, a| json_script!(LineDelimitedWriter, BufWriter::with_capacity(64, s.clone()), &dd, a, Fin::FinishRetry, flush_retry_buf))));
    let dd = d.clone();
    out.push(case("json_array", "buf64/finish-retry+flush-retry", Box::new(move |s, a| json_script!(ArrayWriter, BufWriter::with_capacity(64, s.clone()), &dd, a, Fin::FinishRetry, flush_retry_buf))));
    let dd = d.clone();
    out.push(case("json_lines", "buf64/finish+into_inner+flush", Box::new(move |s, a| json_script!(LineDelimitedWriter, BufWriter::with_capacity(64, s.clone()), &dd, a, Fin::FinishIntoInner, flush_buf))));
    let dd = d.clone();
    out.push(case("json_array", "buf64/finish+into_inner+flush", Box::new(move |s, a| json_script!(ArrayWriter, BufWriter::with_capacity(64, s.clone()), &dd, a, Fin::FinishIntoInner, flush_buf))));
}

// ------------------------------------------------------------------ Avro

macro_rules! avro_script {
    ($W:ident, $sink:expr, $d:expr, $a:expr, $marker:expr) => {
        avro_script!($W, $sink, $d, $a, $marker, 1)
    };
    ($W:ident, $sink:expr, $d:expr, $a:expr, $marker:expr, $tries:expr) => {{
        let d: &Data = $d;
        let a: &Api = $a;
        let Some(mut w) = a.call("new", || arrow_avro::writer::$W::new($sink, d.schema.as_ref().clone())) else { return };
        $marker(a, &w);
        for b in &d.batches {
            if a.call("write", || w.write(b)).is_none() {
                break;
            }
        }
        if a.panicked() {
            return;
        }
        a.retry("finish", $tries, || w.finish().map_err(|e| e.to_string()));
        if !a.panicked() {
            a.take("into_inner", || {
                w.into_inner();
            });
        }
    }};
}

fn ocf_marker<W: Write>(a: &Api, w: &arrow_avro::writer::AvroWriter<W>) {
    a.log.lock().unwrap().marker = w.sync_marker().copied();
}
fn no_marker<T>(_: &Api, _: &T) {}

fn avro_cases(d: &Data, out: &mut Vec<WCase>) {
    let dd = d.clone();
    out.push(WCase { random_sync: true, ..case("avro_ocf", "direct/finish+into_inner", Box::new(move |s, a| avro_script!(AvroWriter, s.clone(), &dd, a, ocf_marker))) });
    let dd = d.clone();
    out.push(WCase { random_sync: true, ..case("avro_ocf", "buf64/finish+into_inner", Box::new(move |s, a| avro_script!(AvroWriter, BufWriter::with_capacity(64, s.clone()), &dd, a, ocf_marker))) });
    let dd = d.clone();
    out.push(WCase { random_sync: true, ..case("avro_ocf", "buf64/finish-retry", Box::new(move |s, a| avro_script!(AvroWriter, BufWriter::with_capacity(64, s.clone()), &dd, a, ocf_marker, 3))) });
    let dd = d.clone();
    out.push(WCase { random_sync: true, ..case("avro_ocf", "direct/finish-retry", Box::new(move |s, a| avro_script!(AvroWriter, s.clone(), &dd, a, ocf_marker, 3))) });
    let dd = d.clone();
    out.push(case("avro_soe", "buf64/finish-retry", Box::new(move |s, a| avro_script!(AvroStreamWriter, BufWriter::with_capacity(64, s.clone()), &dd, a, no_marker, 3))));
    let dd = d.clone();
    out.push(case("avro_soe", "direct/finish+into_inner", Box::new(move |s, a| avro_script!(AvroStreamWriter, s.clone(), &dd, a, no_marker))));
    let dd = d.clone();
    out.push(case("avro_soe", "buf64/finish+into_inner", Box::new(move |s, a| avro_script!(AvroStreamWriter, BufWriter::with_capacity(64, s.clone()), &dd, a, no_marker))));
}

/// every writer with a zero-row batch first / in the middle / last / as the only batch, and with no write
/// at all before the terminating call
fn empty_batch_cases(inp: &Inputs, out: &mut Vec<WCase>) {
    use arrow_ipc::writer::{FileWriter, StreamWriter};
    fn name(e: &str, script: &str) -> &'static str {
        Box::leak(format!("{e}/{script}").into_boxed_str())
    }
    let sec = |c: WCase| WCase { primary: false, ..c };
    for (e, d) in inp.bin_dict.with_empties() {
        let dd = d.clone();
        out.push(sec(case("ipc_file", name(e, "finish"), Box::new(move |s, a| ipc_script!(FileWriter, FileWriter::try_new(s.clone(), &dd.schema), &dd, a, false, Fin::Finish, no_after)))));
        let dd = d.clone();
        out.push(sec(case("ipc_stream", name(e, "finish"), Box::new(move |s, a| ipc_script!(StreamWriter, StreamWriter::try_new(s.clone(), &dd.schema), &dd, a, false, Fin::Finish, no_after)))));
        let dd = d.clone();
        out.push(sec(case("parquet", name(e, "close"), Box::new(move |s, a| pq_run(&dd, s, a, 4, false, PqFin::Close)))));
        let dd = d.clone();
        out.push(sec(WCase { whole_writes: true, ..case("pq_async", name(e, "close"), Box::new(move |s, a| pq_async_fin(&dd, s, a, 4, false, 0))) }));
    }
    for (e, d) in inp.text.with_empties() {
        for (script, header, fin) in [("close", true, "close"), ("drop", true, "drop"), ("into_inner", true, "into_inner"), ("noheader/close", false, "close")] {
            let dd = d.clone();
            out.push(sec(case("csv", name(e, script), Box::new(move |s, a| csv_run(&dd, s, a, header, fin)))));
        }
        let dd = d.clone();
        out.push(sec(case("json_lines", name(e, "finish"), Box::new(move |s, a| json_script!(LineDelimitedWriter, s.clone(), &dd, a, Fin::Finish, no_after)))));
        let dd = d.clone();
        out.push(sec(case("json_array", name(e, "finish"), Box::new(move |s, a| json_script!(ArrayWriter, s.clone(), &dd, a, Fin::Finish, no_after)))));
    }
    for (e, d) in inp.avro.with_empties() {
        let dd = d.clone();
        out.push(sec(WCase { random_sync: true, ..case("avro_ocf", name(e, "finish+into_inner"), Box::new(move |s, a| avro_script!(AvroWriter, s.clone(), &dd, a, ocf_marker))) }));
        let dd = d.clone();
        out.push(sec(case("avro_soe", name(e, "finish+into_inner"), Box::new(move |s, a| avro_script!(AvroStreamWriter, s.clone(), &dd, a, no_marker)))));
    }
}

pub struct Inputs {
    pub bin_dict: Data,
    pub wide: Data,
    pub avro: Data,
    pub text: Data,
}

pub fn cases(inp: &Inputs) -> Vec<WCase> {
    let mut out = vec![];
    ipc_cases(&inp.bin_dict, &mut out);
    pq_cases(&inp.bin_dict, &inp.wide, &mut out);
    pq_async_cases(&inp.bin_dict, &inp.wide, &mut out);
    csv_cases(&inp.text, &mut out);
    json_cases(&inp.text, &mut out);
    avro_cases(&inp.avro, &mut out);
    empty_batch_cases(inp, &mut out);
    // what was accepted from a session that ended with a successful terminating call is read back with the
    // format's reader
    for c in out.iter_mut() {
        let (fmt, d) = match c.fmt {
            "ipc_file" | "ipc_stream" => (c.fmt, &inp.bin_dict),
            "parquet" | "pq_async" if c.variant.starts_with("wide") => ("parquet", &inp.wide),
            "parquet" | "pq_async" => ("parquet", &inp.bin_dict),
            // (the read-back reader expects the header line)
            "csv" if c.variant.contains("noheader") => continue,
            "csv" => ("csv", &inp.text),
            "json_lines" => ("json_lines", &inp.text),
            "avro_ocf" => ("avro_ocf", &inp.avro),
            _ => continue,
        };
        // (zero-row batches add no rows; the scripts without a non-empty batch wrote none)
        let rows = if c.variant.starts_with("empty-only") || c.variant.starts_with("no-write") { vec![] } else { flat_rows(d) };
        c.read_back = Some((fmt, rows));
    }
    out
}
