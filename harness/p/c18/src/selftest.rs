//! Detection self-test: deliberately defective writers and readers (written here, not part of arrow-rs)
//! run through the same sessions and the same event projections.  Every event of the resulting trace
//! shows one of the failures the property excludes, so Trace_FaultIO must reject every one of them
//! (plans/C18.py counts the REJECT lines).  Nothing here is an oracle.
use crate::fault::{FaultSink, FaultSrc, Kind, Plan, Shared};
use crate::rsess::ROut;
use crate::wsess::{Api, WCase};
use std::io::{ErrorKind, Read, Write};
use std::sync::Arc;

const CHUNKS: [&[u8]; 4] = [b"HEAD0123", b"first batch of rows.", b"second batch!", b"FOOT"];

fn script(s: FaultSink, a: &Api, write: impl Fn(&mut FaultSink, &[u8]) -> std::io::Result<()>, finish: impl Fn(&mut FaultSink) -> std::io::Result<()>) {
    let mut s = s;
    if a.call("new", || write(&mut s, CHUNKS[0])).is_none() {
        return;
    }
    for c in &CHUNKS[1..3] {
        if a.call("write", || write(&mut s, c)).is_none() {
            break;
        }
    }
    if a.panicked() {
        return;
    }
    a.call("finish", || write(&mut s, CHUNKS[3]).and_then(|_| finish(&mut s)));
}

/// the same with the terminating call retried twice after a failure (`finish` keeps its own state)
fn script_retry(s: FaultSink, a: &Api, finish: impl Fn(&mut FaultSink) -> std::io::Result<()>) {
    let mut s = s;
    if a.call("new", || s.write_all(CHUNKS[0])).is_none() {
        return;
    }
    for c in &CHUNKS[1..3] {
        if a.call("write", || s.write_all(c)).is_none() {
            break;
        }
    }
    if a.panicked() {
        return;
    }
    a.retry("finish", 3, || finish(&mut s).map_err(|e| e.to_string()));
}

fn retry_intr(s: &mut FaultSink, b: &[u8]) -> std::io::Result<usize> {
    loop {
        match s.write(b) {
            Err(e) if e.kind() == ErrorKind::Interrupted => continue,
            r => return r,
        }
    }
}

/// (case, the plans under which its defect shows)
pub fn writers() -> Vec<(WCase, Vec<Plan>)> {
    let mk = |variant: &'static str, run: crate::wsess::Run| WCase { fmt: "selftest", variant, random_sync: false, primary: true, term_only: false, whole_writes: false, read_back: None, run };
    vec![
        // `write` instead of `write_all`: the rest of a short write is lost, every call reports success
        (
            mk("ignores_write_count", Box::new(|s, a| script(s, a, |s, b| retry_intr(s, b).map(|_| ()), |s| s.flush()))),
            vec![Plan { k: 2, kind: Kind::Short }, Plan { k: 3, kind: Kind::Short }],
        ),
        // errors of write and flush are swallowed: successful finish although bytes were lost
        (
            mk(
                "swallows_errors",
                Box::new(|s, a| {
                    script(
                        s,
                        a,
                        |s, b| {
                            let _ = s.write_all(b);
                            Ok(())
                        },
                        |s| {
                            let _ = s.flush();
                            Ok(())
                        },
                    )
                }),
            ),
            vec![Plan { k: 2, kind: Kind::Error }, Plan { k: 3, kind: Kind::ErrorOnce }, Plan { k: 4, kind: Kind::Zero }],
        ),
        // the error of the final flush is swallowed (bytes accepted but not flushed)
        (
            mk(
                "swallows_final_flush",
                Box::new(|s, a| {
                    script(s, a, |s, b| s.write_all(b), |s| {
                        let _ = s.flush();
                        Ok(())
                    })
                }),
            ),
            vec![Plan { k: 5, kind: Kind::Error }, Plan { k: 5, kind: Kind::ErrorOnce }],
        ),
        // unwrap on the I/O result
        (
            mk(
                "panics_on_error",
                Box::new(|s, a| {
                    script(
                        s,
                        a,
                        |s, b| {
                            s.write_all(b).unwrap();
                            Ok(())
                        },
                        |s| s.flush(),
                    )
                }),
            ),
            vec![Plan { k: 2, kind: Kind::Error }],
        ),
        // after a short write the whole chunk is sent again: duplicated bytes
        (
            mk(
                "resends_after_short_write",
                Box::new(|s, a| {
                    script(
                        s,
                        a,
                        |s, b| {
                            let n = retry_intr(s, b)?;
                            if n < b.len() {
                                s.write_all(b)?;
                            }
                            Ok(())
                        },
                        |s| s.flush(),
                    )
                }),
            ),
            vec![Plan { k: 2, kind: Kind::Short }],
        ),
        // an Interrupted write is reported as a failure although write_all semantics make it invisible
        (
            mk(
                "fails_on_interrupted",
                Box::new(|s, a| {
                    script(
                        s,
                        a,
                        |s, b| {
                            let mut off = 0;
                            while off < b.len() {
                                off += s.write(&b[off..])?;
                            }
                            Ok(())
                        },
                        |s| s.flush(),
                    )
                }),
            ),
            vec![Plan { k: 3, kind: Kind::Interrupted }],
        ),
        // `finished` is set before the fallible write of the trailer: a retried finish reports success
        // with the trailer missing
        (
            mk("finish_marks_done_before_write", {
                Box::new(|s, a| {
                    let done = std::cell::Cell::new(false);
                    script_retry(s, a, |s| {
                        if !done.get() {
                            done.set(true);
                            s.write_all(CHUNKS[3])?;
                        }
                        s.flush()
                    })
                })
            }),
            vec![Plan { k: 4, kind: Kind::ErrorOnce }, Plan { k: 4, kind: Kind::Zero }],
        ),
        // the same for a writer that never flushes (a dead sink: the retry cannot have written anything)
        (
            mk("finish_marks_done_before_write_noflush", {
                Box::new(|s, a| {
                    let done = std::cell::Cell::new(false);
                    script_retry(s, a, |s| {
                        if !done.get() {
                            done.set(true);
                            s.write_all(CHUNKS[3])?;
                        }
                        Ok(())
                    })
                })
            }),
            vec![Plan { k: 4, kind: Kind::Error }, Plan { k: 4, kind: Kind::ErrorOnce }],
        ),
        // reports an error that never happened
        (
            mk("spurious_error", Box::new(|s, a| script(s, a, |s, b| s.write_all(b), |_| Err(std::io::Error::other("made up"))))),
            vec![Plan::none()],
        ),
    ]
}

/// control: the same script with write_all + flush, under every plan: must be accepted
pub fn good_writer() -> WCase {
    WCase { fmt: "selftest", variant: "control", random_sync: false, primary: true, term_only: false, whole_writes: false, read_back: None, run: Box::new(|s, a| script(s, a, |s, b| s.write_all(b), |s| s.flush())) }
}

/// control: a terminating call that remembers what it has written, retried after a failure
pub fn good_retry_writer() -> WCase {
    WCase {
        fmt: "selftest",
        variant: "control-retry",
        random_sync: false,
        primary: true,
        term_only: false,
        whole_writes: false,
        read_back: None,
        run: Box::new(|s, a| {
            let written = std::cell::Cell::new(false);
            script_retry(s, a, |s| {
                if !written.get() {
                    s.write_all(CHUNKS[3])?;
                    written.set(true);
                }
                s.flush()
            })
        }),
    }
}

/// control: complete lines only, a partial last line or a source error is an error
pub fn good_reader() -> BadRead {
    (
        "control",
        "rows",
        Box::new(|d, dev| {
            let (all, failed) = slurp(&mut FaultSrc::new(d, dev), false);
            let cut = all.iter().rposition(|b| *b == b'\n').map(|i| i + 1).unwrap_or(0);
            let partial = cut < all.len();
            ROut { outcome: if failed || partial { "err".into() } else { "ok".into() }, phase: String::new(), batches: vec![rows(&all[..cut])] }
        }),
    )
}

/// a line-per-row text file and defective readers of it
pub const LINES: &[u8] = b"row one\nrow two\nrow three\nrow four\n";

fn rows(text: &[u8]) -> Vec<String> {
    text.split(|b| *b == b'\n').filter(|l| !l.is_empty()).map(|l| String::from_utf8_lossy(l).into_owned()).collect()
}

pub fn orig() -> Vec<Vec<String>> {
    vec![rows(LINES)]
}

fn slurp(src: &mut FaultSrc, stop_on_error: bool) -> (Vec<u8>, bool) {
    let mut all = vec![];
    let mut buf = [0u8; 8];
    loop {
        match src.read(&mut buf) {
            Ok(0) => return (all, false),
            Ok(n) => all.extend_from_slice(&buf[..n]),
            Err(e) if e.kind() == ErrorKind::Interrupted && !stop_on_error => continue,
            Err(_) => return (all, true),
        }
    }
}

pub type BadRead = (&'static str, &'static str, Box<dyn Fn(Arc<Vec<u8>>, Shared) -> ROut + Send + Sync>);

pub fn readers() -> Vec<BadRead> {
    vec![
        // a source error is taken for the end of the data: fewer rows, reported as success; and the
        // incomplete last line is returned as a row
        (
            "error_is_eof",
            "rows",
            Box::new(|d, dev| {
                let (all, _) = slurp(&mut FaultSrc::new(d, dev), true);
                ROut { outcome: "ok".into(), phase: String::new(), batches: vec![rows(&all)] }
            }),
        ),
        // a well-behaved line reader for comparison of the cut rule: complete lines only, error on a partial one
        (
            "partial_last_row",
            "rows",
            Box::new(|d, dev| {
                let (all, failed) = slurp(&mut FaultSrc::new(d, dev), false);
                ROut { outcome: if failed { "err".into() } else { "ok".into() }, phase: String::new(), batches: vec![rows(&all)] }
            }),
        ),
        // a footer-based format whose reader does not check the footer: a cut file is accepted
        (
            "accepts_cut_footer_file",
            "footer",
            Box::new(|d, dev| {
                let (all, _) = slurp(&mut FaultSrc::new(d, dev), false);
                let complete = all.iter().rposition(|b| *b == b'\n').map(|i| &all[..=i]).unwrap_or(&[]);
                ROut { outcome: "ok".into(), phase: String::new(), batches: vec![rows(complete)] }
            }),
        ),
    ]
}
