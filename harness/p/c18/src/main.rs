//! C18 driver: truncation and I/O faults are reported, never turned into wrong rows.
//!
//! `run` records three kinds of events (validated by Trace_FaultIO.tla, which is the only judge):
//!   wsess  one writer session (format x API script) over the fault-injecting sink, for the fault-free plan
//!          and for a fault of every kind at every sink call index: the sink call log, the API call log,
//!          and the pure projections acc_len / full_len / acc_digest / full_prefix_digest
//!   rref   per reader case: the rows written and the rows the fault-free reader returns
//!   rsess  one reader session over the fault-injecting source (every call index x kind)
//!   cut    the reader on the first n bytes of the file, for every n
//! Every session runs in its own thread under a watchdog (outcome "hang") with panics captured ("panic").
mod data;
mod fault;
mod rsess;
mod wsess;

use fault::{dev, FaultSink, Kind, Plan, Shared};
use std::sync::mpsc;
use std::sync::Arc;
use std::time::Duration;
use vcore::trace::Shards;
use vcore::{json, Args, Rng, Value};

const WATCHDOG: Duration = Duration::from_secs(20);

/// run `f` in its own thread; `None` = it did not return in time (the thread is abandoned)
fn watchdog<T: Send + 'static>(f: impl FnOnce() -> T + Send + 'static) -> Option<T> {
    let (tx, rx) = mpsc::channel();
    std::thread::Builder::new()
        .name("session".into())
        .stack_size(8 << 20)
        .spawn(move || {
            let r = f();
            let _ = tx.send(r);
        })
        .unwrap();
    rx.recv_timeout(WATCHDOG).ok()
}

fn fnv(bytes: impl Iterator<Item = u8>) -> String {
    let mut h: u64 = 0xcbf29ce484222325;
    for b in bytes {
        h ^= b as u64;
        h = h.wrapping_mul(0x100000001b3);
    }
    format!("{h:016x}")
}

/// digest of `bytes` with the masked positions (random sync marker bytes) blanked
fn digest(bytes: &[u8], mask: &[bool]) -> String {
    fnv(bytes.iter().enumerate().map(|(i, b)| if mask.get(i).copied().unwrap_or(false) { 0 } else { *b }))
}

fn ints(v: &[i64]) -> Value {
    Value::Array(v.iter().map(|x| json!(*x)).collect())
}
fn strs(v: &[String]) -> Value {
    Value::Array(v.iter().map(|x| json!(x)).collect())
}
fn nested(v: &[Vec<String>]) -> Value {
    Value::Array(v.iter().map(|b| strs(b)).collect())
}

/// which call indices get a fault: all of them up to `max`, else first / last / around flushes + a spread
fn pick(ops: &[i64], max: usize) -> Vec<usize> {
    let n = ops.len();
    if n <= max {
        return (1..=n).collect();
    }
    let mut s = std::collections::BTreeSet::new();
    for i in 1..=n.min(8) {
        s.insert(i);
        s.insert(n + 1 - i);
    }
    for (i, op) in ops.iter().enumerate() {
        if *op != 0 && s.len() < max / 2 {
            for j in [i, i + 1, i + 2] {
                if j >= 1 && j <= n {
                    s.insert(j);
                }
            }
        }
    }
    let rest = max.saturating_sub(s.len()).max(1);
    for j in 0..rest {
        s.insert(1 + j * (n - 1) / rest);
    }
    s.into_iter().collect()
}

struct WRes {
    dev: Shared,
    api: wsess::Api,
    hang: bool,
}

fn run_writer(case: &Arc<wsess::WCase>, plan: Plan) -> WRes {
    let d = dev(plan);
    let api = wsess::Api::new(d.clone());
    let (c, d2, a2) = (case.clone(), d.clone(), api.clone());
    let done = watchdog(move || (c.run)(FaultSink(d2), &a2));
    WRes { dev: d, api, hang: done.is_none() }
}

struct Counters {
    wsess: usize,
    rsess: usize,
    cuts: usize,
    panics: usize,
    hangs: usize,
    ok_after_err: usize,
}

fn writer_events(args: &Args, inp: &wsess::Inputs, tr: &mut Shards, cnt: &mut Counters) -> Vec<(String, String, Vec<u8>)> {
    let max_idx = args.scale(60, 400);
    let mut files = vec![];
    for case in wsess::cases(inp) {
        let case = Arc::new(case);
        // fault-free reference: the bytes, the sink call script
        let r0 = run_writer(&case, Plan::none());
        let (full, ref_ops, ref_lens) = {
            let d = r0.dev.lock().unwrap();
            (d.acc.clone(), d.ops.clone(), d.lens.clone())
        };
        let marker = r0.api.log.lock().unwrap().marker;
        let mut mask = vec![false; full.len()];
        if let Some(m) = marker {
            let mut i = 0;
            while i + 16 <= full.len() {
                if full[i..i + 16] == m {
                    mask[i..i + 16].iter_mut().for_each(|x| *x = true);
                    i += 16;
                } else {
                    i += 1;
                }
            }
        }
        files.push((case.fmt.to_string(), case.variant.to_string(), full.clone()));
        let mut plans = vec![Plan::none()];
        for k in pick(&ref_ops, max_idx) {
            let (op, len) = (ref_ops[k - 1], ref_lens[k - 1]);
            plans.push(Plan { k, kind: Kind::Error });
            plans.push(Plan { k, kind: Kind::ErrorOnce });
            plans.push(Plan { k, kind: Kind::Interrupted });
            if op == fault::OP_WRITE && len >= 2 {
                plans.push(Plan { k, kind: Kind::Short });
            }
            if op == fault::OP_WRITE && len >= 1 {
                plans.push(Plan { k, kind: Kind::Zero });
            }
        }
        // a plan behind the last call never fires
        plans.push(Plan { k: ref_ops.len() + 1, kind: Kind::Error });
        for plan in plans {
            let r = run_writer(&case, plan);
            let d = r.dev.lock().unwrap();
            let l = r.api.log.lock().unwrap();
            let outcome = if r.hang {
                "hang"
            } else if l.res.iter().any(|x| x == "panic") {
                "panic"
            } else if l.res.iter().any(|x| x == "err") {
                "err"
            } else {
                "ok"
            };
            cnt.panics += (outcome == "panic") as usize;
            cnt.hangs += (outcome == "hang") as usize;
            if let Some(first_err) = l.res.iter().position(|x| x == "err") {
                cnt.ok_after_err += l.res[first_err..].iter().any(|x| x == "ok") as usize;
            }
            let acc = &d.acc;
            let pre = &full[..acc.len().min(full.len())];
            tr.emit(json!({
                "op": "wsess", "fmt": case.fmt, "variant": case.variant, "k": plan.k, "kind": plan.kind.name(),
                "ncalls": ref_ops.len(), "fired": d.fired,
                "sop": ints(&d.ops), "slen": ints(&d.lens), "sret": ints(&d.rets),
                "api": strs(&l.names), "ares": strs(&l.res), "aat": ints(&l.at),
                "acc_len": acc.len(), "full_len": full.len(),
                "acc_digest": digest(acc, &mask), "full_prefix_digest": digest(pre, &mask),
                "masked": mask.iter().filter(|x| **x).count(),
                "outcome": outcome,
            }));
            tr.next_episode();
            cnt.wsess += 1;
        }
    }
    files
}

struct RRes {
    dev: Shared,
    out: rsess::ROut,
}

fn run_reader(case: &Arc<rsess::RCase>, data: Arc<Vec<u8>>, plan: Plan) -> RRes {
    let d = dev(plan);
    let (c, d2) = (case.clone(), d.clone());
    let out = watchdog(move || (c.read)(data, d2)).unwrap_or(rsess::ROut { outcome: "hang".into(), ..Default::default() });
    RRes { dev: d, out }
}

/// truncation lengths: all of them for small files, else both ends + an odd stride
fn cut_lengths(len: usize, all_upto: usize) -> Vec<usize> {
    if len <= all_upto {
        return (0..=len).collect();
    }
    let mut s = std::collections::BTreeSet::new();
    for n in 0..=len {
        if n < 64 || n + 160 > len || n % 13 == 3 {
            s.insert(n);
        }
    }
    s.into_iter().collect()
}

fn reader_events(args: &Args, cases: Vec<rsess::RCase>, tr: &mut Shards, cnt: &mut Counters) {
    let max_idx = args.scale(60, 400);
    let all_upto = args.scale(2048, 16384);
    for case in cases {
        let case = Arc::new(case);
        let r0 = run_reader(&case, case.file.clone(), Plan::none());
        let (ref_ops, ref_lens, ref_rets) = {
            let d = r0.dev.lock().unwrap();
            (d.ops.clone(), d.lens.clone(), d.rets.clone())
        };
        let orig = r0.out.batches.clone();
        tr.emit(json!({
            "op": "rref", "fmt": case.fmt, "variant": case.variant, "cls": case.cls, "round_trip": case.round_trip,
            "outcome": r0.out.outcome, "written": nested(&case.written), "read": nested(&orig),
            "len": case.file.len(), "ncalls": ref_ops.len(),
        }));
        tr.next_episode();
        // faults
        let mut plans = vec![];
        for k in pick(&ref_ops, max_idx) {
            let (op, ret) = (ref_ops[k - 1], ref_rets[k - 1]);
            plans.push(Plan { k, kind: Kind::Error });
            plans.push(Plan { k, kind: Kind::ErrorOnce });
            if op == fault::OP_READ {
                plans.push(Plan { k, kind: Kind::Interrupted });
                if ret >= 2 && ref_lens[k - 1] >= 2 {
                    plans.push(Plan { k, kind: Kind::Short });
                }
            }
        }
        plans.push(Plan { k: ref_ops.len() + 1, kind: Kind::Error });
        for plan in plans {
            let r = run_reader(&case, case.file.clone(), plan);
            let d = r.dev.lock().unwrap();
            cnt.panics += (r.out.outcome == "panic") as usize;
            cnt.hangs += (r.out.outcome == "hang") as usize;
            tr.emit(json!({
                "op": "rsess", "fmt": case.fmt, "variant": case.variant, "cls": case.cls, "k": plan.k, "kind": plan.kind.name(),
                "ncalls": ref_ops.len(), "fired": d.fired,
                "sop": ints(&d.ops), "slen": ints(&d.lens), "sret": ints(&d.rets),
                "outcome": r.out.outcome, "got": nested(&r.out.batches), "orig": nested(&orig),
            }));
            tr.next_episode();
            cnt.rsess += 1;
        }
        // truncation (once per format and reader)
        let len = case.file.len();
        let upto = if args.thorough() || case.cuts_quick { all_upto } else { 0 };
        for n in cut_lengths(len, upto) {
            let r = run_reader(&case, Arc::new(case.file[..n].to_vec()), Plan::none());
            cnt.panics += (r.out.outcome == "panic") as usize;
            cnt.hangs += (r.out.outcome == "hang") as usize;
            tr.emit(json!({
                "op": "cut", "fmt": case.fmt, "variant": case.variant, "cls": case.cls, "n": n, "len": len,
                "outcome": r.out.outcome, "got": nested(&r.out.batches), "orig": nested(&orig),
            }));
            tr.next_episode();
            cnt.cuts += 1;
        }
    }
}

fn find<'a>(files: &'a [(String, String, Vec<u8>)], fmt: &str, variant: &str) -> Arc<Vec<u8>> {
    Arc::new(files.iter().find(|(f, v, _)| f == fmt && v == variant).unwrap_or_else(|| panic!("no reference output for {fmt} {variant}")).2.clone())
}

fn main() {
    let args = Args::parse();
    // panics of the code under test are data: captured per API call, never printed
    let default = std::panic::take_hook();
    std::panic::set_hook(Box::new(move |info| {
        if std::thread::current().name() != Some("session") {
            default(info);
        }
    }));
    if args.driver != "run" {
        eprintln!("usage: c18 run --tier T --seed S --out DIR");
        std::process::exit(2);
    }
    let mut rng = Rng::new(args.seed);
    let lens: &[usize] = if args.thorough() { &[7, 1, 9] } else { &[5, 1, 4] };
    let inp = wsess::Inputs {
        bin: data::binary(&mut rng, lens, false),
        bin_dict: data::binary(&mut rng, lens, true),
        wide: data::wide(&mut rng, args.scale(1400, 6000)),
        avro: data::avro(&mut rng, lens),
        text: data::text(&mut rng, lens),
    };
    let mut cnt = Counters { wsess: 0, rsess: 0, cuts: 0, panics: 0, hangs: 0, ok_after_err: 0 };
    let mut wtr = Shards::create(&args.out, "fw", 14);
    let files = writer_events(&args, &inp, &mut wtr, &mut cnt);
    let wev = wtr.finish();
    let f = rsess::Files {
        ipc_file: find(&files, "ipc_file", "direct/finish"),
        ipc_stream: find(&files, "ipc_stream", "direct/finish"),
        parquet: find(&files, "parquet", "groups4/flush+sync/close"),
        csv: find(&files, "csv", "close"),
        json: find(&files, "json_lines", "direct/finish"),
        avro_ocf: find(&files, "avro_ocf", "direct/finish+into_inner"),
    };
    let mut rtr = Shards::create(&args.out, "fr", 14);
    reader_events(&args, rsess::cases(&f, &inp.bin_dict, &inp.text, &inp.avro), &mut rtr, &mut cnt);
    let rev = rtr.finish();
    println!(
        "DRIVER c18 writer_sessions={} reader_sessions={} truncations={} events={} panics={} hangs={} ok_after_err={}",
        cnt.wsess,
        cnt.rsess,
        cnt.cuts,
        wev + rev,
        cnt.panics,
        cnt.hangs,
        cnt.ok_after_err
    );
    // abandoned (hung) session threads must not keep the process alive
    std::process::exit(0);
}
