//! C18 driver: truncation and I/O faults are reported, never turned into wrong rows.
//!
//! `run` records four kinds of events (validated by Trace_FaultIO.tla, which is the only judge):
//!   wsess  one writer session (format x API script, wsess.rs) over the fault-injecting sink (fault.rs), for
//!          the fault-free plan and for a fault of every kind at every sink call index: the sink call log,
//!          the API call log, the pure projections acc_len / full_len / acc_digest / full_prefix_digest and,
//!          when a terminating call succeeded after a reported failure, what the format's reader returns
//!          for the bytes the sink holds (rb, rb_rows)
//!   rref   per reader case (rsess.rs): the rows written and the rows the fault-free reader returns
//!   rsess  one reader session over the fault-injecting source (every call index x kind)
//!   cut    the reader on the first n bytes of the file, for every n
//! Every session runs on a session thread under a watchdog (outcome "hang"), panics are captured per call.
//! `selftest` records sessions of deliberately defective writers / readers (selftest.rs) that TLC must
//! reject, and of their well-behaved counterparts that it must accept.
mod data;
mod fault;
mod rsess;
mod selftest;
mod wsess;

use fault::{dev, FaultSink, Kind, Plan, Shared};
use std::sync::mpsc;
use std::sync::Arc;
use std::time::Duration;
use vcore::trace::Shards;
use vcore::{json, Args, Rng, Value};

const WATCHDOG: Duration = Duration::from_secs(20);

type Job = Box<dyn FnOnce() + Send + 'static>;

thread_local! {
    /// the session thread: reused from session to session, replaced after a hang
    static WORKER: std::cell::RefCell<Option<mpsc::Sender<Job>>> = const { std::cell::RefCell::new(None) };
}

fn spawn_worker() -> mpsc::Sender<Job> {
    let (tx, rx) = mpsc::channel::<Job>();
    std::thread::Builder::new()
        .name("session".into())
        .stack_size(8 << 20)
        .spawn(move || {
            for job in rx {
                job();
            }
        })
        .unwrap();
    tx
}

/// run `f` on the session thread; `None` = it did not return in time (that thread is abandoned and a
/// fresh one serves the next session).  Panics of the code under test are caught inside `f`.
fn watchdog<T: Send + 'static>(f: impl FnOnce() -> T + Send + 'static) -> Option<T> {
    let (tx, rx) = mpsc::channel();
    let job: Job = Box::new(move || {
        let r = f();
        let _ = tx.send(r);
    });
    WORKER.with(|w| {
        let mut w = w.borrow_mut();
        if w.is_none() {
            *w = Some(spawn_worker());
        }
        if let Err(mpsc::SendError(job)) = w.as_ref().unwrap().send(job) {
            // the worker died (a panic escaped a session): start a new one
            *w = Some(spawn_worker());
            w.as_ref().unwrap().send(job).ok();
        }
    });
    match rx.recv_timeout(WATCHDOG) {
        Ok(r) => Some(r),
        Err(mpsc::RecvTimeoutError::Timeout) => {
            WORKER.with(|w| *w.borrow_mut() = None);
            None
        }
        Err(mpsc::RecvTimeoutError::Disconnected) => {
            // the session thread unwound without an answer: the session counts as a panic of its last call
            WORKER.with(|w| *w.borrow_mut() = None);
            None
        }
    }
}

fn fnv(bytes: impl Iterator<Item = u8>) -> String {
    let mut h: u64 = 0xcbf29ce484222325;
    for b in bytes {
        h ^= b as u64;
        h = h.wrapping_mul(0x100000001b3);
    }
    format!("{h:016x}")
}

/// digest of `bytes` with the masked positions (random sync marker bytes) blanked
fn digest(bytes: &[u8], mask: &[bool]) -> String {
    fnv(bytes.iter().enumerate().map(|(i, b)| if mask.get(i).copied().unwrap_or(false) { 0 } else { *b }))
}

fn ints(v: &[i64]) -> Value {
    Value::Array(v.iter().map(|x| json!(*x)).collect())
}
fn strs(v: &[String]) -> Value {
    Value::Array(v.iter().map(|x| json!(x)).collect())
}
fn nested(v: &[Vec<String>]) -> Value {
    Value::Array(v.iter().map(|b| strs(b)).collect())
}

/// which call indices get a fault: all of them up to `max`, else first / last / around flushes + a spread
fn pick(ops: &[i64], max: usize) -> Vec<usize> {
    let n = ops.len();
    if n <= max {
        return (1..=n).collect();
    }
    let mut s = std::collections::BTreeSet::new();
    for i in 1..=n.min(8) {
        s.insert(i);
        s.insert(n + 1 - i);
    }
    for (i, op) in ops.iter().enumerate() {
        if *op != 0 && s.len() < max / 2 {
            for j in [i, i + 1, i + 2] {
                if j >= 1 && j <= n {
                    s.insert(j);
                }
            }
        }
    }
    let rest = max.saturating_sub(s.len()).max(1);
    for j in 0..rest {
        s.insert(1 + j * (n - 1) / rest);
    }
    s.into_iter().collect()
}

struct WRes {
    dev: Shared,
    api: wsess::Api,
    hang: bool,
}

fn run_writer(case: &Arc<wsess::WCase>, plan: Plan) -> WRes {
    let d = dev(plan);
    let api = wsess::Api::new(d.clone());
    let (c, d2, a2) = (case.clone(), d.clone(), api.clone());
    let done = watchdog(move || (c.run)(FaultSink(d2), &a2));
    WRes { dev: d, api, hang: done.is_none() }
}

struct Counters {
    wsess: usize,
    rsess: usize,
    cuts: usize,
    panics: usize,
    hangs: usize,
    ok_after_err: usize,
}

/// fault-free run of a writer case: its output, the positions of random sync bytes in it, its sink calls
fn reference(case: &Arc<wsess::WCase>) -> (Vec<u8>, Vec<bool>, Vec<i64>, Vec<i64>) {
    let (a, b, c, d, _) = reference_with_phase(case);
    (a, b, c, d)
}

/// ... and the number of sink calls made before the first terminating call of the script
fn reference_with_phase(case: &Arc<wsess::WCase>) -> (Vec<u8>, Vec<bool>, Vec<i64>, Vec<i64>, usize) {
    let r0 = run_writer(case, Plan::none());
    let data_calls = {
        let l = r0.api.log.lock().unwrap();
        l.term.iter().position(|t| *t != 0).map(|i| if i == 0 { 0 } else { l.at[i - 1] as usize }).unwrap_or(l.at.last().copied().unwrap_or(0) as usize)
    };
    let (full, ref_ops, ref_lens) = {
        let d = r0.dev.lock().unwrap();
        (d.acc.clone(), d.ops.clone(), d.lens.clone())
    };
    let marker = r0.api.log.lock().unwrap().marker;
    let mut mask = vec![false; full.len()];
    if let Some(m) = marker {
        let mut i = 0;
        while i + 16 <= full.len() {
            if full[i..i + 16] == m {
                mask[i..i + 16].iter_mut().for_each(|x| *x = true);
                i += 16;
            } else {
                i += 1;
            }
        }
    }
    (full, mask, ref_ops, ref_lens, data_calls)
}

/// one writer session under `plan` as a trace event (+ its outcome class, + "a call returned ok after an
/// earlier one reported the failure")
type Readers = std::collections::HashMap<&'static str, Arc<rsess::RCase>>;

/// the standard reader of each format, for reading back what a writer session left in the sink
fn read_back_readers(inp: &wsess::Inputs) -> Readers {
    let e = || Arc::new(Vec::new());
    let none = rsess::Files { ipc_file: e(), ipc_stream: e(), parquet: e(), csv: e(), json: e(), avro_ocf: e() };
    let mut m = Readers::new();
    for c in rsess::cases(&none, &inp.bin_dict, &inp.text, &inp.avro) {
        if matches!((c.fmt, c.variant), ("ipc_file", "direct") | ("ipc_stream", "direct") | ("parquet", "arrow_reader") | ("csv", "build") | ("json_lines", "buf8k") | ("avro_ocf", "buf8k")) {
            m.insert(c.fmt, Arc::new(c));
        }
    }
    m
}

fn wsess_event(case: &Arc<wsess::WCase>, plan: Plan, full: &[u8], mask: &[bool], ncalls: usize, readers: &Readers) -> (Value, &'static str, bool) {
    let r = run_writer(case, plan);
    let d = r.dev.lock().unwrap();
    let l = r.api.log.lock().unwrap();
    let outcome = if r.hang {
        "hang"
    } else if l.res.iter().any(|x| x == "panic") {
        "panic"
    } else if l.res.iter().any(|x| x == "err") {
        "err"
    } else {
        "ok"
    };
    let ok_after_err = l.res.iter().position(|x| x == "err").is_some_and(|i| l.res[i..].iter().any(|x| x == "ok"));
    let acc = &d.acc;
    let pre = &full[..acc.len().min(full.len())];
    // a call reported success after an earlier call had reported a failure: what does the format's reader
    // make of the bytes the sink holds?
    let mut rb = ("none".to_string(), "none", vec![], vec![]);
    let (mut rb_got, mut rb_ref) = (vec![], vec![]);
    if let (true, Some((fmt, written))) = (ok_after_err, &case.read_back) {
        if let Some(rc) = readers.get(fmt) {
            let out = run_reader(rc, Arc::new(acc.clone()), Plan::none()).out;
            rb_got = out.batches.clone();
            // ... and of the fault-free output (batch by batch)
            rb_ref = run_reader(rc, Arc::new(full.to_vec()), Plan::none()).out.batches;
            rb = (out.outcome, rc.cls, out.batches.into_iter().flatten().collect(), written.clone());
        }
    }
    let ev = json!({
        "op": "wsess", "fmt": case.fmt, "variant": case.variant, "k": plan.k, "kind": plan.kind.name(),
        "random_sync": case.random_sync,
        "rb": rb.0, "rb_cls": rb.1, "rb_rows": strs(&rb.2), "rb_written": strs(&rb.3),
        "rb_got": nested(&rb_got), "rb_ref": nested(&rb_ref),
        "ncalls": ncalls, "fired": d.fired,
        "sop": ints(&d.ops), "slen": ints(&d.lens), "sret": ints(&d.rets),
        "api": strs(&l.names), "ares": strs(&l.res), "aat": ints(&l.at), "aterm": ints(&l.term),
        "acc_len": acc.len(), "full_len": full.len(),
        "acc_digest": digest(acc, mask), "full_prefix_digest": digest(pre, mask),
        "masked": mask.iter().filter(|x| **x).count(),
        "outcome": outcome,
    });
    (ev, outcome, ok_after_err)
}

fn writer_events(args: &Args, inp: &wsess::Inputs, tr: &mut Shards, cnt: &mut Counters) -> Vec<(String, String, Vec<u8>)> {
    let mut files = vec![];
    let readers = read_back_readers(inp);
    for case in wsess::cases(inp) {
        // quick tier: the scripts that differ from a primary one only in the terminating call get fewer indices
        let max_idx = if args.thorough() { 400 } else if case.primary { 44 } else { 20 };
        let case = Arc::new(case);
        let (full, mask, ref_ops, ref_lens, data_calls) = reference_with_phase(&case);
        files.push((case.fmt.to_string(), case.variant.to_string(), full.clone()));
        let mut plans = vec![Plan::none()];
        // every sink call of the terminating phase (finish / close / into_inner / final flush) gets its faults
        // (the last 48 of them in the quick tier); a retry script gets only those
        let term_from = if args.thorough() { data_calls + 1 } else { (data_calls + 1).max(ref_ops.len().saturating_sub(47)) };
        let mut idx: std::collections::BTreeSet<usize> = (term_from..=ref_ops.len()).collect();
        if !case.term_only {
            idx.extend(pick(&ref_ops, max_idx));
        }
        for k in idx {
            let (op, len) = (ref_ops[k - 1], ref_lens[k - 1]);
            plans.push(Plan { k, kind: Kind::Error });
            plans.push(Plan { k, kind: Kind::ErrorOnce });
            if case.whole_writes {
                continue;
            }
            plans.push(Plan { k, kind: Kind::Interrupted });
            if op == fault::OP_WRITE && len >= 2 {
                plans.push(Plan { k, kind: Kind::Short });
            }
            if op == fault::OP_WRITE && len >= 1 {
                plans.push(Plan { k, kind: Kind::Zero });
            }
        }
        // a plan behind the last call never fires
        plans.push(Plan { k: ref_ops.len() + 1, kind: Kind::Error });
        for plan in plans {
            let (ev, outcome, ok_after_err) = wsess_event(&case, plan, &full, &mask, ref_ops.len(), &readers);
            cnt.panics += (outcome == "panic") as usize;
            cnt.hangs += (outcome == "hang") as usize;
            cnt.ok_after_err += ok_after_err as usize;
            tr.emit(ev);
            tr.next_episode();
            cnt.wsess += 1;
        }
    }
    files
}

struct RRes {
    dev: Shared,
    out: rsess::ROut,
}

fn run_reader(case: &Arc<rsess::RCase>, data: Arc<Vec<u8>>, plan: Plan) -> RRes {
    let d = dev(plan);
    let (c, d2) = (case.clone(), d.clone());
    let out = watchdog(move || (c.read)(data, d2)).unwrap_or(rsess::ROut { outcome: "hang".into(), ..Default::default() });
    RRes { dev: d, out }
}

/// truncation lengths: all of them for small files; else both ends of the file + an odd stride, dense for
/// the primary reader of a format, sparse for the variants that differ only in buffering
fn cut_lengths(len: usize, all_upto: usize, dense: bool) -> Vec<usize> {
    if len <= all_upto && dense {
        return (0..=len).collect();
    }
    let (head, tail, stride) = if dense { (64, 160, 29) } else { (24, 48, 97) };
    (0..=len).filter(|n| *n < head || n + tail > len || n % stride == 3).collect()
}

fn reader_events(args: &Args, cases: Vec<rsess::RCase>, tr: &mut Shards, cnt: &mut Counters) {
    let max_idx = args.scale(60, 400);
    let all_upto = args.scale(2048, 16384);
    for case in cases {
        let case = Arc::new(case);
        let r0 = run_reader(&case, case.file.clone(), Plan::none());
        let (ref_ops, ref_lens, ref_rets) = {
            let d = r0.dev.lock().unwrap();
            (d.ops.clone(), d.lens.clone(), d.rets.clone())
        };
        let orig = r0.out.batches.clone();
        tr.emit(json!({
            "op": "rref", "fmt": case.fmt, "variant": case.variant, "cls": case.cls, "round_trip": case.round_trip,
            "outcome": r0.out.outcome, "written": nested(&case.written), "read": nested(&orig),
            "len": case.file.len(), "ncalls": ref_ops.len(),
        }));
        tr.next_episode();
        // faults
        let mut plans = vec![];
        for k in pick(&ref_ops, max_idx) {
            let (op, ret) = (ref_ops[k - 1], ref_rets[k - 1]);
            plans.push(Plan { k, kind: Kind::Error });
            plans.push(Plan { k, kind: Kind::ErrorOnce });
            if op == fault::OP_READ {
                plans.push(Plan { k, kind: Kind::Interrupted });
                if ret >= 2 && ref_lens[k - 1] >= 2 {
                    plans.push(Plan { k, kind: Kind::Short });
                }
            }
        }
        plans.push(Plan { k: ref_ops.len() + 1, kind: Kind::Error });
        for plan in plans {
            let r = run_reader(&case, case.file.clone(), plan);
            let d = r.dev.lock().unwrap();
            cnt.panics += (r.out.outcome == "panic") as usize;
            cnt.hangs += (r.out.outcome == "hang") as usize;
            tr.emit(json!({
                "op": "rsess", "fmt": case.fmt, "variant": case.variant, "cls": case.cls, "k": plan.k, "kind": plan.kind.name(),
                "ncalls": ref_ops.len(), "fired": d.fired,
                "sop": ints(&d.ops), "slen": ints(&d.lens), "sret": ints(&d.rets),
                "outcome": r.out.outcome, "got": nested(&r.out.batches), "orig": nested(&orig),
            }));
            tr.next_episode();
            cnt.rsess += 1;
        }
        // truncation (once per format and reader)
        let len = case.file.len();
        for n in cut_lengths(len, all_upto, args.thorough() || case.cuts_quick) {
            let r = run_reader(&case, Arc::new(case.file[..n].to_vec()), Plan::none());
            cnt.panics += (r.out.outcome == "panic") as usize;
            cnt.hangs += (r.out.outcome == "hang") as usize;
            tr.emit(json!({
                "op": "cut", "fmt": case.fmt, "variant": case.variant, "cls": case.cls, "n": n, "len": len,
                "outcome": r.out.outcome, "got": nested(&r.out.batches), "orig": nested(&orig),
            }));
            tr.next_episode();
            cnt.cuts += 1;
        }
    }
}

/// sessions of deliberately defective writers / readers (selftest.rs): every event must be rejected
fn selftest_events(args: &Args) {
    let mut tr = vcore::Trace::create(&args.out, "bad-00");
    for (case, plans) in selftest::writers() {
        let case = Arc::new(case);
        let (full, mask, ref_ops, _) = reference(&case);
        for plan in plans {
            tr.emit(wsess_event(&case, plan, &full, &mask, ref_ops.len(), &Readers::new()).0);
        }
    }
    let file = Arc::new(selftest::LINES.to_vec());
    let orig = selftest::orig();
    for (variant, cls, read) in selftest::readers() {
        let case = Arc::new(rsess::RCase { fmt: "selftest", variant, cls, round_trip: true, cuts_quick: true, file: file.clone(), written: orig.clone(), read });
        if variant == "error_is_eof" {
            for plan in [Plan { k: 2, kind: Kind::Error }, Plan { k: 3, kind: Kind::ErrorOnce }] {
                let r = run_reader(&case, file.clone(), plan);
                let d = r.dev.lock().unwrap();
                tr.emit(json!({
                    "op": "rsess", "fmt": case.fmt, "variant": case.variant, "cls": case.cls, "k": plan.k, "kind": plan.kind.name(),
                    "ncalls": 6, "fired": d.fired,
                    "sop": ints(&d.ops), "slen": ints(&d.lens), "sret": ints(&d.rets),
                    "outcome": r.out.outcome, "got": nested(&r.out.batches), "orig": nested(&orig),
                }));
            }
        } else {
            for n in [11usize, 20] {
                let r = run_reader(&case, Arc::new(file[..n].to_vec()), Plan::none());
                tr.emit(json!({
                    "op": "cut", "fmt": case.fmt, "variant": case.variant, "cls": case.cls, "n": n, "len": file.len(),
                    "outcome": r.out.outcome, "got": nested(&r.out.batches), "orig": nested(&orig),
                }));
            }
        }
    }
    let n = tr.finish();
    // controls: the well-behaved counterparts under every plan / cut must be accepted
    let mut tr = vcore::Trace::create(&args.out, "good-00");
    for case in [selftest::good_writer(), selftest::good_retry_writer()] {
        let case = Arc::new(case);
        let (full, mask, ref_ops, _) = reference(&case);
        for k in 0..=ref_ops.len() + 1 {
            for kind in [Kind::Error, Kind::ErrorOnce, Kind::Short, Kind::Interrupted, Kind::Zero] {
                tr.emit(wsess_event(&case, Plan { k, kind }, &full, &mask, ref_ops.len(), &Readers::new()).0);
            }
        }
    }
    let (variant, cls, read) = selftest::good_reader();
    let case = Arc::new(rsess::RCase { fmt: "selftest", variant, cls, round_trip: true, cuts_quick: true, file: file.clone(), written: orig.clone(), read });
    let ref_rets = run_reader(&case, file.clone(), Plan::none()).dev.lock().unwrap().rets.clone();
    for k in 0..=7 {
        for kind in [Kind::Error, Kind::ErrorOnce, Kind::Short, Kind::Interrupted] {
            // (as in `reader_events`: a short read is planned only where two bytes can be split)
            if kind == Kind::Short && (k == 0 || ref_rets.get(k - 1).is_none_or(|r| *r < 2)) {
                continue;
            }
            let plan = Plan { k, kind };
            let r = run_reader(&case, file.clone(), plan);
            let d = r.dev.lock().unwrap();
            tr.emit(json!({
                "op": "rsess", "fmt": case.fmt, "variant": case.variant, "cls": case.cls, "k": plan.k, "kind": plan.kind.name(),
                "ncalls": 6, "fired": d.fired,
                "sop": ints(&d.ops), "slen": ints(&d.lens), "sret": ints(&d.rets),
                "outcome": r.out.outcome, "got": nested(&r.out.batches), "orig": nested(&orig),
            }));
        }
    }
    for n in 0..=file.len() {
        let r = run_reader(&case, Arc::new(file[..n].to_vec()), Plan::none());
        tr.emit(json!({
            "op": "cut", "fmt": case.fmt, "variant": case.variant, "cls": case.cls, "n": n, "len": file.len(),
            "outcome": r.out.outcome, "got": nested(&r.out.batches), "orig": nested(&orig),
        }));
    }
    let g = tr.finish();
    println!("DRIVER c18-selftest events={n} controls={g}");
}

fn find<'a>(files: &'a [(String, String, Vec<u8>)], fmt: &str, variant: &str) -> Arc<Vec<u8>> {
    Arc::new(files.iter().find(|(f, v, _)| f == fmt && v == variant).unwrap_or_else(|| panic!("no reference output for {fmt} {variant}")).2.clone())
}

fn main() {
    let args = Args::parse();
    // panics of the code under test are data: captured per API call, never printed
    let default = std::panic::take_hook();
    std::panic::set_hook(Box::new(move |info| {
        if std::thread::current().name() != Some("session") {
            default(info);
        }
    }));
    if args.driver == "selftest" {
        selftest_events(&args);
        std::process::exit(0);
    }
    if args.driver != "run" {
        eprintln!("usage: c18 run --tier T --seed S --out DIR");
        std::process::exit(2);
    }
    let mut rng = Rng::new(args.seed);
    let lens: &[usize] = if args.thorough() { &[7, 1, 9] } else { &[5, 1, 4] };
    let inp = wsess::Inputs {
        bin_dict: data::binary(&mut rng, lens, true),
        wide: data::wide(&mut rng, args.scale(6000, 40000)),
        avro: data::avro(&mut rng, lens),
        text: data::text(&mut rng, lens),
    };
    let mut cnt = Counters { wsess: 0, rsess: 0, cuts: 0, panics: 0, hangs: 0, ok_after_err: 0 };
    // one set of shards: every shard gets writer sessions, reader sessions and truncations
    let mut tr = Shards::create(&args.out, "fio", 14);
    let files = writer_events(&args, &inp, &mut tr, &mut cnt);
    let f = rsess::Files {
        ipc_file: find(&files, "ipc_file", "direct/finish"),
        ipc_stream: find(&files, "ipc_stream", "direct/finish"),
        parquet: find(&files, "parquet", "groups4/flush+sync/close"),
        csv: find(&files, "csv", "close"),
        json: find(&files, "json_lines", "direct/finish"),
        avro_ocf: find(&files, "avro_ocf", "direct/finish+into_inner"),
    };
    reader_events(&args, rsess::cases(&f, &inp.bin_dict, &inp.text, &inp.avro), &mut tr, &mut cnt);
    let events = tr.finish();
    println!(
        "DRIVER c18 writer_sessions={} reader_sessions={} truncations={} events={} panics={} hangs={} ok_after_err={}",
        cnt.wsess,
        cnt.rsess,
        cnt.cuts,
        events,
        cnt.panics,
        cnt.hangs,
        cnt.ok_after_err
    );
    // abandoned (hung) session threads must not keep the process alive
    std::process::exit(0);
}
