//! Input batches: one random table per format family, cut into 2-3 small batches (slices of one table, so
//! that dictionary columns share their dictionary and the arrays carry offsets).
use arrow_array::{ArrayRef, RecordBatch};
use arrow_schema::{DataType, Field, Schema, SchemaRef};
use std::sync::Arc;
use vcore::mk::{self, Cfg};
use vcore::{tok, Rng};

#[derive(Clone)]
pub struct Data {
    pub schema: SchemaRef,
    pub batches: Vec<RecordBatch>,
}

impl Data {
    /// the same table with a zero-row batch first / in the middle / last, as the only batch, and with no
    /// batch at all (name, data)
    pub fn with_empties(&self) -> Vec<(&'static str, Data)> {
        let e = self.batches[0].slice(0, 0);
        let b = &self.batches;
        let mk = |batches: Vec<RecordBatch>| Data { schema: self.schema.clone(), batches };
        let mut first = vec![e.clone()];
        first.extend(b.iter().cloned());
        let mut middle = vec![b[0].clone(), e.clone()];
        middle.extend(b[1..].iter().cloned());
        let mut last = b.clone();
        last.push(e.clone());
        vec![("empty-first", mk(first)), ("empty-middle", mk(middle)), ("empty-last", mk(last)), ("empty-only", mk(vec![e])), ("no-write", mk(vec![]))]
    }
    pub fn rows(&self) -> Vec<Vec<String>> {
        self.batches.iter().map(tok::batch_rows).collect()
    }
}

pub fn table(rng: &mut Rng, cols: &[(&str, DataType, usize)], lens: &[usize]) -> Data {
    let total: usize = lens.iter().sum();
    let fields: Vec<Field> = cols.iter().map(|(n, t, np)| Field::new(*n, t.clone(), *np > 0)).collect();
    let schema = Arc::new(Schema::new(fields));
    let arrays: Vec<ArrayRef> = cols.iter().map(|(_, t, np)| mk::array(rng, t, total, Cfg::tame(*np))).collect();
    let big = RecordBatch::try_new(schema.clone(), arrays).unwrap();
    let mut batches = vec![];
    let mut off = 0;
    for &l in lens {
        batches.push(big.slice(off, l));
        off += l;
    }
    Data { schema, batches }
}

fn list_i32() -> DataType {
    DataType::List(Arc::new(Field::new("item", DataType::Int32, true)))
}

/// IPC / Parquet: nulls, a nested and a dictionary column
pub fn binary(rng: &mut Rng, lens: &[usize], dict: bool) -> Data {
    let mut cols = vec![
        ("i", DataType::Int32, 25),
        ("s", DataType::Utf8, 20),
        ("f", DataType::Float64, 0),
        ("b", DataType::Boolean, 10),
        ("l", list_i32(), 20),
    ];
    if dict {
        cols.push(("d", DataType::Dictionary(Box::new(DataType::Int8), Box::new(DataType::Utf8)), 20));
    }
    table(rng, &cols, lens)
}

/// Avro: the types of the OCF quick start plus a nullable and a list column
pub fn avro(rng: &mut Rng, lens: &[usize]) -> Data {
    table(
        rng,
        &[("x", DataType::Int64, 0), ("s", DataType::Utf8, 0), ("n", DataType::Int32, 30), ("d", DataType::Float64, 0), ("b", DataType::Boolean, 0), ("l", list_i32(), 0)],
        lens,
    )
}

/// CSV / JSON: flat columns without nulls and without empty strings (what the text can represent
/// unambiguously: an empty CSV field is a null)
pub fn text(rng: &mut Rng, lens: &[usize]) -> Data {
    let d = table(rng, &[("x", DataType::Int64, 0), ("s", DataType::Utf8, 0), ("d", DataType::Float64, 0), ("b", DataType::Boolean, 0)], lens);
    let total: usize = lens.iter().sum();
    let strings: Vec<String> = (0..total)
        .map(|_| loop {
            let s = mk::rand_string(rng, Cfg::tame(0));
            if !s.is_empty() {
                break s;
            }
        })
        .collect();
    let s: ArrayRef = Arc::new(arrow_array::StringArray::from(strings));
    let mut off = 0;
    let batches = d
        .batches
        .iter()
        .map(|b| {
            let mut cols = b.columns().to_vec();
            cols[1] = s.slice(off, b.num_rows());
            off += b.num_rows();
            RecordBatch::try_new(d.schema.clone(), cols).unwrap()
        })
        .collect();
    Data { schema: d.schema, batches }
}

/// one wide batch for the Parquet writer: enough bytes for its 8 KiB BufWriter to spill
pub fn wide(rng: &mut Rng, rows: usize) -> Data {
    table(rng, &[("a", DataType::Int64, 0), ("s", DataType::Utf8, 10)], &[rows / 2, rows - rows / 2])
}
