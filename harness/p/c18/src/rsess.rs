//! Reader sessions: a reader case reads a whole file through the fault-injecting source and returns the
//! outcome class and the row tokens of every batch it handed out before stopping.  The same function is
//! used for the fault-free reference, for every fault plan, and (fault-free source over the first n bytes)
//! for every truncation length.
use crate::data::Data;
use crate::fault::{FaultChunk, FaultSrc, Shared};
use arrow_array::RecordBatch;
use arrow_schema::{ArrowError, SchemaRef};
use std::io::BufReader;
use std::sync::Arc;
use vcore::tok;

#[derive(Default, Clone)]
pub struct ROut {
    /// "ok" (end of data), "err", "panic"
    pub outcome: String,
    /// "open" / "read": where the error was reported
    pub phase: String,
    pub batches: Vec<Vec<String>>,
}

pub type Read = Box<dyn Fn(Arc<Vec<u8>>, Shared) -> ROut + Send + Sync>;

pub struct RCase {
    pub fmt: &'static str,
    pub variant: &'static str,
    /// "footer": a cut file must be rejected; "stream": batches are frames, a cut yields a prefix of the
    /// batches; "rows": the reader re-batches, a cut yields a prefix of the rows; "csv": as rows, the last
    /// row of a cut text is not constrained
    pub cls: &'static str,
    /// the fault-free read returns exactly the rows that were written
    pub round_trip: bool,
    /// every truncation length also in the quick tier (one reader per format; the other variants of the
    /// same reader differ only in buffering and get both ends of the file and a stride)
    pub cuts_quick: bool,
    pub file: Arc<Vec<u8>>,
    pub written: Vec<Vec<String>>,
    pub read: Read,
}

fn drain<I, E>(out: &mut ROut, it: I)
where
    I: Iterator<Item = Result<RecordBatch, E>>,
{
    for b in it {
        match b {
            Ok(b) => out.batches.push(tok::batch_rows(&b)),
            Err(_) => {
                out.outcome = "err".into();
                out.phase = "read".into();
                return;
            }
        }
    }
    out.outcome = "ok".into();
}

/// open + iterate under panic capture; the batches returned before a panic are kept
fn session<I, E, F>(open: F) -> ROut
where
    I: Iterator<Item = Result<RecordBatch, E>>,
    F: FnOnce() -> Result<I, String>,
{
    let mut out = ROut::default();
    let r = vcore::guarded(|| match open() {
        Err(_) => {
            out.outcome = "err".into();
            out.phase = "open".into();
        }
        Ok(it) => drain(&mut out, it),
    });
    if r.is_err() {
        out.outcome = "panic".into();
    }
    out
}

fn es<E: std::fmt::Display>(e: E) -> String {
    e.to_string()
}

fn rc(fmt: &'static str, variant: &'static str, cls: &'static str, file: &Arc<Vec<u8>>, d: &Data, read: Read) -> RCase {
    let cuts_quick = matches!(
        (fmt, variant),
        ("ipc_file", "direct") | ("ipc_stream", "direct") | ("parquet", "arrow_reader") | ("csv", "build") | ("json_lines", "buf32") | ("avro_ocf", "buf32")
    );
    RCase { fmt, variant, cls, round_trip: true, cuts_quick, file: file.clone(), written: d.rows(), read }
}

pub struct Files {
    pub ipc_file: Arc<Vec<u8>>,
    pub ipc_stream: Arc<Vec<u8>>,
    pub parquet: Arc<Vec<u8>>,
    pub csv: Arc<Vec<u8>>,
    pub json: Arc<Vec<u8>>,
    pub avro_ocf: Arc<Vec<u8>>,
}

type ArrowIter = Box<dyn Iterator<Item = Result<RecordBatch, ArrowError>>>;

pub fn cases(f: &Files, bin: &Data, text: &Data, avro: &Data) -> Vec<RCase> {
    use arrow_ipc::reader::{FileReader, StreamReader};
    let mut out = vec![];
    out.push(rc("ipc_file", "direct", "footer", &f.ipc_file, bin, Box::new(|d, dev| session(|| FileReader::try_new(FaultSrc::new(d, dev), None).map_err(es)))));
    out.push(rc("ipc_file", "buffered", "footer", &f.ipc_file, bin, Box::new(|d, dev| session(|| FileReader::try_new_buffered(FaultSrc::new(d, dev), None).map_err(es)))));
    out.push(rc("ipc_file", "buf32", "footer", &f.ipc_file, bin, Box::new(|d, dev| session(|| FileReader::try_new(BufReader::with_capacity(32, FaultSrc::new(d, dev)), None).map_err(es)))));
    out.push(rc("ipc_stream", "direct", "stream", &f.ipc_stream, bin, Box::new(|d, dev| session(|| StreamReader::try_new(FaultSrc::new(d, dev), None).map_err(es)))));
    out.push(rc("ipc_stream", "buffered", "stream", &f.ipc_stream, bin, Box::new(|d, dev| session(|| StreamReader::try_new_buffered(FaultSrc::new(d, dev), None).map_err(es)))));
    out.push(rc("ipc_stream", "buf32", "stream", &f.ipc_stream, bin, Box::new(|d, dev| session(|| StreamReader::try_new(BufReader::with_capacity(32, FaultSrc::new(d, dev)), None).map_err(es)))));

    // Parquet: the arrow reader re-batches (batch size 4)
    out.push(rc(
        "parquet",
        "arrow_reader",
        "footer",
        &f.parquet,
        bin,
        Box::new(|d, dev| {
            session(|| {
                use parquet::arrow::arrow_reader::ParquetRecordBatchReaderBuilder;
                let b = ParquetRecordBatchReaderBuilder::try_new(FaultChunk { data: d, dev }).map_err(es)?;
                b.with_batch_size(4).build().map_err(es)
            })
        }),
    ));
    // Parquet: SerializedFileReader metadata loading + the record API (rows as their Display text; the
    // reference is the fault-free session of the same reader)
    out.push(RCase {
        round_trip: false,
        ..rc(
            "parquet",
            "serialized_rows",
            "footer",
            &f.parquet,
            bin,
            Box::new(|d, dev| {
                use parquet::file::reader::FileReader as _;
                use parquet::file::serialized_reader::SerializedFileReader;
                let mut out = ROut::default();
                let r = vcore::guarded(|| {
                    let rd = match SerializedFileReader::new(FaultChunk { data: d, dev }) {
                        Ok(r) => r,
                        Err(_) => {
                            out.outcome = "err".into();
                            out.phase = "open".into();
                            return;
                        }
                    };
                    let n = rd.metadata().num_row_groups();
                    for g in 0..n {
                        let rows = rd.get_row_group(g).and_then(|rg| {
                            let mut v = vec![];
                            for r in rg.get_row_iter(None)? {
                                v.push(r?.to_string());
                            }
                            Ok(v)
                        });
                        match rows {
                            Ok(v) => out.batches.push(v),
                            Err(_) => {
                                out.outcome = "err".into();
                                out.phase = "read".into();
                                return;
                            }
                        }
                    }
                    out.outcome = "ok".into();
                });
                if r.is_err() {
                    out.outcome = "panic".into();
                }
                out
            }),
        )
    });

    let ts: SchemaRef = text.schema.clone();
    let s1 = ts.clone();
    out.push(rc(
        "csv",
        "build",
        "csv",
        &f.csv,
        text,
        Box::new(move |d, dev| session(|| arrow_csv::ReaderBuilder::new(s1.clone()).with_header(true).with_batch_size(4).build(FaultSrc::new(d, dev)).map_err(es))),
    ));
    let s1 = ts.clone();
    out.push(rc(
        "csv",
        "buf32",
        "csv",
        &f.csv,
        text,
        Box::new(move |d, dev| {
            session(|| arrow_csv::ReaderBuilder::new(s1.clone()).with_header(true).with_batch_size(4).build_buffered(BufReader::with_capacity(32, FaultSrc::new(d, dev))).map_err(es))
        }),
    ));
    let s1 = ts.clone();
    out.push(rc(
        "json_lines",
        "buf32",
        "rows",
        &f.json,
        text,
        Box::new(move |d, dev| session(|| arrow_json::ReaderBuilder::new(s1.clone()).with_batch_size(4).build(BufReader::with_capacity(32, FaultSrc::new(d, dev))).map_err(es))),
    ));
    let s1 = ts.clone();
    out.push(rc(
        "json_lines",
        "buf8k",
        "rows",
        &f.json,
        text,
        Box::new(move |d, dev| session(|| arrow_json::ReaderBuilder::new(s1.clone()).with_batch_size(4).build(BufReader::new(FaultSrc::new(d, dev))).map_err(es))),
    ));
    out.push(rc(
        "avro_ocf",
        "buf32",
        "rows",
        &f.avro_ocf,
        avro,
        Box::new(|d, dev| {
            session(|| -> Result<ArrowIter, String> {
                let r = arrow_avro::reader::ReaderBuilder::new().with_batch_size(4).build(BufReader::with_capacity(32, FaultSrc::new(d, dev))).map_err(es)?;
                Ok(Box::new(r))
            })
        }),
    ));
    out.push(rc(
        "avro_ocf",
        "buf8k",
        "rows",
        &f.avro_ocf,
        avro,
        Box::new(|d, dev| {
            session(|| -> Result<ArrowIter, String> {
                let r = arrow_avro::reader::ReaderBuilder::new().with_batch_size(4).build(BufReader::new(FaultSrc::new(d, dev))).map_err(es)?;
                Ok(Box::new(r))
            })
        }),
    ));
    out
}
