//! Fault-injecting `Write`, `Read + Seek` and `ChunkReader` wrappers.
//!
//! Every call on the wrapper is numbered (1-based, all call kinds share one counter) and logged
//! (`ops`, `lens`, `rets`).  A fault plan `(k, kind)` changes the behaviour of call `k` only, except
//! `Error`, which also kills the device: every later call fails too.  The wrappers contain no judgement;
//! FaultOps.tla (`SinkLogLegal` / `SrcLogLegal`) re-derives from the log what the wrapper had to answer.
use bytes::Bytes;
use parquet::errors::ParquetError;
use parquet::file::reader::{ChunkReader, Length};
use std::io::{self, ErrorKind, Read, Seek, SeekFrom, Write};
use std::sync::{Arc, Mutex};

#[derive(Clone, Copy, PartialEq, Debug)]
pub enum Kind {
    None,
    /// the call fails and the device is dead afterwards
    Error,
    /// the call fails once
    ErrorOnce,
    /// the call transfers only part of the buffer and returns that count
    Short,
    /// the call fails once with ErrorKind::Interrupted
    Interrupted,
    /// a write returns Ok(0) once
    Zero,
}

impl Kind {
    pub fn name(self) -> &'static str {
        match self {
            Kind::None => "none",
            Kind::Error => "error",
            Kind::ErrorOnce => "error_once",
            Kind::Short => "short",
            Kind::Interrupted => "interrupted",
            Kind::Zero => "zero",
        }
    }
}

#[derive(Clone, Copy, Debug)]
pub struct Plan {
    pub k: usize,
    pub kind: Kind,
}

impl Plan {
    pub fn none() -> Plan {
        Plan { k: 0, kind: Kind::None }
    }
}

pub const OP_WRITE: i64 = 0;
pub const OP_FLUSH: i64 = 1;
pub const OP_READ: i64 = 0;
pub const OP_SEEK: i64 = 1;
pub const OP_GET_READ: i64 = 2;
pub const OP_GET_BYTES: i64 = 3;

pub const RET_ERR: i64 = -1;
pub const RET_INTR: i64 = -2;

/// call log + fault state shared by a wrapper and the session that observes it
pub struct Dev {
    pub plan: Plan,
    pub calls: usize,
    pub fired: bool,
    pub dead: bool,
    /// sink: every byte accepted, in order
    pub acc: Vec<u8>,
    pub ops: Vec<i64>,
    /// bytes offered (write) / requested (read); 0 for the other calls
    pub lens: Vec<i64>,
    /// bytes transferred, RET_ERR or RET_INTR
    pub rets: Vec<i64>,
}

pub type Shared = Arc<Mutex<Dev>>;

pub fn dev(plan: Plan) -> Shared {
    Arc::new(Mutex::new(Dev { plan, calls: 0, fired: false, dead: false, acc: vec![], ops: vec![], lens: vec![], rets: vec![] }))
}

fn dead_err() -> io::Error {
    io::Error::other("injected fault: device failed")
}

impl Dev {
    /// numbers the call; `Some(err)` when the call must fail without transferring anything
    /// (dead device, or an error / interrupted fault planned for this call)
    fn enter(&mut self, op: i64, len: usize) -> (bool, Option<io::Error>) {
        self.calls += 1;
        self.ops.push(op);
        self.lens.push(len as i64);
        if self.dead {
            self.rets.push(RET_ERR);
            return (false, Some(dead_err()));
        }
        let here = self.calls == self.plan.k;
        if here {
            match self.plan.kind {
                Kind::Error => {
                    self.dead = true;
                    self.fired = true;
                    self.rets.push(RET_ERR);
                    return (true, Some(dead_err()));
                }
                Kind::ErrorOnce => {
                    self.fired = true;
                    self.rets.push(RET_ERR);
                    return (true, Some(io::Error::other("injected fault: transient error")));
                }
                Kind::Interrupted if op == OP_WRITE || op == OP_FLUSH => {
                    // (reads share the op code 0 with writes)
                    self.fired = true;
                    self.rets.push(RET_INTR);
                    return (true, Some(io::Error::new(ErrorKind::Interrupted, "injected fault: interrupted")));
                }
                _ => {}
            }
        }
        (here, None)
    }
}

// ------------------------------------------------------------------ sink

#[derive(Clone)]
pub struct FaultSink(pub Shared);

impl Write for FaultSink {
    fn write(&mut self, buf: &[u8]) -> io::Result<usize> {
        let mut d = self.0.lock().unwrap();
        let (here, err) = d.enter(OP_WRITE, buf.len());
        if let Some(e) = err {
            return Err(e);
        }
        let mut n = buf.len();
        if here {
            match d.plan.kind {
                Kind::Short if buf.len() >= 2 => {
                    d.fired = true;
                    n = buf.len() / 2;
                }
                Kind::Zero if !buf.is_empty() => {
                    d.fired = true;
                    n = 0;
                }
                _ => {}
            }
        }
        d.acc.extend_from_slice(&buf[..n]);
        d.rets.push(n as i64);
        Ok(n)
    }
    fn flush(&mut self) -> io::Result<()> {
        let mut d = self.0.lock().unwrap();
        let (_, err) = d.enter(OP_FLUSH, 0);
        if let Some(e) = err {
            return Err(e);
        }
        d.rets.push(0);
        Ok(())
    }
}

/// the sink behind parquet's `AsyncFileWriter`: `write(Bytes)` takes the whole buffer or fails (the trait
/// has no partial writes), `complete` is the flush
pub struct FaultAsync(pub Shared);

impl parquet::arrow::async_writer::AsyncFileWriter for FaultAsync {
    fn write(&mut self, bs: Bytes) -> futures::future::BoxFuture<'_, parquet::errors::Result<()>> {
        let mut d = self.0.lock().unwrap();
        let (_, err) = d.enter(OP_WRITE, bs.len());
        let r = match err {
            Some(e) => Err(ParquetError::External(Box::new(e))),
            None => {
                d.acc.extend_from_slice(&bs);
                d.rets.push(bs.len() as i64);
                Ok(())
            }
        };
        Box::pin(std::future::ready(r))
    }
    fn complete(&mut self) -> futures::future::BoxFuture<'_, parquet::errors::Result<()>> {
        let mut d = self.0.lock().unwrap();
        let (_, err) = d.enter(OP_FLUSH, 0);
        let r = match err {
            Some(e) => Err(ParquetError::External(Box::new(e))),
            None => {
                d.rets.push(0);
                Ok(())
            }
        };
        Box::pin(std::future::ready(r))
    }
}

// ---------------------------------------------------------------- source

/// `Read + Seek` over an in-memory file
pub struct FaultSrc {
    pub data: Arc<Vec<u8>>,
    pub pos: u64,
    pub dev: Shared,
}

impl FaultSrc {
    pub fn new(data: Arc<Vec<u8>>, dev: Shared) -> FaultSrc {
        FaultSrc { data, pos: 0, dev }
    }
}

fn read_at(d: &mut Dev, data: &[u8], pos: &mut u64, out: &mut [u8]) -> io::Result<usize> {
    let (here, err) = d.enter(OP_READ, out.len());
    if let Some(e) = err {
        return Err(e);
    }
    let start = (*pos as usize).min(data.len());
    let avail = data.len() - start;
    let mut n = avail.min(out.len());
    if here && d.plan.kind == Kind::Short && n >= 2 {
        d.fired = true;
        n /= 2;
    }
    out[..n].copy_from_slice(&data[start..start + n]);
    *pos += n as u64;
    d.rets.push(n as i64);
    Ok(n)
}

impl Read for FaultSrc {
    fn read(&mut self, out: &mut [u8]) -> io::Result<usize> {
        let mut d = self.dev.lock().unwrap();
        read_at(&mut d, &self.data, &mut self.pos, out)
    }
}

impl Seek for FaultSrc {
    fn seek(&mut self, to: SeekFrom) -> io::Result<u64> {
        let mut d = self.dev.lock().unwrap();
        let (_, err) = d.enter(OP_SEEK, 0);
        if let Some(e) = err {
            return Err(e);
        }
        let len = self.data.len() as i64;
        let np = match to {
            SeekFrom::Start(p) => p as i64,
            SeekFrom::End(o) => len + o,
            SeekFrom::Current(o) => self.pos as i64 + o,
        };
        if np < 0 {
            d.rets.push(0);
            return Err(io::Error::new(ErrorKind::InvalidInput, "seek before the start"));
        }
        self.pos = np as u64;
        d.rets.push(0);
        Ok(self.pos)
    }
}

// ----------------------------------------------------------- ChunkReader

/// Parquet `ChunkReader` over an in-memory file: `get_read` / `get_bytes` and every `read` of the
/// readers handed out are calls of the one device.
#[derive(Clone)]
pub struct FaultChunk {
    pub data: Arc<Vec<u8>>,
    pub dev: Shared,
}

pub struct ChunkRead {
    data: Arc<Vec<u8>>,
    pos: u64,
    dev: Shared,
}

impl Read for ChunkRead {
    fn read(&mut self, out: &mut [u8]) -> io::Result<usize> {
        let mut d = self.dev.lock().unwrap();
        read_at(&mut d, &self.data, &mut self.pos, out)
    }
}

impl Length for FaultChunk {
    fn len(&self) -> u64 {
        self.data.len() as u64
    }
}

impl ChunkReader for FaultChunk {
    /// buffered like the crate's own `ChunkReader for File` (which hands out a `BufReader<File>`): the page
    /// reader decodes thrift headers byte by byte
    type T = io::BufReader<ChunkRead>;

    fn get_read(&self, start: u64) -> parquet::errors::Result<Self::T> {
        let mut d = self.dev.lock().unwrap();
        let (_, err) = d.enter(OP_GET_READ, 0);
        if let Some(e) = err {
            return Err(ParquetError::External(Box::new(e)));
        }
        d.rets.push(0);
        Ok(io::BufReader::with_capacity(48, ChunkRead { data: self.data.clone(), pos: start, dev: self.dev.clone() }))
    }

    fn get_bytes(&self, start: u64, length: usize) -> parquet::errors::Result<Bytes> {
        let mut d = self.dev.lock().unwrap();
        let (_, err) = d.enter(OP_GET_BYTES, length);
        if let Some(e) = err {
            return Err(ParquetError::External(Box::new(e)));
        }
        let s = start as usize;
        if s > self.data.len() || s + length > self.data.len() {
            // what a file does: an unexpected end of file
            d.rets.push(0);
            return Err(ParquetError::EOF(format!("range {s}+{length} is outside the {} byte file", self.data.len())));
        }
        d.rets.push(length as i64);
        Ok(Bytes::copy_from_slice(&self.data[s..s + length]))
    }
}
