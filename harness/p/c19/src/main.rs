#![recursion_limit = "1024"]
//! C19 driver: walks the (bit offset, length, content, base-pointer alignment)
//! grid over every bit-mask primitive of arrow-buffer and records, per call, the
//! *logical* input bits, the parameters and what the real code returned.
//! Nothing is judged here: Trace_BitOps.tla (TLC) recomputes every result with
//! the operators of BitOps.tla.
//!
//! Event kinds: un, bin, set, quat, null, ctor (stateless, trace `ops-*`) and
//! bnew / bcall (builder state machines, trace `builder-*`).
use arrow_buffer::bit_chunk_iterator::UnalignedBitChunk;
use arrow_buffer::bit_iterator::BitIterator;
use arrow_buffer::bit_mask::set_bits;
use arrow_buffer::bit_util::{apply_bitwise_binary_op, apply_bitwise_unary_op};
use arrow_buffer::buffer::{
    bitwise_bin_op_helper, bitwise_quaternary_op_helper, bitwise_unary_op_helper, buffer_bin_and_not, buffer_unary_not,
};
use arrow_buffer::{BooleanBuffer, BooleanBufferBuilder, Buffer, MutableBuffer, NullBuffer, NullBufferBuilder};
use vcore::trace::Shards;
use vcore::{guarded, json, Args, Rng, Value};

const LATTICE: [usize; 12] = [0, 1, 7, 8, 9, 63, 64, 65, 127, 128, 129, 130];
const LENS: [usize; 13] = [0, 1, 7, 8, 9, 63, 64, 65, 127, 128, 129, 130, 200];
const NPAT: usize = 6;

// ------------------------------------------------------------------ bit helpers

fn get(bytes: &[u8], i: usize) -> bool {
    bytes[i / 8] & (1 << (i % 8)) != 0
}

fn put(bytes: &mut [u8], i: usize, v: bool) {
    if v {
        bytes[i / 8] |= 1 << (i % 8)
    } else {
        bytes[i / 8] &= !(1 << (i % 8))
    }
}

/// all bits of a byte slice as 0/1
fn all_bits(bytes: &[u8]) -> Vec<u8> {
    (0..bytes.len() * 8).map(|i| get(bytes, i) as u8).collect()
}

/// the first `n` bits of a packed result (fewer when the buffer is too short: TLC then rejects the length)
fn first_bits(bytes: &[u8], n: usize) -> Vec<u8> {
    (0..n.min(bytes.len() * 8)).map(|i| get(bytes, i) as u8).collect()
}

fn logical(b: &BooleanBuffer) -> Vec<u8> {
    (0..b.len()).map(|i| b.value(i) as u8).collect()
}

fn b01(v: &[bool]) -> Vec<u8> {
    v.iter().map(|x| *x as u8).collect()
}

fn words_bits(ws: impl Iterator<Item = u64>) -> Vec<u8> {
    let mut out = vec![];
    for w in ws {
        for i in 0..64 {
            out.push(((w >> i) & 1) as u8);
        }
    }
    out
}

fn opt3(x: Option<bool>) -> u8 {
    match x {
        Some(true) => 1,
        Some(false) => 0,
        None => 2,
    }
}

/// content patterns: all-zero, all-one, alternating, single bit at the start, single bit at the end, random
fn pattern(rng: &mut Rng, kind: usize, n: usize) -> Vec<bool> {
    let phase = rng.chance(50);
    (0..n)
        .map(|i| match kind {
            0 => false,
            1 => true,
            2 => (i % 2 == 0) == phase,
            3 => i == 0,
            4 => i + 1 == n,
            _ => rng.chance(50),
        })
        .collect()
}

/// patterns that are distinct for this length
fn patterns_for(n: usize) -> Vec<usize> {
    match n {
        0 => vec![5],
        1 => vec![0, 1],
        _ => (0..NPAT).collect(),
    }
}

/// A physical realisation of logical bits: a `Buffer` whose base pointer sits `sh` bytes after a
/// 64-byte aligned allocation, holding `bits` at bit offset `off`; every other bit comes from `sur`.
struct Phys {
    buf: Buffer,
    off: usize,
    n: usize,
}

fn nbytes(off: usize, n: usize, extra: usize) -> usize {
    (off + n).div_ceil(8) + extra
}

fn place(bits: &[bool], off: usize, extra: usize, sh: usize, sur: &[bool], flip: bool) -> Phys {
    let nb = nbytes(off, bits.len(), extra);
    let mut m = MutableBuffer::from_len_zeroed(sh + nb);
    {
        let s = m.as_slice_mut();
        for x in s.iter_mut().take(sh) {
            *x = 0xA5;
        }
        let view = &mut s[sh..];
        for j in 0..nb * 8 {
            let v = if j >= off && j < off + bits.len() { bits[j - off] } else { sur[j % sur.len()] != flip };
            put(view, j, v);
        }
    }
    let buf = Buffer::from(m).slice(sh);
    Phys { buf, off, n: bits.len() }
}

impl Phys {
    fn bb(&self) -> BooleanBuffer {
        BooleanBuffer::new(self.buf.clone(), self.off, self.n)
    }
    fn bytes(&self) -> &[u8] {
        self.buf.as_slice()
    }
}

/// mutable copy of a byte view placed `sh` bytes into an aligned allocation
struct MutView {
    m: MutableBuffer,
    sh: usize,
}

impl MutView {
    fn of(bytes: &[u8], sh: usize) -> MutView {
        let mut m = MutableBuffer::from_len_zeroed(sh + bytes.len());
        m.as_slice_mut()[sh..].copy_from_slice(bytes);
        MutView { m, sh }
    }
    fn view(&mut self) -> &mut [u8] {
        let sh = self.sh;
        &mut self.m.as_slice_mut()[sh..]
    }
    fn bits(&self) -> Vec<u8> {
        all_bits(&self.m.as_slice()[self.sh..])
    }
}

fn mutable_of(bytes: &[u8]) -> MutableBuffer {
    let mut m = MutableBuffer::from_len_zeroed(bytes.len());
    m.as_slice_mut().copy_from_slice(bytes);
    m
}

fn surround(rng: &mut Rng) -> Vec<bool> {
    (0..509).map(|_| rng.chance(50)).collect()
}

// word functions from truth tables (first operand = most significant index bit)
fn sel(x: u64, one: bool) -> u64 {
    if one { x } else { !x }
}
fn w1(f: [u8; 2]) -> impl Fn(u64) -> u64 {
    move |a| (0..2).filter(|i| f[*i] == 1).fold(0u64, |acc, i| acc | sel(a, i == 1))
}
fn w2(f: [u8; 4]) -> impl Fn(u64, u64) -> u64 {
    move |a, b| (0..4).filter(|i| f[*i] == 1).fold(0u64, |acc, i| acc | (sel(a, i & 2 != 0) & sel(b, i & 1 != 0)))
}
fn w4(f: [u8; 16]) -> impl Fn(u64, u64, u64, u64) -> u64 {
    move |a, b, c, d| {
        (0..16).filter(|i| f[*i] == 1).fold(0u64, |acc, i| {
            acc | (sel(a, i & 8 != 0) & sel(b, i & 4 != 0) & sel(c, i & 2 != 0) & sel(d, i & 1 != 0))
        })
    }
}
fn table<const N: usize>(idx: usize) -> [u8; N] {
    let mut f = [0u8; N];
    for (i, x) in f.iter_mut().enumerate() {
        *x = ((idx >> i) & 1) as u8;
    }
    f
}

struct Ctx {
    ops: Shards,
    /// events of the call with a known finding (set_bits into a destination range that is not zero): kept apart
    /// so that the main trace has no KNOWN lines
    kf: Shards,
    bld: Shards,
    rng: Rng,
    cases: usize,
    panics: usize,
    counter: usize,
}

impl Ctx {
    /// emit the event built by `f`, or a `panic` event (which TLC rejects) if the code under test panicked
    fn record(&mut self, kind: &str, params: Value, f: impl FnOnce() -> Value) {
        self.record_to(false, kind, params, f)
    }
    fn record_to(&mut self, kf: bool, kind: &str, params: Value, f: impl FnOnce() -> Value) {
        let t = if kf { &mut self.kf } else { &mut self.ops };
        match guarded(f) {
            Ok(ev) => t.emit(ev),
            Err(msg) => {
                self.panics += 1;
                t.emit(json!({"op": "panic", "kind": kind, "params": params, "msg": msg}));
            }
        }
    }
    fn next(&mut self) -> usize {
        self.counter += 1;
        self.counter
    }
}

// ------------------------------------------------------------------------ un

fn un_case(c: &mut Ctx, off: usize, n: usize, pat: usize) {
    let a = pattern(&mut c.rng, pat, n);
    let k = c.next();
    let f1: [u8; 2] = table(k % 4);
    let sur = surround(&mut c.rng);
    let extra = [0usize, 1, 9][c.rng.below(3)];
    let so = c.rng.below(n + 1);
    let sn = c.rng.below(n - so + 1);
    let ones = a.iter().filter(|x| **x).count();
    let fq: Vec<(usize, usize)> = (0..3)
        .map(|i| {
            let start = if i == 0 { 0 } else { c.rng.below(n + 1) };
            (start, c.rng.below(ones + 2))
        })
        .collect();
    let k1 = c.rng.below(n + 2);
    let k2 = c.rng.below(n + 2);
    let fi: i64 = if n > 0 { c.rng.below(n) as i64 } else { -1 };
    let oo = LATTICE[c.rng.below(LATTICE.len())];
    let sh2 = 1 + c.rng.below(7);
    for run in 1..=2usize {
        let sh = if run == 1 { 0 } else { sh2 };
        let a = a.clone();
        let sur = sur.clone();
        let fq = fq.clone();
        let params = json!({"off": off, "n": n, "pat": pat, "sh": sh, "run": run});
        c.record("un", params, move || {
            let p = place(&a, off, extra, sh, &sur, run == 2);
            let bb = p.bb();
            let bytes = p.bytes();
            // another realisation of the same content (and of a differing one) for equality
            let other = place(&a, oo, 0, (sh + 3) % 8, &sur, run == 1).bb();
            let differing = if fi >= 0 {
                let mut x = a.clone();
                x[fi as usize] = !x[fi as usize];
                place(&x, oo, 0, 0, &sur, false).bb()
            } else {
                let mut x = a.clone();
                x.push(false);
                place(&x, oo, 0, 0, &sur, false).bb()
            };
            let mut it1 = BitIterator::new(bytes, off, n);
            let nth = opt3(it1.nth(k1));
            let nth_rest = it1.len();
            let mut it2 = bb.iter();
            let nthb = opt3(it2.nth_back(k2));
            let nthb_rest = it2.len();
            let bc = bb.bit_chunks();
            let u = UnalignedBitChunk::new(bytes, off, n);
            let sl = bb.slice(so, sn);
            let mut mv = MutView::of(bytes, sh);
            let d0 = mv.bits();
            apply_bitwise_unary_op(mv.view(), off, n, w1(f1));
            let d1 = mv.bits();
            json!({
                "op": "un", "run": run, "off": off, "n": n, "sh": sh, "pat": pat,
                "a": b01(&a), "f1": f1.to_vec(),
                "count": bb.count_set_bits(), "cnt2": p.buf.count_set_bits_offset(off, n), "ucnt": u.count_ones(),
                "nulls": NullBuffer::new(bb.clone()).null_count(),
                "ht": bb.has_true(), "hf": bb.has_false(),
                "iter": BitIterator::new(bytes, off, n).map(|x| x as u8).collect::<Vec<u8>>(),
                "rev": bb.iter().rev().map(|x| x as u8).collect::<Vec<u8>>(),
                "it": [k1, nth as usize, nth_rest, k2, nthb as usize, nthb_rest,
                       opt3(bb.iter().last()) as usize, opt3(bb.iter().max()) as usize, bb.iter().count()],
                "idx": bb.set_indices().collect::<Vec<usize>>(),
                "idx32": bb.set_indices_u32().collect::<Vec<u32>>(),
                "runs": bb.set_slices().map(|(s, e)| vec![s, e]).collect::<Vec<Vec<usize>>>(),
                "cl": bc.chunk_len(), "rl": bc.remainder_len(), "chunks": words_bits(bc.iter()),
                "rem": words_bits(std::iter::once(bc.remainder_bits())), "padded": bc.iter_padded().count(),
                "ulead": u.lead_padding(), "utrail": u.trailing_padding(), "uw": words_bits(u.iter()),
                "not": logical(&!&bb),
                "bnot": first_bits(buffer_unary_not(&p.buf, off, n).as_slice(), n),
                "hnot": first_bits(bitwise_unary_op_helper(&p.buf, off, n, |x| !x).as_slice(), n),
                "un": logical(&BooleanBuffer::from_bitwise_unary_op(bytes, off, n, w1(f1))),
                "hun": first_bits(bitwise_unary_op_helper(&p.buf, off, n, w1(f1)).as_slice(), n),
                "fb": logical(&BooleanBuffer::from_bits(bytes, off, n)),
                "sliced": first_bits(bb.sliced().as_slice(), n),
                "bsl": first_bits(p.buf.bit_slice(off, n).as_slice(), n),
                "so": so, "sn": sn, "sl": logical(&sl), "slcount": sl.count_set_bits(),
                "fq": fq.iter().map(|(s, k)| vec![*s, *k, bb.find_nth_set_bit_position(*s, *k)]).collect::<Vec<_>>(),
                "eq1": bb == other, "fi": fi, "eq2": bb == differing,
                "d0": d0, "d1": d1,
            })
        });
    }
    c.cases += 1;
    c.ops.next_episode();
}

// ----------------------------------------------------------------------- bin

fn bin_case(c: &mut Ctx, lo: usize, ro: usize, n: usize, pa: usize, pb: usize) {
    let a = pattern(&mut c.rng, pa, n);
    let b = pattern(&mut c.rng, pb, n);
    let k = c.next();
    let f2: [u8; 4] = table(k % 16);
    let aop = ["and", "or", "xor"][k % 3];
    let sur = surround(&mut c.rng);
    let sur2 = surround(&mut c.rng);
    let extra = [0usize, 1, 9][c.rng.below(3)];
    let extra_r = [0usize, 1, 9][c.rng.below(3)];
    let shs = [1 + c.rng.below(7), c.rng.below(8)];
    for run in 1..=2usize {
        let (shl, shr) = if run == 1 { (0, 0) } else { (shs[0], shs[1]) };
        let (a, b, sur, sur2) = (a.clone(), b.clone(), sur.clone(), sur2.clone());
        let params = json!({"lo": lo, "ro": ro, "n": n, "run": run});
        c.record("bin", params, move || {
            let l = place(&a, lo, extra, shl, &sur, run == 2);
            let r = place(&b, ro, extra_r, shr, &sur2, run == 2);
            let (bl, br) = (l.bb(), r.bb());
            let mut mv = MutView::of(l.bytes(), shl);
            let d0 = mv.bits();
            apply_bitwise_binary_op(mv.view(), lo, r.bytes(), ro, n, w2(f2));
            let d1 = mv.bits();
            // op-assign on a uniquely owned, unsliced buffer (in-place path) ...
            let mut um = MutableBuffer::from_len_zeroed(l.bytes().len());
            um.as_slice_mut().copy_from_slice(l.bytes());
            let ub = Buffer::from(um);
            let uptr = ub.as_ptr();
            let mut x = BooleanBuffer::new(ub, lo, n);
            let au0 = all_bits(x.values());
            match aop {
                "and" => x &= &br,
                "or" => x |= &br,
                _ => x ^= &br,
            }
            let inpl = x.inner().as_ptr() == uptr && x.offset() == lo;
            let au1 = if inpl { all_bits(x.values()) } else { au0.clone() };
            // ... and on a shared one (copying path); `keep` must not change
            let keep = bl.clone();
            let mut y = bl.clone();
            match aop {
                "and" => y &= &br,
                "or" => y |= &br,
                _ => y ^= &br,
            }
            json!({
                "op": "bin", "run": run, "lo": lo, "ro": ro, "n": n, "shl": shl, "shr": shr,
                "a": b01(&a), "b": b01(&b), "f2": f2.to_vec(),
                "and": logical(&(&bl & &br)), "or": logical(&(&bl | &br)), "xor": logical(&(&bl ^ &br)),
                "andnot": first_bits(buffer_bin_and_not(&l.buf, lo, &r.buf, ro, n).as_slice(), n),
                "tt": logical(&BooleanBuffer::from_bitwise_binary_op(l.bytes(), lo, r.bytes(), ro, n, w2(f2))),
                "htt": first_bits(bitwise_bin_op_helper(&l.buf, lo, &r.buf, ro, n, w2(f2)).as_slice(), n),
                "d0": d0, "d1": d1,
                "aop": aop, "asu": logical(&x), "inpl": inpl, "au0": au0, "au1": au1,
                "ass": logical(&y), "aso": logical(&keep),
            })
        });
    }
    c.cases += 1;
    c.ops.next_episode();
}

// ----------------------------------------------------------------------- set

fn set_case(c: &mut Ctx, dof: usize, sof: usize, n: usize, pat: usize, zeroed: bool) {
    let src = pattern(&mut c.rng, pat, n);
    let sur = surround(&mut c.rng);
    let dsur = surround(&mut c.rng);
    let extra = [0usize, 1, 9][c.rng.below(3)];
    let dextra = [0usize, 1, 9][c.rng.below(3)];
    let dcontent: Vec<bool> = if zeroed { vec![false; n] } else { pattern(&mut c.rng, 5, n) };
    let shs = [1 + c.rng.below(7), c.rng.below(8)];
    for run in 1..=2usize {
        let (shs_, shd) = if run == 1 { (0, 0) } else { (shs[0], shs[1]) };
        let (src, sur, dsur, dcontent) = (src.clone(), sur.clone(), dsur.clone(), dcontent.clone());
        let params = json!({"do": dof, "so": sof, "n": n, "run": run});
        c.record_to(!zeroed, "set", params, move || {
            let s = place(&src, sof, extra, shs_, &sur, run == 2);
            // the destination is the same in both runs (only the source's surroundings change)
            let d = place(&dcontent, dof, dextra, 0, &dsur, false);
            let mut mv = MutView::of(d.bytes(), shd);
            let d0 = mv.bits();
            let ret = set_bits(mv.view(), s.bytes(), dof, sof, n);
            let d1 = mv.bits();
            json!({"op": "set", "run": run, "do": dof, "so": sof, "n": n, "z": zeroed, "shs": shs_, "shd": shd,
                   "src": b01(&src), "d0": d0, "d1": d1, "ret": ret})
        });
    }
    c.cases += 1;
    if zeroed { c.ops.next_episode() } else { c.kf.next_episode() }
}

// ---------------------------------------------------------------------- quat

fn quat_case(c: &mut Ctx, n: usize) {
    let k = c.next();
    let ins: Vec<Vec<bool>> = (0..4).map(|i| pattern(&mut c.rng, if i == 0 { k % NPAT } else { 5 }, n)).collect();
    let offs: Vec<usize> = (0..4).map(|_| if c.rng.chance(70) { LATTICE[c.rng.below(12)] } else { c.rng.below(131) }).collect();
    let f4: [u8; 16] = table(c.rng.below(65536));
    let surs: Vec<Vec<bool>> = (0..4).map(|_| surround(&mut c.rng)).collect();
    let shs: Vec<usize> = (0..4).map(|_| c.rng.below(8)).collect();
    for run in 1..=2usize {
        let (ins, offs, surs, shs) = (ins.clone(), offs.clone(), surs.clone(), shs.clone());
        c.record("quat", json!({"n": n, "run": run}), move || {
            let ps: Vec<Phys> =
                (0..4).map(|i| place(&ins[i], offs[i], i % 2, if run == 1 { 0 } else { shs[i] }, &surs[i], run == 2)).collect();
            let out = bitwise_quaternary_op_helper(
                [&ps[0].buf, &ps[1].buf, &ps[2].buf, &ps[3].buf],
                [offs[0], offs[1], offs[2], offs[3]],
                n,
                w4(f4),
            );
            json!({"op": "quat", "run": run, "n": n, "offs": offs, "f4": f4.to_vec(),
                   "a": b01(&ins[0]), "b": b01(&ins[1]), "c": b01(&ins[2]), "d": b01(&ins[3]),
                   "out": first_bits(out.as_slice(), n)})
        });
    }
    c.cases += 1;
    c.ops.next_episode();
}

// ---------------------------------------------------------------------- null

fn null_case(c: &mut Ctx, oa: usize, ob: usize, n: usize) {
    let k = c.next();
    // bias towards masks without nulls so that the `None` results are met
    let pk = |rng: &mut Rng, k: usize| if rng.chance(25) { 1 } else { k % NPAT };
    let (ka, kb, kc) = (pk(&mut c.rng, k), pk(&mut c.rng, k / 6), pk(&mut c.rng, k / 36));
    let a = pattern(&mut c.rng, ka, n);
    let b = pattern(&mut c.rng, kb, n);
    let cc = pattern(&mut c.rng, kc, n);
    let (pa, pb, pc) = (c.rng.chance(80), c.rng.chance(80), c.rng.chance(60));
    let oc = LATTICE[c.rng.below(12)];
    let kx = c.rng.below(4);
    let surs: Vec<Vec<bool>> = (0..3).map(|_| surround(&mut c.rng)).collect();
    let shs: Vec<usize> = (0..3).map(|_| c.rng.below(8)).collect();
    for run in 1..=2usize {
        let (a, b, cc, surs, shs) = (a.clone(), b.clone(), cc.clone(), surs.clone(), shs.clone());
        c.record("null", json!({"oa": oa, "ob": ob, "n": n, "run": run}), move || {
            let sh = |i: usize| if run == 1 { 0 } else { shs[i] };
            let na = NullBuffer::new(place(&a, oa, 0, sh(0), &surs[0], run == 2).bb());
            let nb = NullBuffer::new(place(&b, ob, 1, sh(1), &surs[1], run == 2).bb());
            let nc = NullBuffer::new(place(&cc, oc, 9, sh(2), &surs[2], run == 2).bb());
            let copy = NullBuffer::new(place(&a, ob, 0, sh(1), &surs[1], run == 1).bb());
            let o = |p: bool, x: &NullBuffer| if p { Some(x.clone()) } else { None };
            let (xa, xb, xc) = (o(pa, &na), o(pb, &nb), o(pc, &nc));
            let u = NullBuffer::union(xa.as_ref(), xb.as_ref());
            let m = NullBuffer::union_many([xa.as_ref(), xb.as_ref(), xc.as_ref()]);
            let ex = na.expand(kx);
            let bits = |x: &Option<NullBuffer>| x.as_ref().map(|x| logical(x.inner())).unwrap_or_default();
            let ncount = |x: &Option<NullBuffer>| x.as_ref().map(|x| x.null_count()).unwrap_or(0);
            json!({"op": "null", "run": run, "n": n, "oa": oa, "ob": ob, "oc": oc,
                   "a": b01(&a), "b": b01(&b), "c": b01(&cc), "pa": pa, "pb": pb, "pc": pc,
                   "u_p": u.is_some(), "u": bits(&u), "u_nc": ncount(&u),
                   "m_p": m.is_some(), "m": bits(&m), "m_nc": ncount(&m),
                   "cont": na.contains(&nb),
                   "k": kx, "ex": logical(ex.inner()), "ex_nc": ex.null_count(),
                   "nc": na.null_count(), "eqn": na == copy,
                   "vidx": na.valid_indices().collect::<Vec<usize>>(),
                   "vruns": na.valid_slices().map(|(s, e)| vec![s, e]).collect::<Vec<Vec<usize>>>()})
        });
    }
    c.cases += 1;
    c.ops.next_episode();
}

// ---------------------------------------------------------------------- ctor

fn ctor_case(c: &mut Ctx, n: usize, pat: usize) {
    let a = pattern(&mut c.rng, pat, n);
    c.record("ctor", json!({"n": n}), move || {
        let names = ["collect_bool", "MutableBuffer::collect_bool", "from_iter", "from_slice", "from_vec",
                     "from_trusted_len_iter_bool", "NullBuffer::from_slice", "Buffer::from_iter", "NullBuffer::from_iter"];
        let outs: Vec<Vec<u8>> = vec![
            logical(&BooleanBuffer::collect_bool(n, |i| a[i])),
            first_bits(MutableBuffer::collect_bool(n, |i| a[i]).as_slice(), n),
            logical(&a.iter().copied().collect::<BooleanBuffer>()),
            logical(&BooleanBuffer::from(a.as_slice())),
            logical(&BooleanBuffer::from(a.clone())),
            first_bits(unsafe { MutableBuffer::from_trusted_len_iter_bool(a.iter().copied()) }.as_slice(), n),
            logical(NullBuffer::from(a.as_slice()).inner()),
            first_bits(a.iter().copied().collect::<Buffer>().as_slice(), n),
            logical(a.iter().copied().collect::<NullBuffer>().inner()),
        ];
        let nv = NullBuffer::new_valid(n);
        let nn = NullBuffer::new_null(n);
        json!({"op": "ctor", "n": n, "a": b01(&a), "names": names.join(","), "outs": outs,
               "set": logical(&BooleanBuffer::new_set(n)), "unset": logical(&BooleanBuffer::new_unset(n)),
               "nv": logical(nv.inner()), "nn": logical(nn.inner()), "nv_nc": nv.null_count(), "nn_nc": nn.null_count()})
    });
    c.cases += 1;
    c.ops.next_episode();
}

// ------------------------------------------------------------------ builders

enum Bld {
    Bool(BooleanBufferBuilder),
    Null(NullBufferBuilder),
}

impl Bld {
    fn len(&self) -> usize {
        match self {
            Bld::Bool(b) => b.len(),
            Bld::Null(b) => b.len(),
        }
    }
    /// (present, bits) of finish_cloned
    fn content(&self) -> (bool, Vec<u8>) {
        match self {
            Bld::Bool(b) => (true, logical(&b.finish_cloned())),
            Bld::Null(b) => match b.finish_cloned() {
                Some(n) => (true, logical(n.inner())),
                None => (false, vec![]),
            },
        }
    }
}

fn bemit(c: &mut Ctx, call: &str, k: usize, v: bool, s: Vec<u8>, res: Result<(usize, bool, Vec<u8>), String>) {
    match res {
        Ok((len, p, bits)) => {
            c.bld.emit(json!({"op": "bcall", "call": call, "k": k, "v": v as u8, "s": s, "len": len, "p": p, "bits": bits}))
        }
        Err(msg) => {
            c.panics += 1;
            c.bld.emit(json!({"op": "panic", "kind": "bcall", "call": call, "k": k, "msg": msg}))
        }
    }
}

/// one builder call on `b`; `dst`/`src`/`n` steer the packed-range calls when given
fn bstep(c: &mut Ctx, b: &mut Bld, forced: Option<(&str, usize, usize)>) {
    let len = b.len();
    let is_bool = matches!(b, Bld::Bool(_));
    let calls: &[&str] = if is_bool {
        &["append", "append_n", "append_slice", "append_packed", "append_buffer", "extend", "append_word", "set_bit",
          "advance", "truncate", "resize", "finish", "finish_cloned"]
    } else {
        &["append", "append_n", "append_slice", "append_buffer", "set_bit", "truncate", "finish", "finish_cloned",
          "append_non_null", "append_null"]
    };
    let (call, so, n) = match forced {
        Some((call, so, n)) => (call, so, n),
        None => {
            let call = calls[c.rng.below(calls.len())];
            let n = if c.rng.chance(60) { LENS[c.rng.below(10)] } else { c.rng.below(70) };
            (call, LATTICE[c.rng.below(12)], n)
        }
    };
    let call = if call == "set_bit" && len == 0 { "append" } else { call };
    let v = c.rng.chance(50);
    let pat = c.rng.below(NPAT);
    let s = pattern(&mut c.rng, pat, n);
    let sur = surround(&mut c.rng);
    let sh = c.rng.below(8);
    let word: u64 = c.rng.next();
    let cnt = c.rng.below(65);
    let idx = if len > 0 { c.rng.below(len) } else { 0 };
    let tk = if forced.is_some() && (call == "truncate" || call == "resize") {
        n // forced: the exact target length
    } else if c.rng.chance(20) {
        len + c.rng.below(9)
    } else {
        c.rng.below(len + 1)
    };
    // (spec call name, k, v, s) as logged
    let (name, k, lv, ls): (&str, usize, bool, Vec<u8>) = match call {
        "append" => ("append", 0, v, vec![]),
        "append_non_null" => ("append", 0, true, vec![]),
        "append_null" => ("append", 0, false, vec![]),
        "append_n" => ("append_n", n, v, vec![]),
        "append_slice" => ("append_slice", 0, false, b01(&s)),
        "append_packed" => ("append_packed", 0, false, b01(&s)),
        "append_buffer" => ("append_buffer", 0, false, b01(&s)),
        "extend" => ("extend", 0, false, b01(&s)),
        "append_word" => ("append_word", cnt, false, words_bits(std::iter::once(word))),
        "set_bit" => ("set_bit", idx, v, vec![]),
        "advance" => ("advance", n, false, vec![]),
        "truncate" => ("truncate", tk, false, vec![]),
        "resize" => ("resize", tk, false, vec![]),
        "finish" => ("finish", 0, false, vec![]),
        _ => ("finish_cloned", 0, false, vec![]),
    };
    let res = guarded(|| {
        let p = place(&s, so, 1, sh, &sur, false);
        let mut finished: Option<(bool, Vec<u8>)> = None;
        match b {
            Bld::Bool(bb) => match call {
                "append" => bb.append(v),
                "append_n" => bb.append_n(n, v),
                "append_slice" => bb.append_slice(&s),
                "append_packed" => bb.append_packed_range(so..so + n, p.bytes()),
                "append_buffer" => bb.append_buffer(&p.bb()),
                "extend" => unsafe { bb.extend_trusted_len(s.iter().copied()) },
                "append_word" => bb.append_word(word, cnt),
                "set_bit" => bb.set_bit(idx, v),
                "advance" => bb.advance(n),
                "truncate" => bb.truncate(tk),
                "resize" => bb.resize(tk),
                "finish" => finished = Some((true, logical(&bb.finish()))),
                _ => {}
            },
            Bld::Null(nb) => match call {
                "append" => nb.append(v),
                "append_non_null" => nb.append_non_null(),
                "append_null" => nb.append_null(),
                "append_n" => {
                    if v { nb.append_n_non_nulls(n) } else { nb.append_n_nulls(n) }
                }
                "append_slice" => nb.append_slice(&s),
                "append_buffer" => nb.append_buffer(&NullBuffer::new(p.bb())),
                "set_bit" => nb.set_bit(idx, v),
                "truncate" => nb.truncate(tk),
                "finish" => {
                    finished = Some(match nb.finish() {
                        Some(x) => (true, logical(x.inner())),
                        None => (false, vec![]),
                    })
                }
                _ => {}
            },
        }
        match finished {
            Some((p, bits)) => (b.len(), p, bits),
            None => {
                let (p, bits) = b.content();
                (b.len(), p, bits)
            }
        }
    });
    bemit(c, name, k, lv, ls, res);
}

fn bnew(c: &mut Ctx, is_bool: bool) -> Bld {
    let style = c.rng.below(3);
    let n = if style == 0 { 0 } else { LENS[c.rng.below(10)] };
    let pat = c.rng.below(NPAT);
    let init = pattern(&mut c.rng, pat, n);
    let sur = surround(&mut c.rng);
    let b = if is_bool {
        match style {
            0 => Bld::Bool(BooleanBufferBuilder::new(c.rng.below(100))),
            _ => {
                // new_from_buffer: the buffer may hold garbage beyond `len`
                let p = place(&init, 0, c.rng.below(3), 0, &sur, false);
                Bld::Bool(BooleanBufferBuilder::new_from_buffer(mutable_of(p.bytes()), n))
            }
        }
    } else {
        match style {
            0 => Bld::Null(NullBufferBuilder::new(c.rng.below(100))),
            1 => Bld::Null(NullBufferBuilder::new_with_len(n)),
            _ => {
                let p = place(&init, 0, c.rng.below(3), 0, &sur, false);
                Bld::Null(NullBufferBuilder::new_from_buffer(mutable_of(p.bytes()), n))
            }
        }
    };
    let init: Vec<bool> = if !is_bool && style == 1 { vec![true; n] } else if style == 0 { vec![] } else { init };
    let (p, bits) = b.content();
    c.bld.emit(json!({"op": "bnew", "kind": if is_bool { "bool" } else { "null" }, "style": style,
                      "init": b01(&init), "len": b.len(), "p": p, "bits": bits}));
    b
}

/// episode: reach destination offset `dst` (the builder length), copy a packed range, then random calls
fn builder_episode(c: &mut Ctx, is_bool: bool, grid: Option<(usize, usize, usize)>, steps: usize) {
    let mut b = bnew(c, is_bool);
    if let Some((dst, so, n)) = grid {
        let len = b.len();
        if len != dst {
            // bring the length to `dst` with a mix of calls
            if len > dst {
                bstep(c, &mut b, Some(("truncate", 0, dst)));
            }
            let need = dst.saturating_sub(b.len());
            if need > 0 {
                let half = need / 2;
                bstep(c, &mut b, Some(("append_n", 0, half)));
                bstep(c, &mut b, Some(("append_slice", 0, need - half)));
            }
        }
        let call = if is_bool { ["append_packed", "append_buffer", "extend"][c.rng.below(3)] } else { "append_buffer" };
        bstep(c, &mut b, Some((call, so, n)));
    }
    for _ in 0..steps {
        if b.len() > 600 {
            bstep(c, &mut b, Some(("finish", 0, 0)));
        }
        bstep(c, &mut b, None);
    }
    c.cases += 1;
    c.bld.next_episode();
}

// ------------------------------------------------------------ large-size stage

const BIG_OFFS: [usize; 7] = [0, 1, 7, 8, 63, 64, 65];
const BIG_CONTENTS: usize = 13;

fn big_lens(rng: &mut Rng) -> Vec<usize> {
    vec![512, 1023, 1024, 1025, 2047, 2048, 4096 + rng.below(130)]
}

/// all 0, all 1, a single 0 in all-1 / a single 1 in all-0 in the prefix word, the first block, the middle,
/// the last block and the suffix word, random
fn big_content(rng: &mut Rng, kind: usize, n: usize) -> Vec<bool> {
    let pos = |j: usize| -> usize {
        match j {
            0 => rng_free_pos(0, n),
            1 => rng_free_pos(64 + 411, n),
            2 => n / 2,
            3 => n.saturating_sub(64 + 311),
            _ => n - 1,
        }
    };
    match kind {
        0 => vec![false; n],
        1 => vec![true; n],
        2..=6 => {
            let mut v = vec![true; n];
            v[pos(kind - 2)] = false;
            v
        }
        7..=11 => {
            let mut v = vec![false; n];
            v[pos(kind - 7)] = true;
            v
        }
        _ => (0..n).map(|_| rng.chance(50)).collect(),
    }
}

fn rng_free_pos(p: usize, n: usize) -> usize {
    p.min(n - 1)
}

/// lossless run-length encoding of a bit sequence: [[bit, length], ...]
fn rle(bits: &[u8]) -> Vec<Vec<usize>> {
    let mut out: Vec<Vec<usize>> = vec![];
    for b in bits {
        match out.last_mut() {
            Some(r) if r[0] == *b as usize => r[1] += 1,
            _ => out.push(vec![*b as usize, 1]),
        }
    }
    out
}

/// lossless grouping of an index sequence into maximal stretches of consecutive indices [[start, end), ...]
fn stretches(idx: impl Iterator<Item = usize>) -> Vec<Vec<usize>> {
    let mut out: Vec<Vec<usize>> = vec![];
    for i in idx {
        match out.last_mut() {
            Some(r) if r[1] == i => r[1] += 1,
            _ => out.push(vec![i, i + 1]),
        }
    }
    out
}

fn bigs_case(c: &mut Ctx, off: usize, n: usize, kind: usize) {
    let a = big_content(&mut c.rng, kind, n);
    let sur = surround(&mut c.rng);
    let extra = [0usize, 1, 9][c.rng.below(3)];
    let ones = a.iter().filter(|x| **x).count();
    let fq: Vec<(usize, usize)> = vec![
        (0, 1),
        (0, ones),
        (0, ones + 1),
        (c.rng.below(n + 1), c.rng.below(ones + 2)),
        (c.rng.below(n + 1), 1 + c.rng.below(3)),
    ];
    let fi = match kind {
        2..=11 => a.iter().position(|x| *x == (kind >= 7)).unwrap(), // flip the single odd bit away
        _ => c.rng.below(n),
    };
    let oo = BIG_OFFS[c.rng.below(7)];
    let sh2 = 1 + c.rng.below(7);
    for run in 1..=2usize {
        let sh = if run == 1 { 0 } else { sh2 };
        let (a, sur, fq) = (a.clone(), sur.clone(), fq.clone());
        c.record("bigs", json!({"off": off, "n": n, "kind": kind, "run": run}), move || {
            let p = place(&a, off, extra, sh, &sur, run == 2);
            let bb = p.bb();
            let other = place(&a, oo, 0, (sh + 3) % 8, &sur, run == 1).bb();
            let mut x = a.clone();
            x[fi] = !x[fi];
            let differing = place(&x, oo, 1, 0, &sur, false).bb();
            let (na, no, nd) = (NullBuffer::new(bb.clone()), NullBuffer::new(other.clone()), NullBuffer::new(differing.clone()));
            json!({
                "op": "bigs", "run": run, "off": off, "n": n, "sh": sh, "kind": kind, "a": b01(&a),
                "count": bb.count_set_bits(), "cnt2": p.buf.count_set_bits_offset(off, n),
                "ucnt": UnalignedBitChunk::new(p.bytes(), off, n).count_ones(), "nulls": na.null_count(),
                "ht": bb.has_true(), "hf": bb.has_false(), "itmax": opt3(bb.iter().max()) as usize,
                "fq": fq.iter().map(|(s, k)| vec![*s, *k, bb.find_nth_set_bit_position(*s, *k)]).collect::<Vec<_>>(),
                "eq1": bb == other, "fi": fi, "eq2": bb == differing,
                "cont1": na.contains(&no), "cont2": na.contains(&nd),
            })
        });
    }
    c.cases += 1;
    c.ops.next_episode();
}

fn bigv_case(c: &mut Ctx, off: usize, n: usize, kind: usize) {
    let a = big_content(&mut c.rng, kind, n);
    let kb = [12usize, 1, 0, 4, 9][c.rng.below(5)];
    let b = big_content(&mut c.rng, kb, n);
    let k = c.next();
    let f1: [u8; 2] = table(k % 4);
    let f2: [u8; 4] = table(k % 16);
    let ro = BIG_OFFS[c.rng.below(7)];
    let (sur, sur2, dsur) = (surround(&mut c.rng), surround(&mut c.rng), surround(&mut c.rng));
    let extra = [0usize, 1, 9][c.rng.below(3)];
    let shs = [1 + c.rng.below(7), c.rng.below(8)];
    for run in 1..=2usize {
        let (sh, shr) = if run == 1 { (0, 0) } else { (shs[0], shs[1]) };
        let (a, b, sur, sur2, dsur) = (a.clone(), b.clone(), sur.clone(), sur2.clone(), dsur.clone());
        c.record("bigv", json!({"off": off, "ro": ro, "n": n, "kind": kind, "run": run}), move || {
            let p = place(&a, off, extra, sh, &sur, run == 2);
            let r = place(&b, ro, 1, shr, &sur2, run == 2);
            let (bb, br) = (p.bb(), r.bb());
            let bytes = p.bytes();
            let bc = bb.bit_chunks();
            let u = UnalignedBitChunk::new(bytes, off, n);
            let pk = |buf: &Buffer| rle(&first_bits(buf.as_slice(), n));
            // in-place forms on copies of the (byte-shifted) destination
            let mut mv = MutView::of(bytes, sh);
            let d0 = mv.bits();
            apply_bitwise_unary_op(mv.view(), off, n, w1(f1));
            let ud1 = mv.bits();
            let mut mv2 = MutView::of(bytes, sh);
            apply_bitwise_binary_op(mv2.view(), off, r.bytes(), ro, n, w2(f2));
            let bd1 = mv2.bits();
            // set_bits into a zeroed range with random surroundings (same destination in both runs)
            let z = place(&vec![false; n], off, extra, 0, &dsur, false);
            let mut mv3 = MutView::of(z.bytes(), sh);
            let sd0 = mv3.bits();
            let sret = set_bits(mv3.view(), r.bytes(), off, ro, n);
            let sd1 = mv3.bits();
            let (na, nb) = (NullBuffer::new(bb.clone()), NullBuffer::new(br.clone()));
            let un = NullBuffer::union(Some(&na), Some(&nb));
            json!({
                "op": "bigv", "run": run, "off": off, "ro": ro, "n": n, "sh": sh, "kind": kind,
                "a": b01(&a), "b": b01(&b), "f1": f1.to_vec(), "f2": f2.to_vec(),
                "idx": stretches(bb.set_indices()), "idx32": stretches(bb.set_indices_u32().map(|i| i as usize)),
                "runs": bb.set_slices().map(|(s, e)| vec![s, e]).collect::<Vec<Vec<usize>>>(),
                "cl": bc.chunk_len(), "rl": bc.remainder_len(), "chunks_r": rle(&words_bits(bc.iter())),
                "rem": words_bits(std::iter::once(bc.remainder_bits())),
                "ulead": u.lead_padding(), "utrail": u.trailing_padding(), "uw_r": rle(&words_bits(u.iter())),
                "iter_r": rle(&BitIterator::new(bytes, off, n).map(|x| x as u8).collect::<Vec<u8>>()),
                "not_r": rle(&logical(&!&bb)), "bnot_r": pk(&buffer_unary_not(&p.buf, off, n)), "hnot_r": pk(&bitwise_unary_op_helper(&p.buf, off, n, |x| !x)),
                "un_r": rle(&logical(&BooleanBuffer::from_bitwise_unary_op(bytes, off, n, w1(f1)))),
                "hun_r": pk(&bitwise_unary_op_helper(&p.buf, off, n, w1(f1))),
                "sliced_r": pk(&bb.sliced()), "bsl_r": pk(&p.buf.bit_slice(off, n)),
                "and_r": rle(&logical(&(&bb & &br))), "or_r": rle(&logical(&(&bb | &br))), "xor_r": rle(&logical(&(&bb ^ &br))),
                "tt_r": rle(&logical(&BooleanBuffer::from_bitwise_binary_op(bytes, off, r.bytes(), ro, n, w2(f2)))),
                "htt_r": pk(&bitwise_bin_op_helper(&p.buf, off, &r.buf, ro, n, w2(f2))),
                "d0": d0, "ud1_r": rle(&ud1), "bd1_r": rle(&bd1),
                "sd0": sd0, "sd1_r": rle(&sd1), "sret": sret,
                "u_p": un.is_some(), "u_r": un.as_ref().map(|x| rle(&logical(x.inner()))).unwrap_or_default(),
                "ex_r": rle(&logical(na.expand(2).inner())),
            })
        });
    }
    c.cases += 1;
    c.ops.next_episode();
}

// ---------------------------------------------------------------------- main

/// minimal reproductions of the two known findings (`c19 repro`)
fn repro() {
    // (fixed finding C19-buffer-unary-not-offset) NOT of bits 1..5 of 0b0000_1111 is 0,0,0,1
    let b = Buffer::from(vec![0b0000_1111u8]);
    let r = buffer_unary_not(&b, 1, 4);
    println!("buffer_unary_not(&[0b00001111], 1, 4) first 4 bits = {:?} (expected [0, 0, 0, 1])", first_bits(r.as_slice(), 4));
    // set_bits ORs into a destination range that is not zero
    let mut dst = [0b1111_1111u8];
    let zeros = set_bits(&mut dst, &[0u8], 2, 0, 3);
    println!("set_bits(dst = [0b11111111], data = [0], offset_write 2, offset_read 0, len 3) -> dst = {:#010b}, returned {zeros} (documented: bits 2..5 become 0)", dst[0]);
}

fn main() {
    let args = Args::parse();
    if args.driver == "repro" {
        return repro();
    }
    vcore::quiet_panics();
    let thorough = args.thorough();
    let dir = args.out.clone();
    let mut c = Ctx {
        ops: Shards::create(&dir, "ops", if thorough { 70 } else { 14 }),
        kf: Shards::create(&dir, "kf", if thorough { 14 } else { 2 }),
        bld: Shards::create(&dir, "builder", if thorough { 14 } else { 6 }),
        rng: Rng::new(args.seed ^ 0xC19),
        cases: 0,
        panics: 0,
        counter: args.seed as usize,
    };
    let offs: Vec<usize> = if thorough { (0..=130).collect() } else { LATTICE.to_vec() };
    let lens: Vec<usize> = if thorough { (0..=200).collect() } else { LENS.to_vec() };

    // un: every (offset, length) of the tier's grid x every content pattern
    for &off in &offs {
        for &n in &lens {
            for pat in patterns_for(n) {
                un_case(&mut c, off, n, pat);
            }
        }
    }
    // bin / set: every (left offset, length) of the grid with a right offset of equal and of different
    // sub-word alignment; plus the whole boundary cube offsets x offsets x lengths
    let mut k = 0usize;
    for &lo in &offs {
        for &n in &lens {
            let same = [lo, (lo + 64) % 128, lo % 64][c.rng.below(3)];
            let mut diff = c.rng.below(131);
            if diff % 64 == lo % 64 {
                diff = (diff + 1 + c.rng.below(62)) % 131;
            }
            for ro in [same, diff] {
                k += 1;
                if thorough || k % 3 == (args.seed as usize) % 3 {
                    bin_case(&mut c, lo, ro, n, k % NPAT, (k / NPAT) % NPAT);
                    set_case(&mut c, lo, ro, n, (k / 2) % NPAT, k % 8 != 0);
                }
            }
        }
    }
    if thorough {
        for &lo in &LATTICE {
            for &ro in &LATTICE {
                for &n in &LENS {
                    k += 1;
                    bin_case(&mut c, lo, ro, n, 5, k % NPAT);
                    set_case(&mut c, lo, ro, n, k % NPAT, k % 8 != 0);
                }
            }
        }
    } else {
        // a seeded twelfth of the boundary cube
        for &lo in &LATTICE {
            for &ro in &LATTICE {
                for &n in &LENS {
                    k += 1;
                    if k % 12 == (args.seed as usize) % 12 {
                        bin_case(&mut c, lo, ro, n, 5, k % NPAT);
                    }
                    if k % 12 == (args.seed as usize + 5) % 12 {
                        set_case(&mut c, lo, ro, n, k % NPAT, k % 8 != 0);
                    }
                }
            }
        }
    }
    // null / quat / ctor
    let nn = args.scale(150, 3000);
    for i in 0..nn {
        let oa = if i % 2 == 0 { LATTICE[c.rng.below(12)] } else { c.rng.below(131) };
        let ob = if i % 3 == 0 { oa } else { c.rng.below(131) };
        let n = if i % 2 == 0 { LENS[c.rng.below(13)] } else { c.rng.below(201) };
        null_case(&mut c, oa, ob, n);
    }
    for i in 0..args.scale(80, 1500) {
        let n = if i % 2 == 0 { LENS[c.rng.below(13)] } else { c.rng.below(201) };
        quat_case(&mut c, n);
    }
    for &n in &lens {
        for pat in patterns_for(n) {
            ctor_case(&mut c, n, pat);
        }
    }
    // larger sizes, sampled
    for _ in 0..args.scale(6, 120) {
        let n = 201 + c.rng.below(1400);
        let off = c.rng.below(131);
        let ro = c.rng.below(131);
        un_case(&mut c, off, n, 5);
        bin_case(&mut c, off, ro, n, 5, 2);
        set_case(&mut c, off, ro, n, 5, true);
        ctor_case(&mut c, n, 5);
    }
    // large-size stage: lengths around and beyond the 64-bit word and 16-word block fast paths.  The scalar
    // primitives walk the whole lengths x offsets x contents product in both tiers; the primitives with long
    // results walk all of it in the thorough tier and a seeded eighth in the quick tier.
    let mut kk = 0usize;
    for n in big_lens(&mut c.rng) {
        for &off in &BIG_OFFS {
            for kind in 0..BIG_CONTENTS {
                bigs_case(&mut c, off, n, kind);
                kk += 1;
                if thorough || kk % 8 == (args.seed as usize) % 8 {
                    bigv_case(&mut c, off, n, kind);
                }
            }
        }
    }
    // builders: packed-range copies over (destination offset = builder length, source offset, length)
    let mut j = 0usize;
    if thorough {
        for &dst in &offs {
            for &n in &lens {
                j += 1;
                let so = if j % 2 == 0 { LATTICE[c.rng.below(12)] } else { c.rng.below(131) };
                builder_episode(&mut c, j % 4 != 0, Some((dst, so, n)), 2);
            }
        }
    }
    for &dst in &LATTICE {
        for &so in &LATTICE {
            for &n in &LENS {
                j += 1;
                if thorough || j % 16 == (args.seed as usize) % 16 {
                    builder_episode(&mut c, j % 4 != 0, Some((dst, so, n)), 3);
                }
            }
        }
    }
    for i in 0..args.scale(30, 1500) {
        builder_episode(&mut c, i % 2 == 0, None, 12);
    }

    let cases = c.cases;
    let panics = c.panics;
    let ev_ops = c.ops.finish() + c.kf.finish();
    let ev_bld = c.bld.finish();
    println!("DRIVER c19 cases={cases} events={} ops_events={ev_ops} builder_events={ev_bld} panics={panics}", ev_ops + ev_bld);
}
