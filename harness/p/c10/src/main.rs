//! C10 driver: records calls of the order kernels of arrow-ord (make_comparator,
//! sort_to_indices / sort / sort_limit, lexsort_to_indices / lexsort,
//! LexicographicalComparator, rank, partition, cmp::*).  No order is computed
//! here: every value is logged as an order key (vcore::key) and Trace_Order.tla
//! decides with the operators of Order.tla.
use arrow_array::*;
use arrow_ord::cmp;
use arrow_ord::ord::make_comparator;
use arrow_ord::partition::partition;
use arrow_ord::rank::rank;
use arrow_ord::sort::{
    lexsort, lexsort_to_indices, sort, sort_limit, sort_to_indices, LexicographicalComparator, SortColumn, SortOptions,
};
use arrow_schema::{ArrowError, DataType, Field};
use std::sync::Arc;
use vcore::key::{self, Unions};
use vcore::mk::{self, Cfg};
use vcore::trace::Shards;
use vcore::{guarded, json, mutate, tok, Args, Rng, Value};

enum Out<T> {
    Ok(T),
    Err(String),
    Unsupported,
}

fn unsupported(msg: &str) -> bool {
    let m = msg.to_ascii_lowercase();
    m.contains("not supported")
        || m.contains("not yet implemented")
        || m.contains("not implemented")
        || m.contains("unsupported")
        || m.contains("notyetimplemented")
        || m.contains("no natural order")
        || m.contains("nested comparison")
}

fn call<T>(f: impl FnOnce() -> Result<T, ArrowError>) -> Out<T> {
    match guarded(f) {
        Ok(Ok(v)) => Out::Ok(v),
        Ok(Err(e)) => {
            let s = e.to_string();
            if unsupported(&s) { Out::Unsupported } else { Out::Err(s) }
        }
        Err(p) => {
            if unsupported(&p) { Out::Unsupported } else { Out::Err(format!("panic: {p}")) }
        }
    }
}

/// types whose values occupy no bytes (the length of such an array is not recoverable from its buffers)
fn zero_width(t: &DataType) -> bool {
    matches!(t, DataType::FixedSizeBinary(0) | DataType::FixedSizeList(_, 0))
}

fn null_through_encoding(t: &DataType) -> bool {
    use DataType::*;
    match t {
        Union(_, _) | RunEndEncoded(_, _) | Dictionary(_, _) => true,
        List(f) | LargeList(f) | ListView(f) | LargeListView(f) | FixedSizeList(f, _) | Map(f, _) => null_through_encoding(f.data_type()),
        Struct(fs) => fs.iter().any(|f| null_through_encoding(f.data_type())),
        _ => false,
    }
}

const ALL_OPTS: [SortOptions; 4] = [
    SortOptions { descending: false, nulls_first: true },
    SortOptions { descending: false, nulls_first: false },
    SortOptions { descending: true, nulls_first: true },
    SortOptions { descending: true, nulls_first: false },
];

struct Stats {
    events: usize,
    episodes: usize,
    skipped: usize,
    errs: usize,
}

/// an episode: a `new` event with the columns, then calls naming columns by position
struct Ep<'a> {
    t: &'a mut Shards,
    st: &'a mut Stats,
    cols: Vec<ArrayRef>,
    ty: String,
    /// operand form of every column (encoding and slicing), when the episode is about forms
    labels: Vec<String>,
}

impl<'a> Ep<'a> {
    fn begin(t: &'a mut Shards, st: &'a mut Stats, cols: Vec<ArrayRef>, note: &str) -> Ep<'a> {
        t.next_episode();
        let ty = tok::type_str(cols[0].data_type());
        let ty = if ty.len() > 60 { format!("{}..", &ty[..60]) } else { ty };
        // an input array that cannot even be read (a panic of an accessor) leaves an empty column: the calls
        // on it are then rejected by TLC instead of crashing the driver
        let keys: Vec<Value> = cols.iter().map(|c| guarded(|| key::column(c.as_ref(), Unions::Lift)).unwrap_or_else(|_| json!([]))).collect();
        t.emit(json!({"op": "new", "ty": ty, "note": note, "cols": keys}));
        st.events += 1;
        st.episodes += 1;
        Ep { t, st, cols, ty, labels: vec![] }
    }

    /// add the outcome to the event and write it (unsupported calls are not judged)
    fn finish<T>(&mut self, mut ev: Value, o: Out<T>, put: impl FnOnce(&mut serde_json::Map<String, Value>, T)) {
        let m = ev.as_object_mut().unwrap();
        m.insert("ty".into(), json!(self.ty));
        match o {
            Out::Unsupported => {
                self.st.skipped += 1;
                return;
            }
            Out::Ok(v) => {
                m.insert("err".into(), json!(false));
                put(m, v);
            }
            Out::Err(e) => {
                self.st.errs += 1;
                m.insert("err".into(), json!(true));
                m.insert("msg".into(), json!(e.chars().take(200).collect::<String>()));
            }
        }
        self.t.emit(ev);
        self.st.events += 1;
    }

    fn cmp(&mut self, a: usize, b: usize, o: SortOptions, pairs: &[(usize, usize)]) {
        let (l, r) = (self.cols[a].clone(), self.cols[b].clone());
        let res = call(|| {
            let c = make_comparator(l.as_ref(), r.as_ref(), o)?;
            Ok(pairs.iter().map(|(i, j)| c(*i, *j) as i32).collect::<Vec<i32>>())
        });
        let ev = json!({"op": "cmp", "a": a, "b": b, "desc": o.descending, "nf": o.nulls_first,
                        "pairs": pairs.iter().map(|(i, j)| json!([i, j])).collect::<Vec<_>>()});
        self.finish(ev, res, |m, v| {
            m.insert("out".into(), json!(v));
        });
    }

    /// array equality of one-row slices (`PartialEq for dyn Array`) must agree with the comparator saying Equal
    fn arreq(&mut self, a: usize, b: usize, pairs: &[(usize, usize)]) {
        let (l, r) = (self.cols[a].clone(), self.cols[b].clone());
        if null_through_encoding(l.data_type()) {
            return; // a null can be denoted in two ways there (null key vs key of a null value, ...) and array
                    // equality tells them apart: that is property C02's subject, not the order's
        }
        let res = call(|| Ok(pairs.iter().map(|(i, j)| l.slice(*i, 1).as_ref() == r.slice(*j, 1).as_ref()).collect::<Vec<bool>>()));
        let ev = json!({"op": "arreq", "a": a, "b": b, "fam": tok::family(l.data_type()), "pairs": pairs.iter().map(|(i, j)| json!([i, j])).collect::<Vec<_>>()});
        self.finish(ev, res, |m, v| {
            m.insert("out".into(), json!(v));
        });
    }

    fn sort_idx(&mut self, c: usize, o: Option<SortOptions>, lim: Option<usize>) {
        let a = self.cols[c].clone();
        let res = call(|| sort_to_indices(a.as_ref(), o, lim));
        let oo = o.unwrap_or_default();
        let ev = json!({"op": "sort", "c": c, "desc": oo.descending, "nf": oo.nulls_first, "lim": lim.map(|x| x as i64).unwrap_or(-1),
                        "defopt": o.is_none()});
        self.finish(ev, res, |m, v| {
            m.insert("out".into(), json!(v.values().iter().map(|x| *x as i64).collect::<Vec<_>>()));
            m.insert("outnulls".into(), json!(v.null_count()));
        });
    }

    fn sort_vals(&mut self, c: usize, o: Option<SortOptions>, lim: Option<usize>, use_limit_fn: bool) {
        let a = self.cols[c].clone();
        let res = call(|| if use_limit_fn { sort_limit(a.as_ref(), o, lim) } else { sort(a.as_ref(), o) });
        let res = match res {
            Out::Ok(arr) => match guarded(|| key::column(arr.as_ref(), Unions::Lift)) {
                Ok(k) => Out::Ok(k),
                Err(p) => Out::Err(format!("panic reading result: {p}")),
            },
            Out::Err(e) => Out::Err(e),
            Out::Unsupported => Out::Unsupported,
        };
        let oo = o.unwrap_or_default();
        let lim = if use_limit_fn { lim.map(|x| x as i64).unwrap_or(-1) } else { -1 };
        let ev = json!({"op": "sortv", "c": c, "desc": oo.descending, "nf": oo.nulls_first, "lim": lim, "fn": if use_limit_fn { "sort_limit" } else { "sort" },
                        "zw": zero_width(a.data_type())});
        self.finish(ev, res, |m, v| {
            m.insert("outk".into(), v);
        });
    }

    fn sort_columns(&self, cs: &[usize], opts: &[SortOptions]) -> Vec<SortColumn> {
        cs.iter().zip(opts).map(|(c, o)| SortColumn { values: self.cols[*c].clone(), options: Some(*o) }).collect()
    }

    fn lexsort_idx(&mut self, cs: &[usize], opts: &[SortOptions], lim: Option<usize>) {
        let sc = self.sort_columns(cs, opts);
        let res = call(|| lexsort_to_indices(&sc, lim));
        let ev = json!({"op": "lexsort", "cs": cs, "opts": opts.iter().map(|o| json!([o.descending, o.nulls_first])).collect::<Vec<_>>(),
                        "lim": lim.map(|x| x as i64).unwrap_or(-1)});
        self.finish(ev, res, |m, v| {
            m.insert("out".into(), json!(v.values().iter().map(|x| *x as i64).collect::<Vec<_>>()));
        });
    }

    fn lexsort_vals(&mut self, cs: &[usize], opts: &[SortOptions], lim: Option<usize>) {
        let sc = self.sort_columns(cs, opts);
        let res = call(|| lexsort(&sc, lim));
        let res = match res {
            Out::Ok(arrs) => match guarded(|| arrs.iter().map(|a| key::column(a.as_ref(), Unions::Lift)).collect::<Vec<_>>()) {
                Ok(k) => Out::Ok(k),
                Err(p) => Out::Err(format!("panic reading result: {p}")),
            },
            Out::Err(e) => Out::Err(e),
            Out::Unsupported => Out::Unsupported,
        };
        let ev = json!({"op": "lexsortv", "cs": cs, "opts": opts.iter().map(|o| json!([o.descending, o.nulls_first])).collect::<Vec<_>>(),
                        "lim": lim.map(|x| x as i64).unwrap_or(-1), "zw": cs.iter().any(|c| zero_width(self.cols[*c].data_type()))});
        self.finish(ev, res, |m, v| {
            m.insert("outs".into(), json!(v));
        });
    }

    fn lexcmp(&mut self, cs: &[usize], opts: &[SortOptions], pairs: &[(usize, usize)]) {
        let sc = self.sort_columns(cs, opts);
        let res = call(|| {
            let c = LexicographicalComparator::try_new(&sc)?;
            Ok(pairs.iter().map(|(i, j)| c.compare(*i, *j) as i32).collect::<Vec<i32>>())
        });
        let ev = json!({"op": "lexcmp", "cs": cs, "opts": opts.iter().map(|o| json!([o.descending, o.nulls_first])).collect::<Vec<_>>(),
                        "pairs": pairs.iter().map(|(i, j)| json!([i, j])).collect::<Vec<_>>()});
        self.finish(ev, res, |m, v| {
            m.insert("out".into(), json!(v));
        });
    }

    fn rank(&mut self, c: usize, o: Option<SortOptions>) {
        let a = self.cols[c].clone();
        let res = call(|| rank(a.as_ref(), o));
        let oo = o.unwrap_or_default();
        let ev = json!({"op": "rank", "c": c, "desc": oo.descending, "nf": oo.nulls_first});
        self.finish(ev, res, |m, v| {
            m.insert("out".into(), json!(v.iter().map(|x| *x as i64).collect::<Vec<_>>()));
        });
    }

    fn partition(&mut self, cs: &[usize]) {
        let cols: Vec<ArrayRef> = cs.iter().map(|c| self.cols[*c].clone()).collect();
        let res = call(|| partition(&cols).map(|p| p.ranges()));
        let ev = json!({"op": "partition", "cs": cs});
        self.finish(ev, res, |m, v| {
            m.insert("out".into(), json!(v.iter().map(|r| json!([r.start, r.end])).collect::<Vec<_>>()));
        });
    }

    fn kern(&mut self, f: &str, a: usize, a_scalar: bool, b: usize, b_scalar: bool) {
        let (l, r) = (self.cols[a].clone(), self.cols[b].clone());
        let fun = match f {
            "eq" => cmp::eq,
            "neq" => cmp::neq,
            "lt" => cmp::lt,
            "lt_eq" => cmp::lt_eq,
            "gt" => cmp::gt,
            "gt_eq" => cmp::gt_eq,
            "distinct" => cmp::distinct,
            _ => cmp::not_distinct,
        };
        let res = call(|| match (a_scalar, b_scalar) {
            (false, false) => fun(&l, &r),
            (true, false) => fun(&Scalar::new(l.clone()), &r),
            (false, true) => fun(&l, &Scalar::new(r.clone())),
            (true, true) => fun(&Scalar::new(l.clone()), &Scalar::new(r.clone())),
        });
        let mut ev = json!({"op": "kern", "f": f, "a": a, "as": a_scalar, "b": b, "bs": b_scalar,
                        "lt": tok::family(l.data_type()), "rt": tok::family(r.data_type())});
        if !self.labels.is_empty() {
            let m = ev.as_object_mut().unwrap();
            m.insert("lf".into(), json!(self.labels[a]));
            m.insert("rf".into(), json!(self.labels[b]));
        }
        self.finish(ev, res, |m, v| {
            let rows: Vec<i64> = (0..v.len()).map(|i| if v.is_null(i) { 2 } else { v.value(i) as i64 }).collect();
            m.insert("out".into(), json!(rows));
        });
    }
}

// ------------------------------------------------------------------ inputs

/// few distinct values, many duplicates: rows taken from a 1-4 row base array
fn low_card(rng: &mut Rng, dt: &DataType, n: usize, null_pct: usize) -> ArrayRef {
    let m = 1 + rng.below(4);
    let base = mk::array(rng, dt, m, Cfg::wild(null_pct));
    let idx = UInt32Array::from((0..n).map(|_| rng.below(m) as u32).collect::<Vec<_>>());
    match guarded(|| arrow_select::take::take(base.as_ref(), &idx, None)) {
        Ok(Ok(a)) if a.len() == n => a,
        _ => mk::array(rng, dt, n, Cfg::wild(null_pct)),
    }
}

fn rand_array(rng: &mut Rng, dt: &DataType, n: usize) -> ArrayRef {
    let null_pct = *rng.pick(&[0usize, 0, 15, 40, 90]);
    if rng.chance(45) { low_card(rng, dt, n, null_pct) } else { mk::array(rng, dt, n, Cfg::wild(null_pct)) }
}

/// a column of the length of `a` whose rows are rows of `a` or of another random array
fn mixture(rng: &mut Rng, a: &ArrayRef) -> ArrayRef {
    let n = a.len();
    let r = rand_array(rng, a.data_type(), n);
    if n == 0 {
        return r;
    }
    let style = rng.below(4);
    let idx: Vec<(usize, usize)> = (0..n)
        .map(|i| match style {
            0 => (0, i),                                      // equal to a
            1 => (if rng.chance(50) { 0 } else { 1 }, i),     // row-wise a or r
            2 => (rng.below(2), rng.below(n)),                // shuffled
            _ => (1, i),
        })
        .collect();
    match guarded(|| arrow_select::interleave::interleave(&[a.as_ref(), r.as_ref()], &idx)) {
        Ok(Ok(m)) if m.len() == n && m.data_type() == a.data_type() => m,
        _ => r,
    }
}

fn len_choice(rng: &mut Rng, a: &Args) -> usize {
    if a.thorough() {
        *rng.pick(&[0usize, 1, 2, 3, 4, 5, 7, 8, 9, 13, 17, 20, 31, 33, 40, 64, 65, 100, 130])
    } else {
        *rng.pick(&[0usize, 1, 2, 3, 4, 5, 7, 8, 9, 13, 20, 33, 40])
    }
}

fn limits(rng: &mut Rng, n: usize, k: usize) -> Vec<Option<usize>> {
    if n <= 5 {
        let mut v: Vec<Option<usize>> = (0..=n + 1).map(Some).collect();
        v.push(None);
        v
    } else {
        let cands = [0, 1, 2, 3, n / 10, n / 3, n / 2, n - 1, n, n + 1];
        let mut v: Vec<Option<usize>> = vec![None];
        for _ in 0..k {
            v.push(Some(*rng.pick(&cands)));
        }
        v
    }
}

fn pairs(rng: &mut Rng, na: usize, nb: usize, max: usize) -> Vec<(usize, usize)> {
    if na == 0 || nb == 0 {
        return vec![];
    }
    if na * nb <= max {
        (0..na).flat_map(|i| (0..nb).map(move |j| (i, j))).collect()
    } else {
        (0..max).map(|_| (rng.below(na), rng.below(nb))).collect()
    }
}

fn rand_opts(rng: &mut Rng) -> SortOptions {
    ALL_OPTS[rng.below(4)]
}

// ---------------------------------------------------------------- episodes

/// one column: comparator, sorts with limits, rank, partition
fn single_column(rng: &mut Rng, args: &Args, t: &mut Shards, st: &mut Stats, a: ArrayRef, note: &str) {
    let n = a.len();
    let nb = len_choice(rng, args).min(12);
    let b = rand_array(rng, a.data_type(), nb);
    let mut ep = Ep::begin(t, st, vec![a.clone(), b], note);
    // comparator on the array itself (all pairs when small) and across arrays
    let self_pairs = pairs(rng, n, n, 49);
    let cross = pairs(rng, n, nb, 24);
    for o in ALL_OPTS {
        ep.cmp(0, 0, o, &self_pairs);
    }
    let o = rand_opts(rng);
    ep.cmp(0, 1, o, &cross);
    ep.arreq(0, 1, &cross);
    ep.arreq(0, 0, &self_pairs);
    let o = rand_opts(rng);
    ep.cmp(1, 0, o, &cross.iter().map(|(i, j)| (*j, *i)).collect::<Vec<_>>());
    // sort_to_indices: every option combination without limit, limits with random options
    for o in ALL_OPTS {
        ep.sort_idx(0, Some(o), None);
    }
    ep.sort_idx(0, None, None);
    for lim in limits(rng, n, 4) {
        if lim.is_some() {
            let o = rand_opts(rng);
            ep.sort_idx(0, Some(o), lim);
        }
    }
    if n <= 5 {
        // small inputs: every limit under every option combination
        for o in ALL_OPTS {
            for lim in 0..=n + 1 {
                ep.sort_idx(0, Some(o), Some(lim));
            }
        }
    }
    // sort / sort_limit (values)
    for o in ALL_OPTS {
        ep.sort_vals(0, Some(o), None, false);
    }
    for lim in limits(rng, n, 2) {
        let o = rand_opts(rng);
        ep.sort_vals(0, Some(o), lim, true);
    }
    // rank
    for o in ALL_OPTS {
        ep.rank(0, Some(o));
    }
    ep.rank(0, None);
    // single-column lexsort (falls back to sort_to_indices or to the comparator)
    let o = rand_opts(rng);
    for lim in limits(rng, n, 1) {
        ep.lexsort_idx(&[0], &[o], lim);
    }
    ep.lexsort_vals(&[0], &[o], None);
    // partition of the column as it is
    ep.partition(&[0]);
    drop(ep);
    // ... and of a sorted version (long runs)
    if let Ok(Ok(idx)) = guarded(|| sort_to_indices(a.as_ref(), Some(rand_opts(rng)), None)) {
        if let Ok(Ok(s)) = guarded(|| arrow_select::take::take(a.as_ref(), &idx, None)) {
            if s.len() == n && n > 1 {
                let mut ep = Ep::begin(t, st, vec![s], "sorted");
                ep.partition(&[0]);
            }
        }
    }
}

fn encodings(a: &ArrayRef) -> Vec<ArrayRef> {
    let mut v = vec![];
    let t = a.data_type().clone();
    if matches!(t, DataType::Dictionary(_, _) | DataType::RunEndEncoded(_, _)) || t.is_nested() {
        return v;
    }
    let targets = [
        DataType::Dictionary(Box::new(DataType::Int8), Box::new(t.clone())),
        DataType::Dictionary(Box::new(DataType::UInt32), Box::new(t.clone())),
        DataType::RunEndEncoded(Arc::new(Field::new("run_ends", DataType::Int32, false)), Arc::new(Field::new("values", t.clone(), true))),
    ];
    for tt in targets {
        if let Ok(Ok(x)) = guarded(|| arrow_cast::cast(a.as_ref(), &tt)) {
            if x.len() == a.len() {
                v.push(x);
            }
        }
    }
    v
}

/// comparison kernels: array/array, array/scalar, scalar/array, with dictionary / run-end operands
fn kernels(rng: &mut Rng, args: &Args, t: &mut Shards, st: &mut Stats, a: ArrayRef, note: &str) {
    let n = a.len();
    let m = mixture(rng, &a);
    let mut cols = vec![a.clone(), m.clone()];
    // scalars: a row of a, a row of m, (a null when there is one)
    let mut scalars = vec![];
    if n > 0 {
        scalars.push(a.slice(rng.below(n), 1));
        scalars.push(m.slice(rng.below(n), 1));
        if let Some(i) = (0..n).find(|i| a.logical_nulls().map(|x| x.is_null(*i)).unwrap_or(false)) {
            scalars.push(a.slice(i, 1));
        }
    } else {
        scalars.push(mk::array(rng, a.data_type(), 1, Cfg::wild(30)));
    }
    let s0 = cols.len();
    cols.extend(scalars.iter().cloned());
    let e0 = cols.len();
    let mut enc = encodings(&a);
    let ea = enc.len();
    enc.extend(encodings(&m));
    let mut enc_scalars = vec![];
    for e in &enc {
        if e.len() > 0 && rng.chance(50) {
            enc_scalars.push(e.slice(rng.below(e.len()), 1));
        }
    }
    cols.extend(enc.iter().cloned());
    let es0 = cols.len();
    cols.extend(enc_scalars.iter().cloned());
    let ncols = cols.len();
    let mut ep = Ep::begin(t, st, cols, note);
    let fs = ["eq", "neq", "lt", "lt_eq", "gt", "gt_eq", "distinct", "not_distinct"];
    for f in fs {
        ep.kern(f, 0, false, 1, false);
    }
    let nf = args.scale(3, 8);
    for _ in 0..nf {
        let f = *rng.pick(&fs);
        let s = s0 + rng.below(e0 - s0);
        ep.kern(f, 0, false, s, true);
        let f = *rng.pick(&fs);
        let s = s0 + rng.below(e0 - s0);
        ep.kern(f, s, true, 1, false);
    }
    let f = *rng.pick(&fs);
    ep.kern(f, s0, true, s0 + rng.below(e0 - s0), true);
    // dictionary / run-end operands against plain and against each other
    if !enc.is_empty() {
        for _ in 0..args.scale(4, 10) {
            let f = *rng.pick(&fs);
            let x = e0 + rng.below(es0 - e0);
            let (l, r) = match rng.below(4) {
                0 => (x, if x - e0 < ea { 1 } else { 0 }),       // encoded vs plain
                1 => (if x - e0 < ea { 1 } else { 0 }, x),       // plain vs encoded
                2 => (x, e0 + rng.below(es0 - e0)),              // encoded vs encoded
                _ => (x, s0 + rng.below(e0 - s0)),               // encoded vs plain scalar
            };
            let rs = r >= s0 && r < e0;
            ep.kern(f, l, false, r, rs);
        }
        if es0 < ncols {
            for _ in 0..args.scale(2, 5) {
                let f = *rng.pick(&fs);
                let s = es0 + rng.below(ncols - es0);
                if rng.chance(50) { ep.kern(f, 0, false, s, true) } else { ep.kern(f, s, true, 1, false) }
            }
        }
    }
    drop(ep);
    // different lengths must be an error
    if n > 1 {
        let f = *rng.pick(&fs);
        let short = a.slice(0, n - 1);
        let mut ep2 = Ep::begin(t, st, vec![a.clone(), short], "lengths");
        ep2.kern(f, 0, false, 1, false);
    }
}


// ------------------------------------------------- operand forms of the kernels

/// rows taken from a small base array in runs of 1-3 equal rows (so that run-end encodings have real runs)
fn runny(rng: &mut Rng, dt: &DataType, n: usize) -> ArrayRef {
    let m = 2 + rng.below(3);
    let base = mk::array(rng, dt, m, Cfg::wild(25));
    let mut idx: Vec<u32> = vec![];
    while idx.len() < n {
        let v = rng.below(m) as u32;
        for _ in 0..1 + rng.below(3) {
            if idx.len() < n {
                idx.push(v);
            }
        }
    }
    match guarded(|| arrow_select::take::take(base.as_ref(), &UInt32Array::from(idx), None)) {
        Ok(Ok(a)) if a.len() == n => a,
        _ => mk::array(rng, dt, n, Cfg::wild(25)),
    }
}

/// run-end encoding of `plain` with run ends of `width` bits; runs are the maximal runs of
/// logically equal rows (row tokens), some split further.  Returns the array and the run starts.
fn ree_encode(rng: &mut Rng, plain: &ArrayRef, width: u8, split_pct: usize) -> Option<(ArrayRef, Vec<usize>)> {
    use arrow_array::types::{Int16Type, Int32Type, Int64Type};
    let n = plain.len();
    if n == 0 {
        return None;
    }
    let toks = tok::rows(plain.as_ref());
    let mut starts = vec![0usize];
    for i in 1..n {
        if toks[i] != toks[i - 1] || rng.chance(split_pct) {
            starts.push(i);
        }
    }
    let values = guarded(|| arrow_select::take::take(plain.as_ref(), &UInt32Array::from(starts.iter().map(|x| *x as u32).collect::<Vec<_>>()), None)).ok()?.ok()?;
    let ends: Vec<usize> = starts.iter().skip(1).copied().chain(std::iter::once(n)).collect();
    let arr: ArrayRef = match width {
        16 => Arc::new(RunArray::<Int16Type>::try_new(&Int16Array::from(ends.iter().map(|x| *x as i16).collect::<Vec<_>>()), values.as_ref()).ok()?),
        32 => Arc::new(RunArray::<Int32Type>::try_new(&Int32Array::from(ends.iter().map(|x| *x as i32).collect::<Vec<_>>()), values.as_ref()).ok()?),
        _ => Arc::new(RunArray::<Int64Type>::try_new(&Int64Array::from(ends.iter().map(|x| *x as i64).collect::<Vec<_>>()), values.as_ref()).ok()?),
    };
    Some((arr, starts))
}

/// dictionary encoding of `plain`: the distinct values (by row token) in shuffled order, a null row
/// either a null key or the key of a null dictionary value
fn dict_encode(rng: &mut Rng, plain: &ArrayRef, key: &DataType) -> Option<ArrayRef> {
    use arrow_array::types::*;
    let toks = tok::rows(plain.as_ref());
    let null_as_value = rng.chance(50);
    let mut distinct: Vec<(String, usize)> = vec![];
    for (i, t) in toks.iter().enumerate() {
        if (t != tok::NULL || null_as_value) && !distinct.iter().any(|(d, _)| d == t) {
            distinct.push((t.clone(), i));
        }
    }
    for i in (1..distinct.len()).rev() {
        distinct.swap(i, rng.below(i + 1));
    }
    let values = guarded(|| arrow_select::take::take(plain.as_ref(), &UInt32Array::from(distinct.iter().map(|(_, i)| *i as u32).collect::<Vec<_>>()), None)).ok()?.ok()?;
    let keys: Vec<Option<usize>> = toks.iter().map(|t| distinct.iter().position(|(d, _)| d == t)).collect();
    macro_rules! mk {
        ($kt:ty, $n:ty) => {{
            let k = PrimitiveArray::<$kt>::from(keys.iter().map(|x| x.map(|v| v as $n)).collect::<Vec<Option<$n>>>());
            Arc::new(DictionaryArray::<$kt>::try_new(k, values).ok()?) as ArrayRef
        }};
    }
    let d: ArrayRef = match key {
        DataType::Int8 => mk!(Int8Type, i8),
        DataType::UInt16 => mk!(UInt16Type, u16),
        DataType::Int32 => mk!(Int32Type, i32),
        _ => mk!(UInt64Type, u64),
    };
    // now and then a permuted dictionary with duplicate / unused entries
    if rng.chance(50) {
        if let Some(x) = mutate::dict_shuffle(rng, &d) {
            return Some(x);
        }
    }
    Some(d)
}

/// `col` extended by a prefix (and a short suffix) so that the column is the slice `start..start+n`
/// of the result.  kind 1: the prefix repeats the first row (a run-end slice starts inside the first
/// run); kind 2: the prefix ends with a different value (the slice starts on a run boundary);
/// kind 3: other rows, then copies of the first row (the slice starts inside a later run).
fn extended(rng: &mut Rng, col: &ArrayRef, kind: usize) -> Option<(ArrayRef, usize)> {
    let n = col.len();
    if n == 0 {
        return None;
    }
    let g = mk::array(rng, col.data_type(), 4, Cfg::wild(20));
    let ct = tok::rows(col.as_ref());
    let gt = tok::rows(g.as_ref());
    // a row different from the first row of the column, and one different from both
    let all: Vec<((usize, usize), &String)> = (0..n).map(|i| ((0, i), &ct[i])).chain((0..4).map(|i| ((1, i), &gt[i]))).collect();
    let other = all.iter().find(|(_, t)| **t != ct[0]).map(|(p, t)| (*p, (*t).clone()));
    let third = other.as_ref().and_then(|(_, ot)| all.iter().find(|(_, t)| **t != ct[0] && *t != ot).map(|(p, _)| *p));
    let first = (0usize, 0usize);
    let mut idx: Vec<(usize, usize)> = match (kind, other) {
        (1, _) => vec![first; 1 + rng.below(3)],
        (2, Some((o, _))) => match third {
            Some(h) => vec![h, h, o],
            None => vec![o, o],
        },
        (3, Some((o, _))) => vec![o, o, first, first],
        _ => return None,
    };
    let start = idx.len();
    idx.extend((0..n).map(|i| (0, i)));
    for _ in 0..rng.below(3) {
        idx.push((1, rng.below(4)));
    }
    let e = guarded(|| arrow_select::interleave::interleave(&[col.as_ref(), g.as_ref()], &idx)).ok()?.ok()?;
    if e.data_type() != col.data_type() {
        return None;
    }
    Some((e, start))
}

/// every operand form of one logical column: (label, array)
fn forms(rng: &mut Rng, col: &ArrayRef) -> Vec<(String, ArrayRef)> {
    let n = col.len();
    let want = tok::rows(col.as_ref());
    let mut out: Vec<(String, ArrayRef)> = vec![("plain".into(), col.clone())];
    let push = |label: String, a: ArrayRef, out: &mut Vec<(String, ArrayRef)>| {
        // a form must denote the column (otherwise the encoder above is at fault: drop it)
        if a.len() == n && guarded(|| tok::rows(a.as_ref())).map(|r| r == want).unwrap_or(false) {
            out.push((label, a));
        }
    };
    let dict_keys = [("dict8", DataType::Int8), ("dictu16", DataType::UInt16), ("dict32", DataType::Int32)];
    for (name, k) in &dict_keys {
        if let Some(d) = dict_encode(rng, col, k) {
            push(name.to_string(), d, &mut out);
        }
    }
    for w in [16u8, 32, 64] {
        if let Some((r, _)) = ree_encode(rng, col, w, 15) {
            push(format!("ree{w}"), r, &mut out);
        }
    }
    if let Some(d) = dict_encode(rng, col, &DataType::Int32) {
        if let Some((r, _)) = ree_encode(rng, &d, 32, 15) {
            push("ree32(dict)".into(), r, &mut out);
        }
    }
    // sliced forms
    for kind in 1..=3usize {
        let Some((e, start)) = extended(rng, col, kind) else { continue };
        if kind == 2 {
            push("plain/s".into(), e.slice(start, n), &mut out);
            for (name, k) in &dict_keys {
                if let Some(d) = dict_encode(rng, &e, k) {
                    push(format!("{name}/s"), d.slice(start, n), &mut out);
                }
            }
        }
        for w in [16u8, 32, 64] {
            if let Some((r, starts)) = ree_encode(rng, &e, w, if kind == 1 { 0 } else { 10 }) {
                // where the slice really starts: inside the first run, on a run boundary, inside a later run
                let p = starts.iter().rposition(|s| *s <= start).unwrap();
                let place = if p == 0 { "first" } else if starts[p] == start { "boundary" } else { "later" };
                push(format!("ree{w}/{place}"), r.slice(start, n), &mut out);
            }
        }
        if kind == 3 {
            if let Some(d) = dict_encode(rng, &e, &DataType::UInt64) {
                if let Some((r, starts)) = ree_encode(rng, &d, 32, 0) {
                    let p = starts.iter().rposition(|s| *s <= start).unwrap();
                    let place = if p == 0 { "first" } else if starts[p] == start { "boundary" } else { "later" };
                    push(format!("ree32(dict)/{place}"), r.slice(start, n), &mut out);
                }
            }
        }
    }
    out
}

/// comparison kernels over the cross product of operand forms: every form of L (plain, dictionary
/// with several key types, run-end with several run-end types, run-end of dictionary, and slices
/// of each that start inside the first run / on a run boundary / inside a later run) against every
/// form of R, array/array, array/scalar and scalar/array.  One episode per left form.
fn kernel_forms(rng: &mut Rng, args: &Args, t: &mut Shards, st: &mut Stats, dt: &DataType) {
    let fs = ["eq", "neq", "lt", "lt_eq", "gt", "gt_eq", "distinct", "not_distinct"];
    let n = 6 + rng.below(9);
    let l = runny(rng, dt, n);
    // R: rows of L, some replaced (in runs), so that all of <, =, > and nulls occur
    let other = runny(rng, dt, n);
    let mut src = 0usize;
    let idx: Vec<(usize, usize)> = (0..n)
        .map(|i| {
            if rng.chance(35) {
                src = 1 - src;
            }
            (src, i)
        })
        .collect();
    let r = match guarded(|| arrow_select::interleave::interleave(&[l.as_ref(), other.as_ref()], &idx)) {
        Ok(Ok(m)) if m.len() == n && m.data_type() == dt => m,
        _ => other,
    };
    let lforms = forms(rng, &l);
    let rforms = forms(rng, &r);
    // one-row scalars cut out of the right forms (a later row, so that run-end scalars start in a later run)
    let rscalars: Vec<(String, ArrayRef)> = rforms.iter().map(|(name, a)| (format!("{name}[1]"), a.slice(n / 2 + rng.below(n - n / 2), 1))).collect();
    for (lname, la) in &lforms {
        let mut cols = vec![la.clone()];
        let mut labels = vec![lname.clone()];
        for (name, a) in rforms.iter().chain(rscalars.iter()) {
            cols.push(a.clone());
            labels.push(name.clone());
        }
        // a scalar cut out of the left form
        cols.push(la.slice(n / 2 + rng.below(n - n / 2), 1));
        labels.push(format!("{lname}[1]"));
        let lscalar = cols.len() - 1;
        let nr = rforms.len();
        let mut ep = Ep::begin(t, st, cols, "forms");
        ep.labels = labels;
        for j in 0..nr {
            let f = *rng.pick(&fs);
            ep.kern(f, 0, false, 1 + j, false);
        }
        for _ in 0..args.scale(4, 8) {
            let f = *rng.pick(&fs);
            ep.kern(f, 0, false, 1 + nr + rng.below(nr), true);
        }
        for _ in 0..args.scale(3, 6) {
            let f = *rng.pick(&fs);
            ep.kern(f, lscalar, true, 1 + rng.below(nr), false);
        }
    }
}


// ------------------------------------------- sort paths x null patterns x options x limits

/// a column of `n` non-null rows with duplicates for the sort path named `name`
fn path_values(rng: &mut Rng, name: &str, dt: &DataType, n: usize) -> ArrayRef {
    let words_short = ["", "a", "ab", "b", "a\0", "abcdefghijkl", "abcdefghijk"];
    let words_long = ["", "a", "abcdefghijkl", "abcdefghijklm", "abcdefghijklmnopqrstuvwxyz", "abcdefghijklmn", "b", "abcdefghijklM"];
    match name {
        "Utf8View/inline" => Arc::new(StringViewArray::from_iter_values((0..n).map(|_| *rng.pick(&words_short)))),
        "Utf8View/buffers" => Arc::new(StringViewArray::from_iter_values((0..n).map(|_| *rng.pick(&words_long)))),
        "BinaryView/inline" => Arc::new(BinaryViewArray::from_iter_values((0..n).map(|_| rng.pick(&words_short).as_bytes()))),
        "BinaryView/buffers" => Arc::new(BinaryViewArray::from_iter_values((0..n).map(|_| rng.pick(&words_long).as_bytes()))),
        _ => {
            let m = 2 + rng.below(4);
            let base = mk::array(rng, dt, m, Cfg::wild(0));
            let idx = UInt32Array::from((0..n).map(|_| rng.below(m) as u32).collect::<Vec<_>>());
            match guarded(|| arrow_select::take::take(base.as_ref(), &idx, None)) {
                Ok(Ok(a)) if a.len() == n => a,
                _ => mk::array(rng, dt, n, Cfg::wild(0)),
            }
        }
    }
}

/// rows of `vals` with nulls at the positions of the pattern: 0 none, 1 first, 2 middle, 3 last,
/// 4 all but two, 5 all
fn null_pattern(vals: &ArrayRef, pattern: usize) -> Option<ArrayRef> {
    let n = vals.len();
    let is_null = |i: usize| match pattern {
        0 => false,
        1 => i == 0,
        2 => i == n / 2,
        3 => i + 1 == n,
        4 => i != 1 && i + 2 != n,
        _ => true,
    };
    let nulls = guarded(|| new_null_array(vals.data_type(), 1)).ok()?;
    let idx: Vec<(usize, usize)> = (0..n).map(|i| if is_null(i) { (1, 0) } else { (0, i) }).collect();
    let a = guarded(|| arrow_select::interleave::interleave(&[vals.as_ref(), nulls.as_ref()], &idx)).ok()?.ok()?;
    (a.len() == n && a.data_type() == vals.data_type()).then_some(a)
}

/// every family with its own path in sort_to_indices gets the product of null patterns, SortOptions
/// and the limits around 0, the null count and the length, for sort_to_indices, sort, sort_limit and
/// the single-column lexsort (which is also the only sort of struct / map / union columns)
fn sort_product(rng: &mut Rng, args: &Args, t: &mut Shards, st: &mut Stats, name: &str, dt: &DataType) {
    for pattern in 0..6usize {
        let n = 8 + rng.below(if args.thorough() { 13 } else { 7 });
        // dictionary / run-end columns: the pattern is laid over the values, then they are encoded
        let col: Option<ArrayRef> = match dt {
            DataType::Dictionary(k, v) => {
                let p = path_values(rng, name, v, n);
                null_pattern(&p, pattern).and_then(|p| dict_encode(rng, &p, k))
            }
            DataType::RunEndEncoded(r, v) => {
                let p = path_values(rng, name, v.data_type(), n);
                let w = match r.data_type() {
                    DataType::Int16 => 16,
                    DataType::Int32 => 32,
                    _ => 64,
                };
                null_pattern(&p, pattern).and_then(|p| ree_encode(rng, &p, w, 20)).map(|x| x.0)
            }
            _ => {
                let p = path_values(rng, name, dt, n);
                null_pattern(&p, pattern)
            }
        };
        let Some(col) = col else { continue };
        if col.data_type() != dt {
            continue;
        }
        let Ok(toks) = guarded(|| tok::rows(col.as_ref())) else { continue };
        let nc = toks.iter().filter(|x| *x == tok::NULL).count();
        let mut lims: Vec<usize> = vec![0, 1, 2, nc.saturating_sub(1), nc, nc + 1, n - 1, n, n + 1];
        lims.sort();
        lims.dedup();
        let mut ep = Ep::begin(t, st, vec![col], &format!("{name} nulls:{pattern}"));
        for o in ALL_OPTS {
            ep.sort_idx(0, Some(o), None);
            ep.sort_vals(0, Some(o), None, false);
            ep.lexsort_idx(&[0], &[o], None);
            for l in &lims {
                ep.sort_idx(0, Some(o), Some(*l));
                ep.sort_vals(0, Some(o), Some(*l), true);
                ep.lexsort_idx(&[0], &[o], Some(*l));
            }
            let l = *rng.pick(&lims);
            ep.lexsort_vals(&[0], &[o], Some(l));
        }
    }
}

/// (name, type) of one representative per sort path of arrow-ord/src/sort.rs (sort_to_indices dispatch)
fn sort_paths(thorough: bool) -> Vec<(String, DataType)> {
    use DataType::*;
    let f = |t: DataType| Arc::new(Field::new("item", t, true));
    let mut v: Vec<(String, DataType)> = vec![
        ("Int32".into(), Int32),                                       // sort_primitive
        ("Float64".into(), Float64),
        ("Boolean".into(), Boolean),                                   // sort_boolean
        ("Utf8".into(), Utf8),                                         // sort_bytes
        ("LargeBinary".into(), LargeBinary),
        ("Utf8View/inline".into(), Utf8View),                          // sort_byte_view, all views inline
        ("Utf8View/buffers".into(), Utf8View),                         // sort_byte_view, with data buffers
        ("BinaryView/inline".into(), BinaryView),
        ("BinaryView/buffers".into(), BinaryView),
        ("FixedSizeBinary(3)".into(), FixedSizeBinary(3)),             // sort_fixed_size_binary
        ("Dictionary(Int8, Utf8)".into(), Dictionary(Box::new(Int8), Box::new(Utf8))),       // sort_dictionary
        ("Dictionary(UInt16, Int64)".into(), Dictionary(Box::new(UInt16), Box::new(Int64))),
        ("RunEndEncoded(Int32, Utf8)".into(), RunEndEncoded(Arc::new(Field::new("run_ends", Int32, false)), Arc::new(Field::new("values", Utf8, true)))), // sort_run
        ("RunEndEncoded(Int16, Int64)".into(), RunEndEncoded(Arc::new(Field::new("run_ends", Int16, false)), Arc::new(Field::new("values", Int64, true)))),
        ("List(Int32)".into(), List(f(Int32))),                        // sort_list
        ("LargeList(Utf8View)".into(), LargeList(f(Utf8View))),
        ("ListView(Int16)".into(), ListView(f(Int16))),                // sort_list_view
        ("LargeListView(Utf8)".into(), LargeListView(f(Utf8))),
        ("FixedSizeList(Int8, 2)".into(), FixedSizeList(f(Int8), 2)),  // sort_fixed_size_list
        // no path of their own in sort_to_indices: sorted by lexsort through the comparator
        ("Struct".into(), Struct(arrow_schema::Fields::from(vec![Field::new("a", Int32, true), Field::new("b", Utf8, true)]))),
    ];
    if thorough {
        for t in mk::all_types() {
            let name = short_type(&t);
            if !v.iter().any(|(_, x)| *x == t) {
                v.push((name, t));
            }
        }
    }
    v
}

fn short_type(t: &DataType) -> String {
    let s = tok::type_str(t);
    if s.len() > 40 { format!("{}..", &s[..40]) } else { s }
}

/// 2-3 columns: lexsort with limits, lexicographic comparator, partition
fn multi_column(rng: &mut Rng, args: &Args, t: &mut Shards, st: &mut Stats, types: &[DataType]) {
    let k = 2 + rng.below(2);
    let n = if rng.chance(40) { *rng.pick(&[10usize, 20, 33, 40]) } else { len_choice(rng, args).min(if args.thorough() { 130 } else { 40 }) };
    let tie_friendly = [DataType::Boolean, DataType::Int8, DataType::Utf8, DataType::Float32, DataType::Null];
    let mut cols = vec![];
    for c in 0..k {
        let dt = if c + 1 < k && rng.chance(60) { rng.pick(&tie_friendly).clone() } else { rng.pick(types).clone() };
        let null_pct = *rng.pick(&[0usize, 20, 50]);
        // leading columns: few distinct values so that later columns decide
        let a = if c + 1 < k || rng.chance(50) { low_card(rng, &dt, n, null_pct) } else { mk::array(rng, &dt, n, Cfg::wild(null_pct)) };
        // a different physical realisation now and then
        let a = if rng.chance(30) { mutate::realisations(rng, &a, 2).pop().unwrap().1 } else { a };
        cols.push(a);
    }
    let cs: Vec<usize> = (0..k).collect();
    let mut ep = Ep::begin(t, st, cols, "multi");
    for _ in 0..args.scale(2, 4) {
        let opts: Vec<SortOptions> = (0..k).map(|_| rand_opts(rng)).collect();
        for lim in limits(rng, n, 3) {
            ep.lexsort_idx(&cs, &opts, lim);
        }
        let lims = limits(rng, n, 2);
        let lim = *rng.pick(&lims);
        ep.lexsort_vals(&cs, &opts, lim);
        let ps = pairs(rng, n, n, 30);
        ep.lexcmp(&cs, &opts, &ps);
    }
    ep.partition(&cs);
    // prefix of the columns
    ep.partition(&cs[..k - 1]);
}

/// every column of at most `maxlen` rows over a small domain of one type
fn exhaustive(rng: &mut Rng, args: &Args, t: &mut Shards, st: &mut Stats, domain: ArrayRef, maxlen: usize) {
    let d = domain.len();
    for len in 0..=maxlen {
        let total = d.pow(len as u32);
        for code in 0..total {
            let mut c = code;
            let idx: Vec<u32> = (0..len)
                .map(|_| {
                    let x = (c % d) as u32;
                    c /= d;
                    x
                })
                .collect();
            let Ok(Ok(col)) = guarded(|| arrow_select::take::take(domain.as_ref(), &UInt32Array::from(idx), None)) else { continue };
            let n = col.len();
            let mut ep = Ep::begin(t, st, vec![col], "exhaustive");
            // quick tier: two of the four option combinations per column
            let skip = rng.below(2);
            for (k, o) in ALL_OPTS.into_iter().enumerate() {
                if !args.thorough() && k % 2 == skip {
                    continue;
                }
                ep.sort_idx(0, Some(o), None);
                for lim in 0..=n + 1 {
                    ep.sort_idx(0, Some(o), Some(lim));
                }
                ep.rank(0, Some(o));
            }
            let o = rand_opts(rng);
            ep.sort_vals(0, Some(o), Some(rng.below(n + 2)), true);
            ep.partition(&[0]);
        }
    }
}

fn domains(thorough: bool) -> Vec<ArrayRef> {
    let mut v: Vec<ArrayRef> = vec![
        Arc::new(Int32Array::from(vec![None, Some(i32::MIN), Some(0), Some(i32::MAX)])),
        Arc::new(Float64Array::from(vec![None, Some(f64::from_bits(0xFFF8_0000_0000_0000)), Some(-0.0), Some(0.0), Some(f64::NAN)])),
        Arc::new(StringArray::from(vec![None, Some(""), Some("a"), Some("a\0")])),
    ];
    if thorough {
        v.push(Arc::new(BooleanArray::from(vec![None, Some(false), Some(true)])));
        v.push(Arc::new(Float32Array::from(vec![None, Some(f32::NEG_INFINITY), Some(-0.0), Some(0.0), Some(1.0), Some(f32::NAN)])));
        v.push(Arc::new(BinaryViewArray::from_iter(vec![None, Some(&b""[..]), Some(&b"\xff"[..]), Some(&b"abcdefghijklm"[..]), Some(&b"abcdefghijkl"[..])])));
        v.push(Arc::new(Decimal128Array::from(vec![None, Some(i128::MIN), Some(-1), Some(0), Some(i128::MAX)]).with_precision_and_scale(38, 10).unwrap()));
        let lists = ListArray::from_iter_primitive::<arrow_array::types::Int32Type, _, _>(vec![
            None,
            Some(vec![]),
            Some(vec![None]),
            Some(vec![Some(0)]),
            Some(vec![Some(0), None]),
        ]);
        v.push(Arc::new(lists));
        let dict: DictionaryArray<arrow_array::types::Int8Type> =
            DictionaryArray::new(Int8Array::from(vec![None, Some(0), Some(1), Some(2)]), Arc::new(StringArray::from(vec![Some("b"), None, Some("a")])));
        v.push(Arc::new(dict));
    }
    v
}

/// minimal reproductions of the known findings of this property (`c10 repro`)
fn repro() {
    use arrow_array::types::{Int32Type, Int8Type};
    let show = |what: &str, r: Result<Result<BooleanArray, ArrowError>, String>| match r {
        Ok(Ok(b)) => println!("{what}: Ok({:?})", b.iter().collect::<Vec<_>>()),
        Ok(Err(e)) => println!("{what}: Err({e})"),
        Err(p) => println!("{what}: PANIC {p}"),
    };
    // C10-cmp-scalar-scalar-encoded-rhs: both operands scalar, right one dictionary encoded with key != 0
    let d = DictionaryArray::<Int8Type>::new(Int8Array::from(vec![1]), Arc::new(StringArray::from(vec!["a", "b"])));
    show("eq(Scalar(dict key 1 -> \"b\"), Scalar(same))  [expected Ok([Some(true)])]", guarded(|| cmp::eq(&Scalar::new(&d), &Scalar::new(&d))));
    let plain = StringArray::from(vec!["b"]);
    show("eq(Scalar(\"b\"), Scalar(dict key 1 -> \"b\"))  [expected Ok([Some(true)])]", guarded(|| cmp::eq(&Scalar::new(&plain), &Scalar::new(&d))));
    show("eq(Scalar(dict key 1 -> \"b\"), Scalar(\"b\"))  [expected Ok([Some(true)])]", guarded(|| cmp::eq(&Scalar::new(&d), &Scalar::new(&plain))));
    // ... or run-end encoded with a non-zero physical start
    let run_ends = Int32Array::from(vec![1, 2]);
    let vals = Int32Array::from(vec![7, 9]);
    let ree = RunArray::<Int32Type>::try_new(&run_ends, &vals).unwrap();
    let s = ree.slice(1, 1);
    show("eq(Scalar(ree slice(1,1) -> 9), Scalar(same))  [expected Ok([Some(true)])]", guarded(|| cmp::eq(&Scalar::new(&s), &Scalar::new(&s))));
    // C10-listview-array-equality
    {
        use arrow_buffer::ScalarBuffer;
        let f = Arc::new(Field::new("item", DataType::Int32, true));
        let mk = |child: Int32Array, size: i32| -> ArrayRef {
            Arc::new(ListViewArray::new(f.clone(), ScalarBuffer::from(vec![0i32]), ScalarBuffer::from(vec![size]), Arc::new(child), None))
        };
        let a = mk(Int32Array::from(vec![None, None]), 1);
        let b = mk(Int32Array::from(vec![Some(7), Some(8)]), 1);
        println!("ListView [[null]] == [[7]]: {:?}   [expected Ok(false)]", guarded(|| a.as_ref() == b.as_ref()));
        let a2 = mk(Int32Array::from(vec![None, Some(1)]), 1);
        let b2 = mk(Int32Array::from(vec![Some(7), None]), 1);
        println!("ListView [[null]] == [[7]] (both children have a validity buffer): {:?}   [expected Ok(false)]", guarded(|| a2.as_ref() == b2.as_ref()));
    }
    // C10-sort-zero-width-values
    let z: ArrayRef = Arc::new(FixedSizeBinaryArray::try_new_with_len(0, arrow_buffer::Buffer::from_vec(Vec::<u8>::new()), None, 3).unwrap());
    match guarded(|| sort_limit(z.as_ref(), None, Some(2))) {
        Ok(Ok(a)) => println!("sort_limit(FixedSizeBinary(0) x3, limit 2).len() = {}  [expected 2]", a.len()),
        other => println!("sort_limit(FixedSizeBinary(0)): {:?}", other.map(|r| r.map(|a| a.len()))),
    }
}

fn main() {
    vcore::quiet_panics();
    let args = Args::parse();
    if args.driver == "repro" {
        return repro();
    }
    let mut rng = Rng::new(args.seed ^ 0xC10);
    let mut t = Shards::create(&args.out, "order", 14);
    let mut st = Stats { events: 0, episodes: 0, skipped: 0, errs: 0 };
    let types = mk::all_types();
    let rounds = args.scale(1, 4);
    for _ in 0..rounds {
        for dt in &types {
            let n = len_choice(&mut rng, &args);
            let a = rand_array(&mut rng, dt, n);
            let reals = mutate::realisations(&mut rng, &a, args.scale(2, 4));
            for (name, r) in reals {
                // the realisation must denote the same column (otherwise the mutator is at fault, skip it)
                if tok::rows(r.as_ref()) != tok::rows(a.as_ref()) {
                    continue;
                }
                single_column(&mut rng, &args, &mut t, &mut st, r.clone(), &name);
            }
            // comparison kernels on a (possibly re-laid-out) column
            let n = len_choice(&mut rng, &args);
            let a = rand_array(&mut rng, dt, n);
            let reals = mutate::realisations(&mut rng, &a, 3);
            let (name, r) = reals[rng.below(reals.len())].clone();
            if tok::rows(r.as_ref()) == tok::rows(a.as_ref()) {
                kernels(&mut rng, &args, &mut t, &mut st, r, &name);
            }
        }
        for _ in 0..args.scale(40, 120) {
            multi_column(&mut rng, &args, &mut t, &mut st, &types);
        }
    }
    // operand forms of the comparison kernels: a few value types per run, always a numeric, a string and a
    // boolean one (the cross product of forms is covered for each of them)
    let flat: Vec<DataType> = mk::flat_types().into_iter().filter(|t| !zero_width(t)).collect();
    let mut form_types = vec![DataType::Int32, DataType::Utf8, DataType::Boolean];
    for _ in 0..args.scale(1, 9) {
        form_types.push(rng.pick(&flat).clone());
    }
    for dt in &form_types {
        kernel_forms(&mut rng, &args, &mut t, &mut st, dt);
    }
    for (name, dt) in sort_paths(args.thorough()) {
        sort_product(&mut rng, &args, &mut t, &mut st, &name, &dt);
    }
    for d in domains(args.thorough()) {
        let maxlen = if args.thorough() && d.len() <= 4 { 4 } else { 3 };
        exhaustive(&mut rng, &args, &mut t, &mut st, d, maxlen);
    }
    let written = t.finish();
    assert_eq!(written, st.events);
    println!(
        "DRIVER c10 events={} episodes={} skipped_unsupported={} error_outcomes={}",
        st.events, st.episodes, st.skipped, st.errs
    );
}
