//! C13 driver: records can_cast_types / cast_with_options over a finite type grid, text round
//! trips and DataType Display -> FromStr.  No expectations are computed here: Trace_Cast.tla
//! (Cast.tla, BigNum.tla) decides.
mod val;

use arrow_array::*;
use arrow_cast::{can_cast_types, cast_with_options, CastOptions};
use arrow_schema::{ArrowError, DataType, Field, Fields, IntervalUnit, TimeUnit, UnionFields, UnionMode};
use num_bigint::BigInt;
use num_traits::{One, Zero};
use std::sync::Arc;
use val::{Col, Row};
use vcore::mk::{self, Cfg};
use vcore::trace::Shards;
use vcore::{guarded, json, mutate, tok, Args, Rng, Value};

fn fld(name: &str, t: DataType, nullable: bool) -> Arc<Field> {
    Arc::new(Field::new(name, t, nullable))
}

/// the finite type grid: every ordered pair is examined
fn grid() -> Vec<DataType> {
    use DataType::*;
    let mut v = vec![
        Null, Boolean, Int8, Int16, Int32, Int64, UInt8, UInt16, UInt32, UInt64, Float16, Float32, Float64,
        Decimal32(9, 2), Decimal32(5, 0), Decimal64(18, 4), Decimal64(10, -2), Decimal128(38, 10), Decimal128(20, 0), Decimal128(10, 3),
        Decimal256(76, 20), Decimal256(40, 5),
        Date32, Date64, Time32(TimeUnit::Second), Time32(TimeUnit::Millisecond), Time64(TimeUnit::Microsecond), Time64(TimeUnit::Nanosecond),
    ];
    for u in [TimeUnit::Second, TimeUnit::Millisecond, TimeUnit::Microsecond, TimeUnit::Nanosecond] {
        v.push(Timestamp(u, None));
        v.push(Timestamp(u, Some("+00:00".into())));
        v.push(Timestamp(u, Some("+05:30".into())));
        v.push(Duration(u));
    }
    v.extend([Interval(IntervalUnit::YearMonth), Interval(IntervalUnit::DayTime), Interval(IntervalUnit::MonthDayNano)]);
    v.extend([Utf8, LargeUtf8, Utf8View, Binary, LargeBinary, BinaryView, FixedSizeBinary(4)]);
    v.extend([
        Dictionary(Box::new(Int8), Box::new(Utf8)),
        Dictionary(Box::new(Int32), Box::new(Int64)),
        Dictionary(Box::new(UInt16), Box::new(LargeUtf8)),
        Dictionary(Box::new(Int16), Box::new(Decimal128(20, 0))),
        RunEndEncoded(fld("run_ends", Int32, false), fld("values", Utf8, true)),
        RunEndEncoded(fld("run_ends", Int16, false), fld("values", Int64, true)),
        List(fld("item", Int32, true)),
        LargeList(fld("item", Int32, true)),
        ListView(fld("item", Int32, true)),
        LargeListView(fld("item", Int32, true)),
        FixedSizeList(fld("item", Int32, true), 2),
        FixedSizeList(fld("item", Int64, true), 1),
        List(fld("item", Utf8, true)),
        LargeList(fld("item", Utf8View, true)),
        List(fld("item", Int64, true)),
        Struct(Fields::from(vec![Field::new("a", Int32, true), Field::new("b", Utf8, true)])),
        Struct(Fields::from(vec![Field::new("a", Int64, true), Field::new("b", LargeUtf8, true)])),
        Map(fld("entries", Struct(Fields::from(vec![Field::new("key", Utf8, false), Field::new("value", Int32, true)])), false), false),
        Union(UnionFields::try_new(vec![0, 1], vec![Field::new("i", Int32, true), Field::new("s", Utf8, true)]).unwrap(), UnionMode::Sparse),
    ]);
    v
}

fn unsupported(msg: &str) -> bool {
    let m = msg.to_ascii_lowercase();
    m.contains("not supported") || m.contains("unsupported") || m.contains("not yet implemented") || m.contains("not implemented")
}

enum Out {
    Ok(ArrayRef),
    Err(String),
    Unsupported(String),
    Panic(String),
}

impl Out {
    fn cls(&self) -> &'static str {
        match self {
            Out::Ok(_) => "ok",
            Out::Err(_) => "err",
            Out::Unsupported(_) => "unsupported",
            Out::Panic(_) => "panic",
        }
    }
    fn is_ok(&self) -> bool {
        matches!(self, Out::Ok(_))
    }
    fn note(&self) -> String {
        match self {
            Out::Ok(_) => String::new(),
            Out::Err(m) | Out::Unsupported(m) | Out::Panic(m) => m.chars().take(140).collect(),
        }
    }
}

fn do_cast(a: &dyn Array, to: &DataType, safe: bool) -> Out {
    let opts = CastOptions { safe, ..Default::default() };
    match guarded(|| cast_with_options(a, to, &opts)) {
        Ok(Ok(x)) => Out::Ok(x),
        Ok(Err(e)) => {
            let m = e.to_string();
            // an ArrowError::CastError "... not supported" is the dispatcher's "no such cast"
            if matches!(e, ArrowError::CastError(_) | ArrowError::NotYetImplemented(_)) && unsupported(&m) { Out::Unsupported(m) } else { Out::Err(m) }
        }
        Err(p) => Out::Panic(p),
    }
}

fn rows_of(a: &dyn Array) -> Option<Vec<String>> {
    guarded(|| tok::rows(a)).ok()
}

fn family(dt: &DataType) -> &'static str {
    match dt {
        DataType::Interval(_) => "interval",
        t => tok::family(t),
    }
}

// --------------------------------------------------------------------- K1
fn pair_event(t: &mut Shards, rng: &mut Rng, a: &DataType, b: &DataType) -> bool {
    let can = can_cast_types(a, b);
    let empty = new_empty_array(a);
    let allnull = new_null_array(a, 3);
    let sample = mk::array(rng, a, 6, Cfg::tame(20));
    let mut tyok = true;
    let mut nullok = true;
    let mut classes = vec![];
    let mut notes = vec![];
    let mut supported = true;
    for (arr, is_null) in [(&empty, false), (&allnull, true), (&sample, false)] {
        for safe in [true, false] {
            let o = do_cast(arr.as_ref(), b, safe);
            if let Out::Ok(x) = &o {
                if x.data_type() != b || x.len() != arr.len() {
                    tyok = false;
                }
                if is_null {
                    match rows_of(x.as_ref()) {
                        Some(r) if r.iter().all(|s| s == tok::NULL) => {}
                        _ => nullok = false,
                    }
                }
            }
            if matches!(o, Out::Unsupported(_)) {
                supported = false;
            }
            if !o.is_ok() && notes.len() < 2 {
                notes.push(o.note());
            }
            classes.push(o.cls());
        }
    }
    t.emit(json!({"k":"pair","a":tok::type_str(a),"b":tok::type_str(b),"af":family(a),"bf":family(b),"can":can,
        "al":logical(a),"bl":logical(b),"aleaf":format!("{}", leaf(a)),"bleaf":format!("{}", leaf(b)),
        "bdecneg":matches!(leaf(b), DataType::Decimal32(_, s) | DataType::Decimal64(_, s) | DataType::Decimal128(_, s) | DataType::Decimal256(_, s) if *s < 0),
        "e_safe":classes[0],"e_strict":classes[1],"n_safe":classes[2],"n_strict":classes[3],"s_safe":classes[4],"s_strict":classes[5],
        "tyok":tyok,"nullok":nullok,"note":notes.join(" | ")}));
    t.next_episode();
    // usable for the value-level events: accepted, dispatched, and the empty column casts
    can && supported && classes[0] == "ok" && classes[1] == "ok"
}

// ------------------------------------------------------------ exact families
fn exact_family(dt: &DataType) -> Option<&'static str> {
    use DataType::*;
    Some(match dt {
        Boolean => "bool",
        Int8 | Int16 | Int32 | Int64 | UInt8 | UInt16 | UInt32 | UInt64 => "int",
        Decimal32(_, _) | Decimal64(_, _) | Decimal128(_, _) | Decimal256(_, _) => "dec",
        Date32 => "date32",
        Date64 => "date64",
        Time32(_) => "time32",
        Time64(_) => "time64",
        Timestamp(_, _) => "ts",
        Duration(_) => "dur",
        _ => return None,
    })
}

/// mirrors `Exact` of Cast.tla (a wrong choice here is rejected by the specification, not trusted)
fn exact_pair(a: &DataType, b: &DataType) -> bool {
    let (Some(fa), Some(fb)) = (exact_family(a), exact_family(b)) else { return false };
    let intlike = |f: &str| matches!(f, "date32" | "date64" | "time32" | "time64" | "ts" | "dur");
    match (fa, fb) {
        ("bool", "bool") => false,
        ("int" | "bool", "int" | "bool") => true,
        ("int", "dec") | ("dec", "int") | ("dec", "dec") => true,
        (x, "int") if intlike(x) => true,
        ("int", y) if intlike(y) => true,
        ("date32", "date64") | ("date64", "date32") => true,
        ("time32" | "time64", "time32" | "time64") => true,
        ("dur", "dur") => true,
        ("ts", "ts" | "date64" | "date32" | "time32" | "time64") => true,
        ("date32" | "date64", "ts") => true,
        _ => false,
    }
}

fn pow2(k: u32) -> BigInt {
    BigInt::one() << (k as usize)
}

fn unit_per_sec(u: &TimeUnit) -> i64 {
    match u {
        TimeUnit::Second => 1,
        TimeUnit::Millisecond => 1_000,
        TimeUnit::Microsecond => 1_000_000,
        TimeUnit::Nanosecond => 1_000_000_000,
    }
}

/// candidate source values of a type: range boundaries, rounding ties, unit boundaries, random
fn source_values(rng: &mut Rng, dt: &DataType, extra: usize) -> Vec<BigInt> {
    source_values_x(rng, dt, extra, false)
}

fn source_values_x(rng: &mut Rng, dt: &DataType, extra: usize, full16: bool) -> Vec<BigInt> {
    use DataType::*;
    let (w, s) = val::fields(dt).unwrap()[0];
    let (lo, hi): (BigInt, BigInt) = if s { (-pow2(w - 1), pow2(w - 1) - 1) } else { (BigInt::zero(), pow2(w) - 1) };
    let mut v: Vec<BigInt> = vec![];
    let mut around = |c: BigInt, d: i64| {
        for k in -d..=d {
            v.push(&c + k);
        }
    };
    match dt {
        Boolean => return vec![BigInt::zero(), BigInt::one()],
        Int8 | UInt8 => return (0..256).map(|i| &lo + i).collect(),
        Int16 | UInt16 if full16 => return (0..65536).map(|i| &lo + i).collect(),
        Decimal32(p, sc) | Decimal64(p, sc) | Decimal128(p, sc) | Decimal256(p, sc) => {
            // valid decimals only: |v| < 10^p
            let top: BigInt = BigInt::from(10).pow(*p as u32) - 1;
            around(top.clone(), 0);
            around(-top.clone(), 0);
            around(&top - 1, 0);
            around(BigInt::zero(), 2);
            for k in 0..=(*p as u32) {
                let t = BigInt::from(10).pow(k);
                for m in [1i64, 5, 9] {
                    around(&t * m, 1); // 10^k, 5*10^k (rounding ties), 9*10^k, and neighbours
                    around(&t * -m, 1);
                }
                around(&t * 15, 0);
                around(&t * 25, 0);
                around(&t * -15, 0);
            }
            let _ = sc;
            for _ in 0..extra {
                let digits = 1 + rng.below(*p as usize) as u32;
                let mut x = BigInt::zero();
                for _ in 0..digits {
                    x = x * 10 + rng.below(10);
                }
                v.push(if rng.chance(50) { -x } else { x });
            }
            v.retain(|x| *x >= -&top && *x <= top);
        }
        Time32(u) | Time64(u) => {
            // times of day
            let day = BigInt::from(86_400i64 * unit_per_sec(u));
            around(BigInt::zero(), 0);
            around(BigInt::one(), 0);
            around(&day - 1, 0);
            for m in [999i64, 1000, 1001, 59_999, 60_000, 3_599_999, 3_600_000, 1_000_000, 999_999_999] {
                around(BigInt::from(m), 0);
            }
            for _ in 0..extra {
                v.push(BigInt::from(rng.next() % (86_400u64 * unit_per_sec(u) as u64)));
            }
            v.retain(|x| *x >= BigInt::zero() && *x < day);
        }
        _ => {
            around(lo.clone(), 2);
            around(hi.clone(), 2);
            around(BigInt::zero(), 3);
            for k in [7u32, 8, 15, 16, 31, 32, 63] {
                if k < w {
                    around(pow2(k), 1);
                    around(-pow2(k), 1);
                }
            }
            for m in [999i64, 1000, 1001, 1499, 1500, 999_999, 1_000_000, 1_000_001, 86_399, 86_400, 86_401, 86_399_999, 86_400_000, 86_400_001] {
                around(BigInt::from(m), 0);
                around(BigInt::from(-m), 0);
            }
            if matches!(dt, Timestamp(_, _) | Date32 | Date64) {
                // calendar years 0001 and 9999, the day before / after the epoch
                let per_day: i64 = match dt {
                    Date32 => 1,
                    Date64 => 86_400_000,
                    Timestamp(u, _) => 86_400 * unit_per_sec(u),
                    _ => 1,
                };
                for days in [-719_162i64, -719_163, 2_932_896, 2_932_897, -1, 1, 18_262, 19_000] {
                    if let Some(x) = days.checked_mul(per_day) {
                        around(BigInt::from(x), 1);
                    }
                }
            }
            for _ in 0..extra {
                let bits = 1 + rng.below(w as usize) as u32;
                let mut x = BigInt::zero();
                let mut left = bits;
                while left > 0 {
                    let take = left.min(32);
                    x = (x << (take as usize)) + BigInt::from(rng.next() & ((1u64 << take) - 1));
                    left -= take;
                }
                v.push(if rng.chance(50) { -x } else { x });
            }
            v.retain(|x| *x >= lo && *x <= hi);
        }
    }
    v.sort();
    v.dedup();
    v
}

fn col_of(rng: &mut Rng, dt: &DataType, vals: &[BigInt], null_pct: usize) -> Col {
    let rows: Vec<Row> = vals.iter().map(|x| if rng.chance(null_pct) { None } else { Some(vec![x.clone()]) }).collect();
    let mut c = Col::new(dt, rows);
    // garbage under nulls: the original value stays in place
    for (i, x) in vals.iter().enumerate() {
        c.under[i] = vec![x.clone()];
    }
    c
}

fn realise(rng: &mut Rng, a: ArrayRef) -> (ArrayRef, &'static str) {
    match rng.below(4) {
        0 => match mutate::pad_slice(rng, &a) {
            Some(x) if x.data_type() == a.data_type() => (x, "pad_slice"),
            _ => (a, "orig"),
        },
        _ => (a, "orig"),
    }
}

fn put_outcome(m: &mut serde_json::Map<String, Value>, prefix: &str, o: &Out) {
    match o {
        Out::Ok(x) => {
            let rows = val::big_rows(x.as_ref());
            m.insert(format!("{prefix}_err"), json!(false));
            m.insert(format!("{prefix}_out"), val::rows_json(x.data_type(), &rows));
            m.insert(format!("{prefix}_ov"), val::valid_json(&rows));
            m.insert(format!("{prefix}_ot"), val::tdesc(x.data_type()));
        }
        other => {
            m.insert(format!("{prefix}_err"), json!(true));
            m.insert(format!("{prefix}_out"), json!([]));
            m.insert(format!("{prefix}_ov"), json!([]));
            m.insert(format!("{prefix}_ot"), json!({"f":"","w":0,"sg":0,"p":0,"s":0,"u":"","tz":"","tzo":0}));
            m.insert(format!("{prefix}_note"), json!(other.note()));
        }
    }
}

fn castx_events(t: &mut Shards, rng: &mut Rng, args: &Args, a: &DataType, b: &DataType) {
    let vals = source_values_x(rng, a, args.scale(12, 160), args.thorough());
    let chunk = if vals.len() > 1000 { 256 } else { 64 };
    for (ci, part) in vals.chunks(chunk).enumerate() {
        for null_pct in [0usize, 20] {
            if null_pct > 0 && !(ci == 0 || (args.thorough() && (ci < 4 || vals.len() <= 1000))) {
                continue;
            }
            let col = col_of(rng, a, part, null_pct);
            let (arr, via) = realise(rng, col.build());
            let strict = do_cast(arr.as_ref(), b, false);
            let safe = do_cast(arr.as_ref(), b, true);
            if matches!(strict, Out::Ok(ref x) if val::fields(x.data_type()).is_none()) {
                continue;
            }
            let cls = if strict.cls() == "panic" || safe.cls() == "panic" { "panic" } else { "" };
            let mut ev = json!({"k":"castx","a":val::tdesc(a),"b":val::tdesc(b),"in":col.values_json(),"iv":col.valid(),"via":via,"cls":cls,
                "an":tok::type_str(a),"bn":tok::type_str(b)});
            let m = ev.as_object_mut().unwrap();
            put_outcome(m, "s", &strict);
            put_outcome(m, "f", &safe);
            t.emit(ev);
            t.next_episode();
        }
    }
    // K4: the cast followed by its inverse (judged only where the specification calls the cast lossless)
    if can_cast_types(b, a) {
        let part: Vec<BigInt> = if vals.len() > 80 { (0..80).map(|_| rng.pick(&vals).clone()).collect() } else { vals.clone() };
        let col = col_of(rng, a, &part, 10);
        let arr = col.build();
        let fwd = do_cast(arr.as_ref(), b, false);
        let (err, back, bv) = match &fwd {
            Out::Ok(x) => match do_cast(x.as_ref(), a, false) {
                Out::Ok(y) => {
                    let rows = val::big_rows(y.as_ref());
                    (false, val::rows_json(a, &rows), val::valid_json(&rows))
                }
                _ => (true, json!([]), json!([])),
            },
            _ => (true, json!([]), json!([])),
        };
        t.emit(json!({"k":"inv","a":val::tdesc(a),"b":val::tdesc(b),"in":col.values_json(),"iv":col.valid(),"err":err,"back":back,"bv":bv,
            "an":tok::type_str(a),"bn":tok::type_str(b)}));
        t.next_episode();
    }
}

// ------------------------------------------------------------ generic duality
const TEXTS: [&str; 40] = [
    "0", "1", "-1", "127", "128", "-128", "-129", "255", "256", "65535", "65536", "2147483647", "2147483648", "-2147483649", "9223372036854775807",
    "9223372036854775808", "18446744073709551615", "18446744073709551616", "1.5", "-0.5", "1e3", "1E-2", "NaN", "inf", "-inf", "", " 7", "7 ", "+5", "abc",
    "true", "false", "2020-02-29", "2021-02-29", "12:34:56", "12:34:56.789", "2020-01-01T00:00:00", "2020-01-01T00:00:00Z", "2020-01-01 00:00:00+05:30", "1 day",
];

fn flat(dt: &DataType) -> bool {
    use DataType::*;
    match dt {
        Dictionary(_, v) => flat(v) && !matches!(**v, Dictionary(_, _)),
        RunEndEncoded(_, v) => flat(v.data_type()),
        List(_) | LargeList(_) | ListView(_) | LargeListView(_) | FixedSizeList(_, _) | Struct(_) | Map(_, _) | Union(_, _) | Null => false,
        _ => true,
    }
}

fn generic_source(rng: &mut Rng, a: &DataType, n: usize) -> ArrayRef {
    use DataType::*;
    match a {
        // encodings: built from the logical values, so that the dictionary holds referenced values only
        Dictionary(_, v) => {
            let vals = generic_source(rng, v, n);
            match do_cast(vals.as_ref(), a, false) {
                Out::Ok(x) => x,
                _ => mk::array(rng, a, n, Cfg::tame(12)),
            }
        }
        RunEndEncoded(_, v) => {
            let vals = generic_source(rng, v.data_type(), n);
            match do_cast(vals.as_ref(), a, false) {
                Out::Ok(x) => x,
                _ => mk::array(rng, a, n, Cfg::tame(12)),
            }
        }
        Utf8 | LargeUtf8 | Utf8View => {
            let v: Vec<Option<&str>> = (0..n).map(|_| if rng.chance(10) { None } else { Some(*rng.pick(&TEXTS)) }).collect();
            let s: ArrayRef = Arc::new(StringArray::from(v));
            arrow_cast::cast(&s, a).unwrap()
        }
        t if exact_family(t).is_some() && val::fields(t).is_some() => {
            let vals = source_values(rng, t, 6);
            let pick: Vec<BigInt> = (0..n).map(|_| rng.pick(&vals).clone()).collect();
            col_of(rng, t, &pick, 10).build()
        }
        _ => mk::array(rng, a, n, Cfg::wild(12)),
    }
}

fn castg_event(t: &mut Shards, rng: &mut Rng, a: &DataType, b: &DataType, n: usize) {
    let arr = generic_source(rng, a, n);
    let (arr, via) = realise(rng, arr);
    castg_on(t, arr, via, b)
}

fn castg_on(t: &mut Shards, arr: ArrayRef, via: &str, b: &DataType) {
    let a = &arr.data_type().clone();
    let Some(rows) = rows_of(arr.as_ref()) else { return };
    let strict = do_cast(arr.as_ref(), b, false);
    let safe = do_cast(arr.as_ref(), b, true);
    let mut rowerr = vec![];
    let mut rowout = vec![];
    let mut panicked = strict.cls() == "panic" || safe.cls() == "panic";
    // representability is a property of the logical values: encoded columns are decoded first
    let decoded: ArrayRef = match a {
        DataType::Dictionary(_, v) => match do_cast(arr.as_ref(), v, false) { Out::Ok(x) => x, _ => arr.clone() },
        DataType::RunEndEncoded(_, v) => match do_cast(arr.as_ref(), v.data_type(), false) { Out::Ok(x) => x, _ => arr.clone() },
        _ => arr.clone(),
    };
    for i in 0..arr.len() {
        // the row copied into a fresh one-row column (no bytes of other rows, compact buffers)
        let one = match guarded(|| arrow_select::take::take(decoded.as_ref(), &UInt32Array::from(vec![i as u32]), None)) {
            Ok(Ok(x)) => x,
            _ => decoded.slice(i, 1),
        };
        match do_cast(one.as_ref(), b, false) {
            Out::Ok(x) => {
                rowerr.push(0);
                rowout.push(rows_of(x.as_ref()).and_then(|r| r.first().cloned()).unwrap_or_else(|| "?".into()));
            }
            o => {
                if o.cls() == "panic" {
                    panicked = true;
                }
                rowerr.push(1);
                rowout.push(tok::NULL.to_string());
            }
        }
    }
    let toks = |o: &Out| -> Value {
        match o {
            Out::Ok(x) => rows_of(x.as_ref()).map(|r| tok::strs(&r)).unwrap_or_else(|| json!(["?"])),
            _ => json!([]),
        }
    };
    t.emit(json!({"k":"castg","a":tok::type_str(a),"b":tok::type_str(b),"ax":kind(a),"bx":kind(b),"adict":matches!(a, DataType::Dictionary(_, _)),
        "in":tok::strs(&rows),"rowerr":rowerr,"rowout":rowout,
        "s_err":!strict.is_ok(),"s_out":toks(&strict),"f_err":!safe.is_ok(),"f_out":toks(&safe),
        "cls":if panicked {"panic"} else {""},"via":via,"note":format!("{} | {}", strict.note(), safe.note())}));
    t.next_episode();
}

// ------------------------------------------------------------------- K4
/// the logical type a data type denotes, encodings removed
fn logical(dt: &DataType) -> String {
    use DataType::*;
    match dt {
        Dictionary(_, v) => logical(v),
        RunEndEncoded(_, v) => logical(v.data_type()),
        Utf8 | LargeUtf8 | Utf8View => "utf8".into(),
        Binary | LargeBinary | BinaryView => "binary".into(),
        List(f) | LargeList(f) | ListView(f) | LargeListView(f) => format!("list<{}>", logical(f.data_type())),
        other => format!("{other}"),
    }
}

/// the innermost value type under dictionary / run-end / list wrappers
fn leaf(dt: &DataType) -> &DataType {
    use DataType::*;
    match dt {
        Dictionary(_, v) => leaf(v),
        RunEndEncoded(_, v) => leaf(v.data_type()),
        List(f) | LargeList(f) | ListView(f) | LargeListView(f) | FixedSizeList(f, _) => leaf(f.data_type()),
        other => other,
    }
}

/// family name used by the known-finding predicates of the generic events
fn kind(dt: &DataType) -> String {
    match dt {
        DataType::Dictionary(_, v) => kind(v),
        DataType::RunEndEncoded(_, v) => kind(v.data_type()),
        other => exact_family(other).map(|s| s.to_string()).unwrap_or_else(|| logical(other)),
    }
}

fn reenc_event(t: &mut Shards, rng: &mut Rng, a: &DataType, b: &DataType) {
    let same = logical(a) == logical(b);
    if !same {
        return;
    }
    for _ in 0..2 {
        let n = mk::rand_len(rng, 40);
        let base = mk::array(rng, a, n, Cfg::tame(20));
        for (via, arr) in mutate::realisations(rng, &base, 3) {
            let Some(rows) = rows_of(arr.as_ref()) else { continue };
            let fwd = do_cast(arr.as_ref(), b, rng.chance(50));
            let (fw, back, bcls) = match &fwd {
                Out::Ok(x) => {
                    let r = rows_of(x.as_ref()).unwrap_or_else(|| vec!["?".into()]);
                    let bk = do_cast(x.as_ref(), a, false);
                    let br = match &bk {
                        Out::Ok(y) => rows_of(y.as_ref()).unwrap_or_else(|| vec!["?".into()]),
                        _ => vec![],
                    };
                    (r, br, bk.cls())
                }
                _ => (vec![], vec![], "err"),
            };
            t.emit(json!({"k":"reenc","a":tok::type_str(a),"b":tok::type_str(b),"same":same,"in":tok::strs(&rows),"f_cls":fwd.cls(),"fwd":tok::strs(&fw),
                "b_cls":bcls,"back":tok::strs(&back),"via":via,"note":fwd.note()}));
            t.next_episode();
        }
    }
}

// ------------------------------------------------------------------- K5
fn text_types() -> Vec<DataType> {
    use DataType::*;
    let mut v = vec![
        Boolean, Int8, Int16, Int32, Int64, UInt8, UInt16, UInt32, UInt64, Float16, Float32, Float64,
        Decimal32(9, 2), Decimal32(9, 0), Decimal32(9, 9), Decimal64(18, 4), Decimal128(38, 10), Decimal128(38, 0), Decimal128(38, 38), Decimal256(76, 20), Decimal256(76, 0),
        Date32, Date64, Time32(TimeUnit::Second), Time32(TimeUnit::Millisecond), Time64(TimeUnit::Microsecond), Time64(TimeUnit::Nanosecond),
    ];
    for u in [TimeUnit::Second, TimeUnit::Millisecond, TimeUnit::Microsecond, TimeUnit::Nanosecond] {
        v.push(Timestamp(u, None));
        v.push(Timestamp(u, Some("+00:00".into())));
        v.push(Timestamp(u, Some("-03:30".into())));
    }
    v.extend([Interval(IntervalUnit::YearMonth), Interval(IntervalUnit::DayTime), Interval(IntervalUnit::MonthDayNano)]);
    v
}

/// values "the textual form can express": calendar years 0001-9999, whole days for Date64, finite floats /
/// infinities / the canonical NaN
fn text_source(rng: &mut Rng, dt: &DataType, n: usize) -> ArrayRef {
    use DataType::*;
    match dt {
        Float16 | Float32 | Float64 => {
            let w = match dt { Float16 => 16u32, Float32 => 32, _ => 64 };
            let bits: Vec<Option<u64>> = (0..n).map(|_| if rng.chance(10) { None } else { Some(float_bits(rng, w)) }).collect();
            match w {
                16 => Arc::new(Float16Array::from(bits.iter().map(|b| b.map(|b| half::f16::from_bits(b as u16))).collect::<Vec<_>>())),
                32 => Arc::new(Float32Array::from(bits.iter().map(|b| b.map(|b| f32::from_bits(b as u32))).collect::<Vec<_>>())),
                _ => Arc::new(Float64Array::from(bits.iter().map(|b| b.map(f64::from_bits)).collect::<Vec<_>>())),
            }
        }
        Interval(_) => mk::array(rng, dt, n, Cfg::tame(10)),
        _ => {
            let mut vals = source_values(rng, dt, 10);
            let (lo, hi): (Option<i64>, Option<i64>) = match dt {
                Date32 => (Some(-719_162), Some(2_932_896)),
                Date64 => (Some(-719_162 * 86_400_000), Some(2_932_896 * 86_400_000)),
                Timestamp(u, _) => {
                    // keep a day of margin for the zone offset
                    let per = unit_per_sec(u) as i128 * 86_400;
                    let lo = (-719_161i128 * per).max(i64::MIN as i128 + 1) as i64;
                    let hi = (2_932_895i128 * per).min(i64::MAX as i128 - 1) as i64;
                    (Some(lo), Some(hi))
                }
                _ => (None, None),
            };
            if let (Some(lo), Some(hi)) = (lo, hi) {
                vals.retain(|x| *x >= BigInt::from(lo) && *x <= BigInt::from(hi));
                for _ in 0..10 {
                    vals.push(BigInt::from(rng.range(lo, hi)));
                }
            }
            if matches!(dt, Date64) {
                for x in vals.iter_mut() {
                    *x = (&*x / 86_400_000) * 86_400_000;
                }
            }
            let pick: Vec<BigInt> = (0..n).map(|_| rng.pick(&vals).clone()).collect();
            col_of(rng, dt, &pick, 10).build()
        }
    }
}

fn float_bits(rng: &mut Rng, w: u32) -> u64 {
    let (eb, mb) = match w { 16 => (5u32, 10u32), 32 => (8, 23), _ => (11, 52) };
    let sign = (rng.below(2) as u64) << (w - 1);
    let emax = (1u64 << eb) - 1;
    let mant = (1u64 << mb) - 1;
    let (e, m) = match rng.below(8) {
        0 => return (emax << mb) | (1u64 << (mb - 1)), // the canonical (positive, quiet) NaN
        1 => (emax, 0),
        2 => (0, 0),
        3 => (0, 1 + rng.next() % mant),
        4 => (emax - 1, mant),
        5 => (1, 0),
        _ => (rng.next() % emax, rng.next() & mant),
    };
    sign | (e << mb) | m
}

fn text_event(t: &mut Shards, rng: &mut Rng, dt: &DataType, st: &DataType) {
    if !(can_cast_types(dt, st) && can_cast_types(st, dt)) {
        return;
    }
    let n = 24;
    let arr = text_source(rng, dt, n);
    let Some(rows) = rows_of(arr.as_ref()) else { return };
    let txt = do_cast(arr.as_ref(), st, false);
    let (err, texts, back, note) = match &txt {
        Out::Ok(x) => {
            let texts: Vec<String> = {
                let s = arrow_cast::cast(x, &DataType::Utf8).unwrap();
                let s = s.as_any().downcast_ref::<StringArray>().unwrap().clone();
                (0..s.len()).map(|i| if s.is_null(i) { "~".to_string() } else { s.value(i).to_string() }).collect()
            };
            match do_cast(x.as_ref(), dt, false) {
                Out::Ok(y) => (false, texts, rows_of(y.as_ref()).unwrap_or_default(), String::new()),
                o => (true, texts, vec![], o.note()),
            }
        }
        o => (true, vec![], vec![], o.note()),
    };
    t.emit(json!({"k":"text","ty":tok::type_str(dt),"st":tok::type_str(st),"in":tok::strs(&rows),"txt":tok::strs(&texts),"err":err,"back":tok::strs(&back),"note":note}));
    t.next_episode();
}

// ------------------------------------------------------- text -> value (lexical)
fn cps(s: &str) -> Value {
    Value::Array(s.chars().map(|c| json!(c as u32)).collect())
}

fn string_col(texts: &[Option<String>], st: &DataType) -> ArrayRef {
    let base: ArrayRef = Arc::new(StringArray::from(texts.iter().map(|x| x.as_deref()).collect::<Vec<_>>()));
    arrow_cast::cast(&base, st).expect("string re-encoding")
}

/// the cast of a string column (any string encoding) to `b`, both modes
fn text_cast_event(t: &mut Shards, rng: &mut Rng, texts: &[String], st: &DataType, b: &DataType, null_pct: usize) {
    let col: Vec<Option<String>> = texts.iter().map(|x| if rng.chance(null_pct) { None } else { Some(x.clone()) }).collect();
    let arr = string_col(&col, st);
    let (arr, via) = if matches!(st, DataType::Dictionary(_, _)) { (arr, "orig") } else { realise(rng, arr) };
    let strict = do_cast(arr.as_ref(), b, false);
    let safe = do_cast(arr.as_ref(), b, true);
    let cls = if strict.cls() == "panic" || safe.cls() == "panic" { "panic" } else { "" };
    let mut ev = json!({"k":"text2v","api":"cast","b":val::tdesc(b),"bn":tok::type_str(b),"src":tok::type_str(st),
        "in":col.iter().map(|x| cps(x.as_deref().unwrap_or(""))).collect::<Vec<_>>(),"iv":col.iter().map(|x| x.is_some() as i64).collect::<Vec<_>>(),
        "via":via,"cls":cls});
    let m = ev.as_object_mut().unwrap();
    put_outcome(m, "s", &strict);
    put_outcome(m, "f", &safe);
    t.emit(ev);
    t.next_episode();
}

/// arrow_cast::parse::Parser::parse row by row
fn text_parse_event(t: &mut Shards, texts: &[String], b: &DataType) {
    use arrow_array::types::*;
    use arrow_cast::parse::Parser;
    macro_rules! go {
        ($T:ty) => {{
            let rows: Vec<Row> = texts.iter().map(|s| guarded(|| <$T as Parser>::parse(s)).ok().flatten().map(|v| vec![v.to_string().parse::<BigInt>().unwrap()])).collect();
            rows
        }};
    }
    use DataType::*;
    let rows: Vec<Row> = match b {
        Int8 => go!(Int8Type),
        Int16 => go!(Int16Type),
        Int32 => go!(Int32Type),
        Int64 => go!(Int64Type),
        UInt8 => go!(UInt8Type),
        UInt16 => go!(UInt16Type),
        UInt32 => go!(UInt32Type),
        UInt64 => go!(UInt64Type),
        Duration(TimeUnit::Second) => go!(DurationSecondType),
        Duration(TimeUnit::Millisecond) => go!(DurationMillisecondType),
        Duration(TimeUnit::Microsecond) => go!(DurationMicrosecondType),
        Duration(TimeUnit::Nanosecond) => go!(DurationNanosecondType),
        Time32(TimeUnit::Second) => go!(Time32SecondType),
        Time32(_) => go!(Time32MillisecondType),
        Time64(TimeUnit::Microsecond) => go!(Time64MicrosecondType),
        Time64(_) => go!(Time64NanosecondType),
        _ => return,
    };
    t.emit(json!({"k":"text2v","api":"parse","b":val::tdesc(b),"bn":tok::type_str(b),"src":"str",
        "in":texts.iter().map(|x| cps(x)).collect::<Vec<_>>(),"iv":vec![1; texts.len()],"via":"","cls":"",
        "f_err":false,"f_out":val::rows_json(b, &rows),"f_ov":val::valid_json(&rows)}));
    t.next_episode();
}

/// every string of length <= n over the alphabet
fn all_strings(alpha: &[char], n: usize) -> Vec<String> {
    let mut out = vec![String::new()];
    let mut last = vec![String::new()];
    for _ in 0..n {
        let mut next = Vec::with_capacity(last.len() * alpha.len());
        for s in &last {
            for c in alpha {
                let mut x = s.clone();
                x.push(*c);
                next.push(x);
            }
        }
        out.extend(next.iter().cloned());
        last = next;
    }
    out
}

/// a numeral decorated with whitespace and with junk at the start, in the middle and at the end
fn decorate(num: &str) -> Vec<String> {
    let mut v = vec![num.to_string()];
    let mid = num.len() / 2 + if num.starts_with('-') { 1 } else { 0 };
    let mid = mid.min(num.len());
    for junk in [".", "x", ":", "e", " ", "-", "+", "0", ".5", "_", ","] {
        v.push(format!("{junk}{num}"));
        v.push(format!("{num}{junk}"));
        v.push(format!("{}{junk}{}", &num[..mid], &num[mid..]));
    }
    let plain = v.clone();
    for s in &plain {
        v.push(format!(" {s}"));
        v.push(format!("{s} "));
        v.push(format!("\t{s}\n"));
        v.push(format!("  {s}\r\n"));
    }
    v.push(format!("+{num}"));
    v.push(format!(" +{num}"));
    v.push(format!("000{}", num.trim_start_matches('-')));
    v.push(format!("\u{a0}{num}"));
    v.push(format!("{num}\u{b}"));
    v.push(format!("{num}.0"));
    v.push(format!("{num}.49"));
    v.push(format!("{num}.5"));
    v.push(format!(" {num}.5"));
    v.push(format!("{num}e0"));
    v
}

fn boundary_numerals() -> Vec<String> {
    let mut v: Vec<BigInt> = vec![];
    for w in [8u32, 16, 32, 64] {
        for (lo, hi) in [(-pow2(w - 1), pow2(w - 1) - 1), (BigInt::zero(), pow2(w) - 1)] {
            for c in [lo, hi] {
                for d in -1..=1 {
                    v.push(&c + d);
                }
            }
        }
    }
    for k in [1u32, 2, 3, 5, 9, 10, 18, 19, 20, 38] {
        let p = BigInt::from(10).pow(k);
        v.push(p.clone());
        v.push(&p - 1);
        v.push(-p);
    }
    v.sort();
    v.dedup();
    v.iter().map(|x| x.to_string()).collect()
}

fn text_to_value(t: &mut Shards, rng: &mut Rng, args: &Args) {
    use DataType::*;
    let utf8 = [Utf8, LargeUtf8, Utf8View, Dictionary(Box::new(Int32), Box::new(Utf8))];
    let int_targets_quick = [Int8, UInt8, Int32, UInt64];
    let all_ints = [Int8, Int16, Int32, Int64, UInt8, UInt16, UInt32, UInt64];
    let durations = [Duration(TimeUnit::Second), Duration(TimeUnit::Millisecond), Duration(TimeUnit::Microsecond), Duration(TimeUnit::Nanosecond)];
    let decs = [Decimal32(5, 2), Decimal128(38, 10), Decimal64(18, 0)];
    // (1) the exhaustive small universe
    let alpha = [' ', '\t', '+', '-', '0', '1', '9', '.', 'e', 'x', ':'];
    let uni = all_strings(&alpha, 4);
    let int_targets: Vec<DataType> = if args.thorough() { all_ints.to_vec() } else { int_targets_quick.to_vec() };
    for chunk in uni.chunks(256) {
        for b in &int_targets {
            text_cast_event(t, rng, chunk, &Utf8, b, 0);
        }
        text_cast_event(t, rng, chunk, &Utf8, &decs[0], 0);
        if args.thorough() {
            text_cast_event(t, rng, chunk, &Utf8View, &Int16, 5);
            text_cast_event(t, rng, chunk, &LargeUtf8, &decs[1], 5);
            text_parse_event(t, chunk, &Int64);
            text_parse_event(t, chunk, &durations[3]);
        } else if rng.chance(25) {
            text_parse_event(t, chunk, rng.pick(&all_ints));
            text_parse_event(t, chunk, rng.pick(&durations));
        }
    }
    // (2) boundary numerals of every width, decorated
    let mut texts: Vec<String> = vec![];
    for n in boundary_numerals() {
        texts.extend(decorate(&n));
    }
    texts.sort();
    texts.dedup();
    let step = if args.thorough() { 1 } else { 3 };
    for (ci, chunk) in texts.chunks(128).enumerate() {
        for (bi, b) in all_ints.iter().enumerate() {
            if (ci + bi) % step == 0 {
                let st = &utf8[(ci + bi) % utf8.len()];
                text_cast_event(t, rng, chunk, st, b, if ci % 2 == 0 { 0 } else { 10 });
            }
            if (ci + bi) % (2 * step) == 0 {
                text_parse_event(t, chunk, b);
            }
        }
        for (bi, b) in durations.iter().enumerate() {
            if (ci + bi) % step == 0 {
                text_parse_event(t, chunk, b);
            }
        }
        for (bi, b) in decs.iter().enumerate() {
            if (ci + bi) % step == 0 {
                text_cast_event(t, rng, chunk, &utf8[(ci + bi) % utf8.len()], b, 5);
            }
        }
    }
    // (3) booleans: every string of length <= 3 over the letters of the accepted words, and mutations of the words
    let balpha = ['t', 'r', 'u', 'e', 'f', 'a', 'l', 's', 'y', 'n', 'o', '0', '1', ' ', 'T', 'F'];
    let mut btexts = all_strings(&balpha, if args.thorough() { 3 } else { 2 });
    for w in ["true", "false", "yes", "no", "on", "off", "1", "0", "t", "f", "y", "n", "tr", "tru", "fa", "fal", "fals", "ye", "of"] {
        for d in [w.to_string(), w.to_uppercase(), format!(" {w} "), format!("\t{w}"), format!("{w}\u{a0}"), format!("{w}e"), format!("{w}1"), format!("x{w}"), format!("{}", &w[..w.len() - 1]), format!("{w} x"), format!("{w}\u{212a}")] {
            btexts.push(d);
        }
    }
    btexts.sort();
    btexts.dedup();
    for (ci, chunk) in btexts.chunks(256).enumerate() {
        text_cast_event(t, rng, chunk, &utf8[ci % utf8.len()], &Boolean, if ci % 2 == 0 { 0 } else { 8 });
    }
    // (4) times of day: the documented forms and their neighbourhoods
    let mut ttexts: Vec<String> = vec![];
    let hours = ["0", "1", "9", "00", "01", "09", "10", "11", "12", "13", "19", "23", "24", "29", "99", "1x", ""];
    let mins = ["00", "01", "59", "60", "5", "0x", "99"];
    let secs = ["", ":00", ":59", ":60", ":61", ":5", ":0x", ":30.", ":30.5", ":30.123456789", ":30.1234567891", ":30.12x", ":59.999999999", ":60.5", ".5"];
    let sufs = ["", " AM", " PM", " am", " pM", "AM", " A", " AM ", "  PM"];
    for h in hours {
        for m in mins {
            for s in secs {
                for x in sufs {
                    if args.thorough() || rng.chance(30) {
                        ttexts.push(format!("{h}:{m}{s}{x}"));
                    }
                }
            }
        }
    }
    for n in ["0", "1", "-1", "+5", " 5", "5 ", "86399", "86400", "2147483647", "2147483648", "-2147483649", "9223372036854775807", "9223372036854775808", "12", "1230", "12:3", ":30", "1:", "", "12.30", "12:30:", "12:30:4", "1:2:3"] {
        ttexts.push(n.to_string());
    }
    ttexts.sort();
    ttexts.dedup();
    let times = [Time32(TimeUnit::Second), Time32(TimeUnit::Millisecond), Time64(TimeUnit::Microsecond), Time64(TimeUnit::Nanosecond)];
    for (ci, chunk) in ttexts.chunks(128).enumerate() {
        for (bi, b) in times.iter().enumerate() {
            text_cast_event(t, rng, chunk, &utf8[(ci + bi) % utf8.len()], b, if ci % 2 == 0 { 0 } else { 8 });
            if (ci + bi) % 2 == 0 {
                text_parse_event(t, chunk, b);
            }
        }
    }
}

// ------------------------------------------------------------------- K6
fn type_zoo(rng: &mut Rng, extra: usize) -> Vec<DataType> {
    use DataType::*;
    let mut v = grid();
    v.extend(mk::all_types());
    let names = ["", "a", "item", "with space", "quo\"te", "back\\slash", "comma,colon:", "paren(s)", "ünï", "non-null", "'single'", "new\nline"];
    let tzs = ["UTC", "+00:00", "-11:30", "Europe/Paris", "weird \"tz\"", ""];
    for n in names {
        v.push(Struct(Fields::from(vec![Field::new(n, Int32, false), Field::new("x", Utf8, true)])));
        v.push(List(fld(n, Int8, true)));
        v.push(LargeList(fld(n, Boolean, false)));
        v.push(FixedSizeList(fld(n, Float16, true), 3));
        v.push(ListView(fld(n, Utf8View, false)));
        v.push(LargeListView(fld(n, Date32, true)));
        v.push(Map(fld(n, Struct(Fields::from(vec![Field::new("k", Utf8, false), Field::new("v", Int32, true)])), false), true));
        v.push(RunEndEncoded(fld(n, Int64, false), fld("vals", Utf8, true)));
    }
    for tz in tzs {
        for u in [TimeUnit::Second, TimeUnit::Nanosecond] {
            v.push(Timestamp(u, Some(tz.into())));
        }
    }
    v.extend([Struct(Fields::empty()), FixedSizeBinary(0), FixedSizeBinary(i32::MAX), Decimal32(1, -5), Decimal64(18, 18), Decimal128(38, -128), Decimal256(76, 76), Decimal128(1, 0)]);
    v.push(Union(UnionFields::try_new(vec![5, 127], vec![Field::new("a", Int32, false), Field::new("b", List(fld("item", Utf8, true)), true)]).unwrap(), UnionMode::Dense));
    v.push(Union(UnionFields::empty(), UnionMode::Sparse));
    // random nesting
    let base = v.clone();
    for _ in 0..extra {
        let mut t = rng.pick(&base).clone();
        for _ in 0..(1 + rng.below(3)) {
            let name = *rng.pick(&names);
            let nullable = rng.chance(50);
            t = match rng.below(7) {
                0 => List(fld(name, t, nullable)),
                1 => LargeList(fld(name, t, nullable)),
                2 => FixedSizeList(fld(name, t, nullable), rng.below(4) as i32),
                3 => Struct(Fields::from(vec![Field::new(name, t, nullable), Field::new("other", rng.pick(&base).clone(), true)])),
                4 => Dictionary(Box::new(rng.pick(&[Int8, Int16, Int32, Int64, UInt8, UInt16, UInt32, UInt64]).clone()), Box::new(t)),
                5 => ListView(fld(name, t, nullable)),
                _ => Map(fld("entries", Struct(Fields::from(vec![Field::new("key", Utf8, false), Field::new("value", t, nullable)])), false), rng.chance(50)),
            };
        }
        v.push(t);
    }
    v
}

fn has_metadata(_dt: &DataType) -> bool {
    false // the zoo builds no field metadata (the parser documents it as unsupported)
}

fn odd_name(s: &str) -> bool {
    s.is_empty() || s.chars().any(|c| c == '"' || c == '\'' || c == '\\' || c.is_control())
}

/// some field name or time zone of the type is empty or contains a quote, a backslash or a control character
fn special_names(dt: &DataType) -> bool {
    use DataType::*;
    let f = |f: &Field| odd_name(f.name()) || special_names(f.data_type());
    match dt {
        Timestamp(_, Some(tz)) => odd_name(tz),
        List(x) | LargeList(x) | ListView(x) | LargeListView(x) | FixedSizeList(x, _) | Map(x, _) => f(x),
        Struct(fs) => fs.iter().any(|x| f(x)),
        Union(fs, _) => fs.iter().any(|(_, x)| f(x)),
        Dictionary(k, v) => special_names(k) || special_names(v),
        RunEndEncoded(r, v) => f(r) || f(v),
        _ => false,
    }
}

fn dtype_event(t: &mut Shards, dt: &DataType) {
    if has_metadata(dt) {
        return;
    }
    let s = match guarded(|| format!("{dt}")) {
        Ok(s) => s,
        Err(p) => {
            t.emit(json!({"k":"dtype","s":"","dbg":tok::type_str(dt),"ok":false,"same":false,"special":special_names(dt),"note":format!("Display panicked: {p}")}));
            return;
        }
    };
    let parsed = guarded(|| s.parse::<DataType>());
    let (ok, same, note) = match parsed {
        Ok(Ok(p)) => (true, &p == dt, if &p == dt { String::new() } else { format!("parsed as {p:?}") }),
        Ok(Err(e)) => (false, false, e.to_string()),
        Err(p) => (false, false, format!("FromStr panicked: {p}")),
    };
    t.emit(json!({"k":"dtype","s":s,"dbg":tok::type_str(dt),"ok":ok,"same":same,"special":special_names(dt),"note":note.chars().take(200).collect::<String>()}));
    t.next_episode();
}

/// deterministic corner cases: the minimal reproductions of the known findings
fn corners(t: &mut Shards, rng: &mut Rng, args: &Args) {
    use DataType::*;
    // Decimal256 -> Int64: 2^64 is not representable; i256::to_i64 answers Some(0)
    let c = col_of(rng, &Decimal256(76, 0), &["18446744073709551616".parse::<BigInt>().unwrap(), BigInt::from(7)], 0);
    castx_fixed(t, &c, &Int64);
    // Date64 3000-01-01 -> Timestamp(ns): x * 1_000_000 is not checked
    let c = col_of(rng, &Date64, &[BigInt::from(32_503_680_000_000i64), BigInt::from(86_400_000)], 0);
    castx_fixed(t, &c, &Timestamp(TimeUnit::Nanosecond, None));
    // Timestamp(s) far in the future -> Date32, safe mode: an error instead of a null
    let c = col_of(rng, &Timestamp(TimeUnit::Second, None), &[BigInt::from(i64::MAX), BigInt::from(86_400)], 0);
    castx_fixed(t, &c, &Date32);
    // a dictionary whose unreferenced value does not parse
    let keys = Int8Array::from(vec![0, 0]);
    let values = StringArray::from(vec!["1", "x"]);
    let d: ArrayRef = Arc::new(DictionaryArray::new(keys, Arc::new(values)));
    castg_on(t, d, "corner-dict-unreferenced", &Int32);
    // a binary column sliced so that the invalid UTF-8 byte is outside the visible rows
    let b: ArrayRef = Arc::new(BinaryArray::from(vec![&b"\xff"[..], &b"a"[..]]));
    castg_on(t, b.slice(1, 1), "corner-binary-slice", &Utf8);
    let _ = args;
}

fn castx_fixed(t: &mut Shards, col: &Col, b: &DataType) {
    let a = &col.dt;
    let arr = col.build();
    let strict = do_cast(arr.as_ref(), b, false);
    let safe = do_cast(arr.as_ref(), b, true);
    let mut ev = json!({"k":"castx","a":val::tdesc(a),"b":val::tdesc(b),"in":col.values_json(),"iv":col.valid(),"via":"corner","cls":"",
        "an":tok::type_str(a),"bn":tok::type_str(b)});
    let m = ev.as_object_mut().unwrap();
    put_outcome(m, "s", &strict);
    put_outcome(m, "f", &safe);
    t.emit(ev);
    t.next_episode();
}

fn main() {
    let args = Args::parse();
    vcore::quiet_panics();
    let mut rng = Rng::new(args.seed);
    let mut t = Shards::create(&args.out, "cast", 14);
    let part = args.extra.first().cloned().unwrap_or_default();
    let want = |p: &str| part.is_empty() || part == p;
    let g = grid();
    if want("castx") || want("castg") {
        corners(&mut t, &mut rng, &args);
    }
    let mut n_pairs = 0;
    let mut n_can = 0;
    for a in &g {
        for b in &g {
            if a == b {
                continue;
            }
            n_pairs += 1;
            let before = t.shards.iter().map(|s| s.events).sum::<usize>();
            let usable = if want("pair") || want("castx") || want("castg") || want("reenc") { pair_event(&mut t, &mut rng, a, b) } else { false };
            let _ = before;
            if !usable {
                continue;
            }
            n_can += 1;
            if want("castx") && exact_pair(a, b) {
                castx_events(&mut t, &mut rng, &args, a, b);
            } else if want("castg") && flat(a) && flat(b) && !exact_pair(a, b) {
                for _ in 0..args.scale(1, 8) {
                    castg_event(&mut t, &mut rng, a, b, 12);
                }
            }
            if want("reenc") {
                reenc_event(&mut t, &mut rng, a, b);
            }
        }
    }
    if want("text") {
        for dt in text_types() {
            for st in [DataType::Utf8, DataType::LargeUtf8, DataType::Utf8View] {
                for _ in 0..args.scale(2, 30) {
                    text_event(&mut t, &mut rng, &dt, &st);
                }
            }
        }
    }
    if want("text2v") {
        text_to_value(&mut t, &mut rng, &args);
    }
    if want("dtype") {
        for dt in type_zoo(&mut rng, args.scale(300, 8000)) {
            dtype_event(&mut t, &dt);
        }
    }
    let total = t.finish();
    println!("DRIVER c13 type_pairs={n_pairs} castable_pairs={n_can} events={total}");
}
