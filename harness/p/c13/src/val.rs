//! Column model of the C13 driver (same model as the C12 driver): a column is a data type plus, per row, the
//! integer fields of the value (one field for integers, decimals, timestamps,
//! durations, dates; two / three for the day-time / month-day-nano intervals)
//! or null.  Used to build the input arrays (with chosen garbage under null
//! slots) and to project inputs and outputs to the wire encoding read by TLC.
//! No arithmetic on values happens here.
use arrow_array::cast::AsArray;
use arrow_array::types::*;
use arrow_array::*;
use arrow_buffer::{i256, IntervalDayTime, IntervalMonthDayNano, NullBuffer};
use arrow_schema::{DataType, IntervalUnit, TimeUnit};
use num_bigint::BigInt;
use num_traits::ToPrimitive;
use std::sync::Arc;
use vcore::{big, json, Value};

pub type Row = Option<Vec<BigInt>>;

#[derive(Clone)]
pub struct Col {
    pub dt: DataType,
    pub rows: Vec<Row>,
    /// physical content of the null slots
    pub under: Vec<Vec<BigInt>>,
    /// keep a validity buffer even without nulls
    pub keep_validity: bool,
}

/// (width, signed) of every integer field of a value of this type; None = not an integer-like type
pub fn fields(dt: &DataType) -> Option<Vec<(u32, bool)>> {
    use DataType::*;
    Some(match dt {
        Boolean => vec![(1, false)],
        Int8 => vec![(8, true)],
        Int16 => vec![(16, true)],
        Int32 => vec![(32, true)],
        Int64 => vec![(64, true)],
        UInt8 => vec![(8, false)],
        UInt16 => vec![(16, false)],
        UInt32 => vec![(32, false)],
        UInt64 => vec![(64, false)],
        Decimal32(_, _) => vec![(32, true)],
        Decimal64(_, _) => vec![(64, true)],
        Decimal128(_, _) => vec![(128, true)],
        Decimal256(_, _) => vec![(256, true)],
        Date32 | Time32(_) | Interval(IntervalUnit::YearMonth) => vec![(32, true)],
        Date64 | Time64(_) | Timestamp(_, _) | Duration(_) => vec![(64, true)],
        Interval(IntervalUnit::DayTime) => vec![(32, true), (32, true)],
        Interval(IntervalUnit::MonthDayNano) => vec![(32, true), (32, true), (64, true)],
        _ => return None,
    })
}

fn unit(u: &TimeUnit) -> &'static str {
    match u {
        TimeUnit::Second => "s",
        TimeUnit::Millisecond => "ms",
        TimeUnit::Microsecond => "us",
        TimeUnit::Nanosecond => "ns",
    }
}

/// the type record [f, w, sg, p, s, u, tz] of the specification
pub fn tdesc(dt: &DataType) -> Value {
    use DataType::*;
    let t = |f: &str, w: u32, sg: u32, p: i64, s: i64, u: &str, tz: &str| json!({"f":f,"w":w,"sg":sg,"p":p,"s":s,"u":u,"tz":tz,"tzo":tz_offset(tz)});
    match dt {
        Int8 | Int16 | Int32 | Int64 => t("int", fields(dt).unwrap()[0].0, 1, 0, 0, "", ""),
        UInt8 | UInt16 | UInt32 | UInt64 => t("int", fields(dt).unwrap()[0].0, 0, 0, 0, "", ""),
        Float16 => t("flt", 16, 1, 0, 0, "", ""),
        Float32 => t("flt", 32, 1, 0, 0, "", ""),
        Float64 => t("flt", 64, 1, 0, 0, "", ""),
        Decimal32(p, s) => t("dec", 32, 1, *p as i64, *s as i64, "", ""),
        Decimal64(p, s) => t("dec", 64, 1, *p as i64, *s as i64, "", ""),
        Decimal128(p, s) => t("dec", 128, 1, *p as i64, *s as i64, "", ""),
        Decimal256(p, s) => t("dec", 256, 1, *p as i64, *s as i64, "", ""),
        Date32 => t("date32", 32, 1, 0, 0, "", ""),
        Date64 => t("date64", 64, 1, 0, 0, "", ""),
        Time32(u) => t("time32", 32, 1, 0, 0, unit(u), ""),
        Time64(u) => t("time64", 64, 1, 0, 0, unit(u), ""),
        Timestamp(u, tz) => t("ts", 64, 1, 0, 0, unit(u), tz.as_deref().unwrap_or("")),
        Duration(u) => t("dur", 64, 1, 0, 0, unit(u), ""),
        Interval(IntervalUnit::YearMonth) => t("ym", 32, 1, 0, 0, "", ""),
        Interval(IntervalUnit::DayTime) => t("dt", 64, 1, 0, 0, "", ""),
        Interval(IntervalUnit::MonthDayNano) => t("mdn", 128, 1, 0, 0, "", ""),
        Boolean => t("bool", 1, 0, 0, 0, "", ""),
        other => t(&format!("other:{other}"), 0, 0, 0, 0, "", ""),
    }
}

/// seconds east of UTC of a fixed-offset zone "+hh:mm" / "-hh:mm" ("" and anything else: 0)
pub fn tz_offset(tz: &str) -> i64 {
    let b = tz.as_bytes();
    if b.len() == 6 && (b[0] == b'+' || b[0] == b'-') && b[3] == b':' {
        let h: i64 = tz[1..3].parse().unwrap_or(0);
        let m: i64 = tz[4..6].parse().unwrap_or(0);
        let s = h * 3600 + m * 60;
        if b[0] == b'-' { -s } else { s }
    } else {
        0
    }
}

pub fn small(dt: &DataType) -> bool {
    let _ = dt;
    false
}

fn to_i256(x: &BigInt) -> i256 {
    i256::from_string(&x.to_string()).expect("i256 range")
}

impl Col {
    pub fn new(dt: &DataType, rows: Vec<Row>) -> Col {
        let nf = fields(dt).map(|f| f.len()).unwrap_or(1);
        let under = rows.iter().map(|_| vec![BigInt::from(0); nf]).collect();
        Col { dt: dt.clone(), rows, under, keep_validity: false }
    }
    pub fn len(&self) -> usize {
        self.rows.len()
    }
    pub fn valid(&self) -> Vec<i64> {
        self.rows.iter().map(|r| r.is_some() as i64).collect()
    }
    pub fn null_count(&self) -> usize {
        self.rows.iter().filter(|r| r.is_none()).count()
    }
    /// physical fields of row i (the garbage when null)
    fn phys(&self, i: usize) -> &Vec<BigInt> {
        self.rows[i].as_ref().unwrap_or(&self.under[i])
    }
    pub fn slice(&self, o: usize, n: usize) -> Col {
        Col { dt: self.dt.clone(), rows: self.rows[o..o + n].to_vec(), under: self.under[o..o + n].to_vec(), keep_validity: self.keep_validity }
    }

    /// the Arrow array (canonical layout; callers re-lay it out with vcore::mutate)
    pub fn build(&self) -> ArrayRef {
        use DataType::*;
        let n = self.len();
        let nulls = if self.null_count() > 0 || self.keep_validity {
            Some(NullBuffer::from(self.rows.iter().map(|r| r.is_some()).collect::<Vec<bool>>()))
        } else {
            None
        };
        macro_rules! prim {
            ($T:ty, $conv:expr) => {{
                let vals: Vec<<$T as ArrowPrimitiveType>::Native> = (0..n).map(|i| $conv(&self.phys(i)[0])).collect();
                Arc::new(PrimitiveArray::<$T>::new(vals.into(), nulls).with_data_type(self.dt.clone())) as ArrayRef
            }};
        }
        let i32c = |x: &BigInt| x.to_i32().expect("i32");
        let i64c = |x: &BigInt| x.to_i64().expect("i64");
        match &self.dt {
            Boolean => {
                let vals: Vec<bool> = (0..n).map(|i| self.phys(i)[0] != BigInt::from(0)).collect();
                Arc::new(BooleanArray::new(arrow_buffer::BooleanBuffer::from(vals), nulls))
            }
            Int8 => prim!(Int8Type, |x: &BigInt| x.to_i8().expect("i8")),
            Int16 => prim!(Int16Type, |x: &BigInt| x.to_i16().expect("i16")),
            Int32 => prim!(Int32Type, i32c),
            Int64 => prim!(Int64Type, i64c),
            UInt8 => prim!(UInt8Type, |x: &BigInt| x.to_u8().expect("u8")),
            UInt16 => prim!(UInt16Type, |x: &BigInt| x.to_u16().expect("u16")),
            UInt32 => prim!(UInt32Type, |x: &BigInt| x.to_u32().expect("u32")),
            UInt64 => prim!(UInt64Type, |x: &BigInt| x.to_u64().expect("u64")),
            Decimal32(_, _) => prim!(Decimal32Type, i32c),
            Decimal64(_, _) => prim!(Decimal64Type, i64c),
            Decimal128(_, _) => prim!(Decimal128Type, |x: &BigInt| x.to_i128().expect("i128")),
            Decimal256(_, _) => prim!(Decimal256Type, to_i256),
            Date32 => prim!(Date32Type, i32c),
            Date64 => prim!(Date64Type, i64c),
            Time32(TimeUnit::Second) => prim!(Time32SecondType, i32c),
            Time32(_) => prim!(Time32MillisecondType, i32c),
            Time64(TimeUnit::Microsecond) => prim!(Time64MicrosecondType, i64c),
            Time64(_) => prim!(Time64NanosecondType, i64c),
            Timestamp(TimeUnit::Second, _) => prim!(TimestampSecondType, i64c),
            Timestamp(TimeUnit::Millisecond, _) => prim!(TimestampMillisecondType, i64c),
            Timestamp(TimeUnit::Microsecond, _) => prim!(TimestampMicrosecondType, i64c),
            Timestamp(TimeUnit::Nanosecond, _) => prim!(TimestampNanosecondType, i64c),
            Duration(TimeUnit::Second) => prim!(DurationSecondType, i64c),
            Duration(TimeUnit::Millisecond) => prim!(DurationMillisecondType, i64c),
            Duration(TimeUnit::Microsecond) => prim!(DurationMicrosecondType, i64c),
            Duration(TimeUnit::Nanosecond) => prim!(DurationNanosecondType, i64c),
            Interval(IntervalUnit::YearMonth) => prim!(IntervalYearMonthType, i32c),
            Interval(IntervalUnit::DayTime) => {
                let vals: Vec<IntervalDayTime> = (0..n).map(|i| { let f = self.phys(i); IntervalDayTime::new(i32c(&f[0]), i32c(&f[1])) }).collect();
                Arc::new(PrimitiveArray::<IntervalDayTimeType>::new(vals.into(), nulls))
            }
            Interval(IntervalUnit::MonthDayNano) => {
                let vals: Vec<IntervalMonthDayNano> =
                    (0..n).map(|i| { let f = self.phys(i); IntervalMonthDayNano::new(i32c(&f[0]), i32c(&f[1]), i64c(&f[2])) }).collect();
                Arc::new(PrimitiveArray::<IntervalMonthDayNanoType>::new(vals.into(), nulls))
            }
            other => panic!("Col::build: {other}"),
        }
    }

    /// values on the wire (fillers under nulls)
    pub fn values_json(&self) -> Value {
        rows_json(&self.dt, &self.rows)
    }
}

/// logical rows of an integer-like array, read through the public accessors
pub fn big_rows(a: &dyn Array) -> Vec<Row> {
    use DataType::*;
    let n = a.len();
    macro_rules! prim {
        ($T:ty) => {{
            let p = a.as_primitive::<$T>();
            (0..n).map(|i| if p.is_null(i) { None } else { Some(vec![p.value(i).to_string().parse::<BigInt>().unwrap()]) }).collect()
        }};
    }
    match a.data_type() {
        Boolean => {
            let p = a.as_boolean();
            (0..n).map(|i| if p.is_null(i) { None } else { Some(vec![BigInt::from(p.value(i) as i32)]) }).collect()
        }
        Int8 => prim!(Int8Type),
        Int16 => prim!(Int16Type),
        Int32 => prim!(Int32Type),
        Int64 => prim!(Int64Type),
        UInt8 => prim!(UInt8Type),
        UInt16 => prim!(UInt16Type),
        UInt32 => prim!(UInt32Type),
        UInt64 => prim!(UInt64Type),
        Decimal32(_, _) => prim!(Decimal32Type),
        Decimal64(_, _) => prim!(Decimal64Type),
        Decimal128(_, _) => prim!(Decimal128Type),
        Decimal256(_, _) => prim!(Decimal256Type),
        Date32 => prim!(Date32Type),
        Date64 => prim!(Date64Type),
        Time32(TimeUnit::Second) => prim!(Time32SecondType),
        Time32(_) => prim!(Time32MillisecondType),
        Time64(TimeUnit::Microsecond) => prim!(Time64MicrosecondType),
        Time64(_) => prim!(Time64NanosecondType),
        Timestamp(TimeUnit::Second, _) => prim!(TimestampSecondType),
        Timestamp(TimeUnit::Millisecond, _) => prim!(TimestampMillisecondType),
        Timestamp(TimeUnit::Microsecond, _) => prim!(TimestampMicrosecondType),
        Timestamp(TimeUnit::Nanosecond, _) => prim!(TimestampNanosecondType),
        Duration(TimeUnit::Second) => prim!(DurationSecondType),
        Duration(TimeUnit::Millisecond) => prim!(DurationMillisecondType),
        Duration(TimeUnit::Microsecond) => prim!(DurationMicrosecondType),
        Duration(TimeUnit::Nanosecond) => prim!(DurationNanosecondType),
        Interval(IntervalUnit::YearMonth) => prim!(IntervalYearMonthType),
        Interval(IntervalUnit::DayTime) => {
            let p = a.as_primitive::<IntervalDayTimeType>();
            (0..n).map(|i| if p.is_null(i) { None } else { let v = p.value(i); Some(vec![BigInt::from(v.days), BigInt::from(v.milliseconds)]) }).collect()
        }
        Interval(IntervalUnit::MonthDayNano) => {
            let p = a.as_primitive::<IntervalMonthDayNanoType>();
            (0..n)
                .map(|i| if p.is_null(i) { None } else { let v = p.value(i); Some(vec![BigInt::from(v.months), BigInt::from(v.days), BigInt::from(v.nanoseconds)]) })
                .collect()
        }
        other => panic!("big_rows: {other}"),
    }
}

fn one(dt: &DataType, f: &[BigInt]) -> Value {
    if small(dt) {
        json!(f[0].to_i64().unwrap())
    } else if f.len() == 1 {
        big::wire(&f[0])
    } else {
        Value::Array(f.iter().map(big::wire).collect())
    }
}

pub fn filler(dt: &DataType) -> Value {
    let nf = fields(dt).map(|f| f.len()).unwrap_or(1);
    one(dt, &vec![BigInt::from(0); nf])
}

/// rows on the wire: TLC integers for 8/16-bit integer types, limb sequences otherwise
pub fn rows_json(dt: &DataType, rows: &[Row]) -> Value {
    Value::Array(rows.iter().map(|r| match r { Some(f) => one(dt, f), None => filler(dt) }).collect())
}

pub fn valid_json(rows: &[Row]) -> Value {
    Value::Array(rows.iter().map(|r| json!(r.is_some() as i64)).collect())
}

/// always limb-encoded (aggregates)
pub fn wires_json(rows: &[Row]) -> Value {
    Value::Array(rows.iter().map(|r| match r { Some(f) => big::wire(&f[0]), None => big::wire(0) }).collect())
}
