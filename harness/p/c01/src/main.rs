fn main() {}
