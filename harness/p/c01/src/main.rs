//! C01 driver: finite pipelines (depth 1..3) of safe calls that return arrays / record
//! batches.  After every stage the result is dumped physically (`vcore::dump::to_layout`)
//! and written as a `produced` / `batch` event; Trace_Outputs.tla (TLC) judges every one
//! with the independent validator of ArrowLayout.tla.  No expectation is computed here.
//!
//! Stage 1 (sources): typed constructors / From / FromIterator (`vcore::mk`), builders'
//! finish() / finish_cloned() incl. builder reuse, new_null_array, new_empty_array,
//! make_array(to_data), ArrayData::new_null, the layout mutators (`vcore::mutate`),
//! ArrayData::slice, CSV / JSON readers on generated text, and builder *histories*
//! (builders.rs: all append-style operations of every builder family, exhaustively up to
//! depth 2-3 on a fresh builder and randomly beyond, interleaved with finish / finish_cloned).
//! Stages 2..3 (steps): filter, take, concat, interleave, zip, nullif, shift, slice,
//! dictionary gc, union_extract, cast (arrow-cast, every castable target of the zoo),
//! arithmetic / boolean / temporal kernels (arrow-arith), sort / sort_limit / take by sort
//! indices / comparisons (arrow-ord), substring / concat_elements / length / like
//! (arrow-string), row format round trip (arrow-row), IPC stream and file round trip
//! (arrow-ipc), CSV and JSON write -> read (arrow-csv, arrow-json), record-batch
//! slice / project / concat_batches / filter_record_batch / take_record_batch.
mod builders;

use arrow_array::builder::*;
use arrow_array::cast::AsArray;
use arrow_array::types::*;
use arrow_array::*;
use arrow_data::ArrayData;
use arrow_schema::{ArrowError, DataType, Field, Fields, Schema, SchemaRef, TimeUnit};
use std::sync::Arc;
use vcore::mk::{self, Cfg};
use vcore::trace::Shards;
use vcore::{dump, guarded, json, mutate, Args, Rng};

struct Ctx {
    t: Shards,
    pipe: usize,
    arrays: usize,
    batches: usize,
    skipped_big: usize,
    errors: usize,
    panics: usize,
    panic_msgs: std::collections::BTreeMap<String, usize>,
    max_rows: usize,
}

impl Ctx {
    fn note_panic(&mut self, p: &str) {
        self.panics += 1;
        *self.panic_msgs.entry(p.chars().take(90).collect::<String>().replace('\n', " ")).or_insert(0) += 1;
    }
    fn produced(&mut self, api: &str, stage: usize, a: &ArrayRef) {
        let d = match guarded(|| a.to_data()) {
            Ok(d) => d,
            Err(_) => {
                self.panics += 1;
                return;
            }
        };
        self.produced_data(api, stage, &d);
    }
    fn produced_data(&mut self, api: &str, stage: usize, d: &ArrayData) {
        let v = dump::to_layout(d);
        if dump::weight(&v) > 40_000 {
            self.skipped_big += 1;
            return;
        }
        let api: String = api.chars().take(40).collect();
        self.arrays += 1;
        self.t.emit(json!({"ev": "produced", "api": api, "pipe": format!("p{}", self.pipe), "stage": stage, "d": v}));
    }
    fn batch(&mut self, api: &str, stage: usize, b: &RecordBatch) {
        let cols: Vec<vcore::Value> = b.columns().iter().map(|c| dump::to_layout(&c.to_data())).collect();
        let w: usize = cols.iter().map(dump::weight).sum();
        if w > 60_000 {
            self.skipped_big += 1;
            return;
        }
        let api: String = api.chars().take(40).collect();
        self.batches += 1;
        self.t.emit(json!({"ev": "batch", "api": api, "pipe": format!("p{}", self.pipe), "stage": stage,
            "schema": dump::schema_desc(b.schema_ref()), "cols": cols, "nrows": b.num_rows()}));
    }
}

type R = Result<ArrayRef, ArrowError>;

/// run a kernel; Err / panic are not outputs (a panic is counted)
fn call(cx: &mut Ctx, f: impl FnOnce() -> R) -> Option<ArrayRef> {
    match guarded(f) {
        Ok(Ok(a)) => Some(a),
        Ok(Err(_)) => {
            cx.errors += 1;
            None
        }
        Err(p) => {
            cx.note_panic(&p);
            None
        }
    }
}

/// a random array of the type of a pipeline value (None where vcore::mk cannot make one)
fn gen_array(rng: &mut Rng, dt: &DataType, n: usize, null_pct: usize) -> Option<ArrayRef> {
    guarded(|| mk::array(rng, dt, n, Cfg::wild(null_pct))).ok()
}

fn rand_mask(rng: &mut Rng, n: usize) -> BooleanArray {
    let v: Vec<Option<bool>> = (0..n).map(|_| if rng.chance(10) { None } else { Some(rng.chance(50)) }).collect();
    BooleanArray::from(v)
}

fn rand_indices(rng: &mut Rng, k: usize, n: usize) -> ArrayRef {
    let v: Vec<Option<u32>> = (0..k).map(|_| if n == 0 || rng.chance(12) { None } else { Some(rng.below(n) as u32) }).collect();
    if rng.chance(50) {
        Arc::new(UInt32Array::from(v))
    } else {
        Arc::new(Int64Array::from(v.into_iter().map(|x| x.map(|y| y as i64)).collect::<Vec<_>>()))
    }
}

// ---------------------------------------------------------------------------- sources

fn builder_source(rng: &mut Rng, n: usize) -> Vec<(String, ArrayRef)> {
    let mut out: Vec<(String, ArrayRef)> = vec![];
    let nul = |rng: &mut Rng| rng.chance(25);
    macro_rules! twice {
        ($name:expr, $b:expr, $fill:expr) => {{
            let mut b = $b;
            for _ in 0..n { $fill(&mut b, rng); }
            if let Ok(a) = guarded(|| Arc::new(b.finish_cloned()) as ArrayRef) { out.push((format!("{}::finish_cloned", $name), a)); }
            if let Ok(a) = guarded(|| Arc::new(b.finish()) as ArrayRef) { out.push((format!("{}::finish", $name), a)); }
            // the builder is reusable after finish() (a panic here is not an output: e.g. PrimitiveRunBuilder
            // keeps prev_run_end_index across finish() and then emits a run end of 0)
            for _ in 0..rng.below(4) { $fill(&mut b, rng); }
            if let Ok(a) = guarded(|| Arc::new(b.finish()) as ArrayRef) { out.push((format!("{}::finish#2", $name), a)); }
        }};
    }
    match rng.below(16) {
        0 => twice!("Int32Builder", Int32Builder::new(), |b: &mut Int32Builder, r: &mut Rng| if nul(r) { b.append_null() } else { b.append_value(r.next() as i32) }),
        1 => twice!("BooleanBuilder", BooleanBuilder::new(), |b: &mut BooleanBuilder, r: &mut Rng| if nul(r) { b.append_null() } else { b.append_value(r.chance(50)) }),
        2 => twice!("StringBuilder", StringBuilder::new(), |b: &mut StringBuilder, r: &mut Rng| if nul(r) { b.append_null() } else { b.append_value(mk::rand_string(r, Cfg::wild(0))) }),
        3 => twice!("LargeBinaryBuilder", LargeBinaryBuilder::new(), |b: &mut LargeBinaryBuilder, r: &mut Rng| if nul(r) { b.append_null() } else { b.append_value(mk::rand_bytes(r)) }),
        4 => twice!("StringViewBuilder", StringViewBuilder::new().with_fixed_block_size(32), |b: &mut StringViewBuilder, r: &mut Rng| if nul(r) { b.append_null() } else { b.append_value(mk::rand_string(r, Cfg::wild(0))) }),
        5 => twice!("BinaryViewBuilder", BinaryViewBuilder::new(), |b: &mut BinaryViewBuilder, r: &mut Rng| if nul(r) { b.append_null() } else { b.append_value(mk::rand_bytes(r)) }),
        6 => twice!("FixedSizeBinaryBuilder", FixedSizeBinaryBuilder::new(3), |b: &mut FixedSizeBinaryBuilder, r: &mut Rng| if nul(r) { b.append_null() } else { b.append_value([r.next() as u8, 1, 2]).unwrap() }),
        7 => twice!("ListBuilder", ListBuilder::new(Int32Builder::new()), |b: &mut ListBuilder<Int32Builder>, r: &mut Rng| {
            if nul(r) { b.append_null() } else { for _ in 0..r.below(4) { if r.chance(20) { b.values().append_null() } else { b.values().append_value(r.below(9) as i32) } } b.append(true) }
        }),
        8 => twice!("LargeListBuilder", LargeListBuilder::new(StringBuilder::new()), |b: &mut LargeListBuilder<StringBuilder>, r: &mut Rng| {
            for _ in 0..r.below(3) { b.values().append_value(mk::rand_string(r, Cfg::tame(0))) }
            let v = !nul(r);
            b.append(v)
        }),
        9 => twice!("FixedSizeListBuilder", FixedSizeListBuilder::new(Int8Builder::new(), 2), |b: &mut FixedSizeListBuilder<Int8Builder>, r: &mut Rng| {
            b.values().append_value(r.next() as i8);
            b.values().append_option(if r.chance(30) { None } else { Some(1) });
            let v = !nul(r);
            b.append(v)
        }),
        10 => twice!("StringDictionaryBuilder", StringDictionaryBuilder::<Int8Type>::new(), |b: &mut StringDictionaryBuilder<Int8Type>, r: &mut Rng| if nul(r) { b.append_null() } else { b.append_value(["a", "b", "é", ""][r.below(4)]) }),
        11 => twice!("PrimitiveDictionaryBuilder", PrimitiveDictionaryBuilder::<UInt16Type, Int64Type>::new(), |b: &mut PrimitiveDictionaryBuilder<UInt16Type, Int64Type>, r: &mut Rng| if nul(r) { b.append_null() } else { b.append_value(r.below(5) as i64) }),
        12 => twice!("PrimitiveRunBuilder", PrimitiveRunBuilder::<Int16Type, Int64Type>::new(), |b: &mut PrimitiveRunBuilder<Int16Type, Int64Type>, r: &mut Rng| if nul(r) { b.append_null() } else { b.append_value(r.below(3) as i64) }),
        13 => twice!("StringRunBuilder", StringRunBuilder::<Int32Type>::new(), |b: &mut StringRunBuilder<Int32Type>, r: &mut Rng| if nul(r) { b.append_null() } else { b.append_value(["x", "y"][r.below(2)]) }),
        14 => twice!("MapBuilder", MapBuilder::new(None, StringBuilder::new(), Int32Builder::new()), |b: &mut MapBuilder<StringBuilder, Int32Builder>, r: &mut Rng| {
            for _ in 0..r.below(3) { b.keys().append_value(mk::rand_string(r, Cfg::tame(0))); b.values().append_option(if r.chance(30) { None } else { Some(7) }); }
            let v = !nul(r);
            b.append(v).unwrap()
        }),
        _ => {
            // struct and union builders
            let fields = Fields::from(vec![Field::new("a", DataType::Int32, true), Field::new("b", DataType::Utf8, true)]);
            let mut b = StructBuilder::from_fields(fields, n);
            for _ in 0..n {
                let v = !rng.chance(25);
                b.field_builder::<Int32Builder>(0).unwrap().append_option(if rng.chance(30) { None } else { Some(3) });
                b.field_builder::<StringBuilder>(1).unwrap().append_value(mk::rand_string(rng, Cfg::tame(0)));
                b.append(v);
            }
            out.push(("StructBuilder::finish_cloned".into(), Arc::new(b.finish_cloned())));
            out.push(("StructBuilder::finish".into(), Arc::new(b.finish())));
            for dense in [true, false] {
                let mut u = if dense { UnionBuilder::new_dense() } else { UnionBuilder::new_sparse() };
                for _ in 0..n {
                    match rng.below(4) {
                        0 => u.append::<Int32Type>("i", rng.next() as i32).unwrap(),
                        1 => u.append::<Float64Type>("f", 1.5).unwrap(),
                        2 => u.append_null::<Int32Type>("i").unwrap(),
                        _ => u.append::<Int64Type>("l", -1).unwrap(),
                    }
                }
                if let Ok(a) = u.build() {
                    out.push((format!("UnionBuilder({})::build", if dense { "dense" } else { "sparse" }), Arc::new(a)));
                }
            }
            out.push(("NullBuilder::finish".into(), { let mut nb = NullBuilder::new(); nb.append_nulls(n); Arc::new(nb.finish()) }));
        }
    }
    out
}

fn from_iter_source(rng: &mut Rng, n: usize) -> Vec<(String, ArrayRef)> {
    let opt_i: Vec<Option<i64>> = (0..n).map(|_| if rng.chance(20) { None } else { Some(rng.next() as i64) }).collect();
    let opt_s: Vec<Option<String>> = (0..n).map(|_| if rng.chance(20) { None } else { Some(mk::rand_string(rng, Cfg::wild(0))) }).collect();
    vec![
        ("Int64Array::from(Vec<Option>)".into(), Arc::new(Int64Array::from(opt_i.clone())) as ArrayRef),
        ("Int64Array::from_iter".into(), Arc::new(opt_i.iter().cloned().collect::<Int64Array>())),
        ("Float32Array::from_iter_values".into(), Arc::new(Float32Array::from_iter_values((0..n).map(|i| i as f32)))),
        ("StringArray::from_iter".into(), Arc::new(opt_s.iter().cloned().collect::<StringArray>())),
        ("LargeStringArray::from(Vec<Option<&str>>)".into(), Arc::new(LargeStringArray::from(opt_s.iter().map(|x| x.as_deref()).collect::<Vec<_>>()))),
        ("StringViewArray::from_iter".into(), Arc::new(opt_s.iter().cloned().collect::<StringViewArray>())),
        ("BinaryArray::from_iter".into(), Arc::new(opt_s.iter().map(|x| x.as_ref().map(|s| s.as_bytes().to_vec())).collect::<BinaryArray>())),
        ("BooleanArray::from(Vec<bool>)".into(), Arc::new(BooleanArray::from((0..n).map(|i| i % 3 == 0).collect::<Vec<_>>()))),
        ("ListArray::from_iter_primitive".into(), Arc::new(ListArray::from_iter_primitive::<Int32Type, _, _>((0..n).map(|i| if i % 4 == 1 { None } else { Some(vec![Some(i as i32), None]) })))),
        ("FixedSizeListArray::from_iter_primitive".into(), Arc::new(FixedSizeListArray::from_iter_primitive::<Int32Type, _, _>((0..n).map(|i| if i % 3 == 1 { None } else { Some(vec![Some(1), None]) }), 2))),
        ("DictionaryArray::from_iter".into(), Arc::new(opt_s.iter().map(|x| x.as_deref()).collect::<DictionaryArray<Int32Type>>())),
        ("RunArray::from_iter".into(), Arc::new(opt_s.iter().map(|x| x.as_deref().map(|s| if s.len() > 2 { "long" } else { "short" })).collect::<RunArray<Int32Type>>())),
    ]
}

fn sources(cx: &mut Ctx, rng: &mut Rng, dt: &DataType) -> Vec<(String, ArrayRef)> {
    let n = mk::rand_len(rng, cx.max_rows);
    let np = *rng.pick(&[0usize, 0, 15, 40, 95]);
    let mut v: Vec<(String, ArrayRef)> = vec![];
    match rng.below(10) {
        0 => v.extend(builder_source(rng, n.min(24))),
        1 => v.extend(from_iter_source(rng, n.min(24))),
        2 => {
            v.push(("new_null_array".into(), new_null_array(dt, n)));
            v.push(("new_empty_array".into(), new_empty_array(dt)));
            v.push(("make_array(ArrayData::new_null)".into(), make_array(ArrayData::new_null(dt, n))));
        }
        _ => {
            let cfg = if rng.chance(50) { Cfg::wild(np) } else { Cfg::tame(np) };
            let a = mk::array(rng, dt, n, cfg);
            v.push(("mk".into(), a.clone()));
            for (name, r) in mutate::realisations(rng, &a, 4).into_iter().skip(1) {
                v.push((format!("mutate:{name}"), r));
            }
            if let Ok(m) = guarded(|| make_array(a.to_data())) {
                v.push(("make_array(to_data)".into(), m));
            }
        }
    }
    v
}

// ---------------------------------------------------------------------------- steps

fn cast_targets() -> Vec<DataType> {
    let mut v = mk::all_types();
    v.push(DataType::Dictionary(Box::new(DataType::UInt8), Box::new(DataType::Utf8View)));
    v.push(DataType::RunEndEncoded(Arc::new(Field::new("run_ends", DataType::Int32, false)), Arc::new(Field::new("values", DataType::Utf8, true))));
    v.push(DataType::Timestamp(TimeUnit::Nanosecond, None));
    v
}

fn ipc_roundtrip(b: &RecordBatch, file: bool) -> Result<Vec<RecordBatch>, ArrowError> {
    let mut buf: Vec<u8> = vec![];
    if file {
        let mut w = arrow_ipc::writer::FileWriter::try_new(&mut buf, b.schema_ref())?;
        w.write(b)?;
        w.finish()?;
        drop(w);
        let r = arrow_ipc::reader::FileReader::try_new(std::io::Cursor::new(buf), None)?;
        r.collect()
    } else {
        let mut w = arrow_ipc::writer::StreamWriter::try_new(&mut buf, b.schema_ref())?;
        w.write(b)?;
        w.write(&b.slice(0, b.num_rows() / 2))?;
        w.finish()?;
        drop(w);
        let r = arrow_ipc::reader::StreamReader::try_new(std::io::Cursor::new(buf), None)?;
        r.collect()
    }
}

fn csv_roundtrip(b: &RecordBatch) -> Result<Vec<RecordBatch>, ArrowError> {
    let mut buf: Vec<u8> = vec![];
    {
        let mut w = arrow_csv::WriterBuilder::new().with_header(true).build(&mut buf);
        w.write(b)?;
    }
    let r = arrow_csv::ReaderBuilder::new(b.schema()).with_header(true).with_batch_size(7).build(std::io::Cursor::new(buf))?;
    r.collect()
}

fn json_roundtrip(b: &RecordBatch) -> Result<Vec<RecordBatch>, ArrowError> {
    let mut buf: Vec<u8> = vec![];
    {
        let mut w = arrow_json::LineDelimitedWriter::new(&mut buf);
        w.write(b)?;
        w.finish()?;
    }
    let r = arrow_json::ReaderBuilder::new(b.schema()).with_batch_size(5).build(std::io::Cursor::new(buf))?;
    r.collect()
}

fn single(a: &ArrayRef) -> Option<RecordBatch> {
    let schema = Arc::new(Schema::new(vec![Field::new("c", a.data_type().clone(), true)]));
    guarded(|| RecordBatch::try_new(schema, vec![a.clone()])).ok()?.ok()
}

/// one random transformation of `a`; every array it returns is an output
fn step(cx: &mut Ctx, rng: &mut Rng, a: &ArrayRef, stage: usize) -> Vec<(String, ArrayRef)> {
    let n = a.len();
    let dt = a.data_type().clone();
    let mut out: Vec<(String, ArrayRef)> = vec![];
    let mut push = |name: String, r: Option<ArrayRef>| {
        if let Some(r) = r {
            out.push((name, r));
        }
    };
    match rng.below(30) {
        0 | 1 => {
            let m = rand_mask(rng, n);
            push("filter".into(), call(cx, || arrow_select::filter::filter(a.as_ref(), &m)));
        }
        2 | 3 => {
            let k = rng.below(n + 3);
            let idx = rand_indices(rng, k, n);
            push("take".into(), call(cx, || arrow_select::take::take(a.as_ref(), idx.as_ref(), None)));
        }
        4 => {
            let k = rng.below(6);
            let compatible = !matches!(dt, DataType::Dictionary(_, _) | DataType::RunEndEncoded(_, _) | DataType::Union(_, _));
            // (the generator cannot make every type a builder can return, e.g. a union without variants)
            let other: ArrayRef = match (compatible, gen_array(rng, &dt, k, 30)) {
                (true, Some(b)) => b,
                _ => a.slice(0, n / 2),
            };
            push("concat".into(), call(cx, || arrow_select::concat::concat(&[a.as_ref(), other.as_ref(), a.as_ref()])));
        }
        5 => {
            let b = a.slice(n / 3, n - n / 3);
            let pairs: Vec<(usize, usize)> = (0..rng.below(n + 2)).filter_map(|_| {
                let w = rng.below(2);
                let l = if w == 0 { n } else { b.len() };
                if l == 0 { None } else { Some((w, rng.below(l))) }
            }).collect();
            push("interleave".into(), call(cx, || arrow_select::interleave::interleave(&[a.as_ref(), b.as_ref()], &pairs)));
        }
        6 => {
            let m = rand_mask(rng, n);
            let b = if rng.chance(50) { a.clone() } else { gen_array(rng, &dt, n, 50).filter(|b| b.len() == n).unwrap_or_else(|| a.clone()) };
            push("zip".into(), call(cx, || arrow_select::zip::zip(&m, a, &b)));
        }
        7 => {
            let m = rand_mask(rng, n);
            push("nullif".into(), call(cx, || arrow_select::nullif::nullif(a.as_ref(), &m)));
        }
        8 => {
            let k = rng.range(-(n as i64) - 1, n as i64 + 1);
            push("shift".into(), call(cx, || arrow_select::window::shift(a.as_ref(), k)));
        }
        9 | 10 => {
            if n > 0 {
                let o = rng.below(n);
                let l = rng.below(n - o + 1);
                push("Array::slice".into(), guarded(|| a.slice(o, l)).ok());
                let d = a.to_data();
                if let Ok(s) = guarded(|| d.slice(o, l)) {
                    cx.produced_data("ArrayData::slice", stage, &s);
                    // keep going only where the typed layer can read it back
                    push("make_array(ArrayData::slice)".into(), guarded(|| make_array(s)).ok());
                }
            }
        }
        11..=15 => {
            let ts = cast_targets();
            let mut tried = 0;
            while tried < 6 {
                let t = rng.pick(&ts).clone();
                tried += 1;
                if t != dt && arrow_cast::can_cast_types(&dt, &t) {
                    let safe = rng.chance(70);
                    let opts = arrow_cast::CastOptions { safe, ..Default::default() };
                    let name = format!("cast:{}", vcore::tok::family(&t));
                    push(name, call(cx, || arrow_cast::cast_with_options(a.as_ref(), &t, &opts)));
                    break;
                }
            }
        }
        16 | 17 => {
            if dt.is_numeric() || dt.is_temporal() {
                push("add_wrapping".into(), call(cx, || arrow_arith::numeric::add_wrapping(a, a)));
                push("neg_wrapping".into(), call(cx, || arrow_arith::numeric::neg_wrapping(a.as_ref())));
                push("mul".into(), call(cx, || arrow_arith::numeric::mul(a, a)));
                push("div".into(), call(cx, || arrow_arith::numeric::div(a, a)));
                let b = a.slice(0, n);
                push("sub".into(), call(cx, || arrow_arith::numeric::sub(a, &b)));
                push("date_part".into(), call(cx, || arrow_arith::temporal::date_part(a.as_ref(), arrow_arith::temporal::DatePart::Year)));
            } else if let Some(b) = a.as_boolean_opt() {
                let m = rand_mask(rng, n);
                push("and_kleene".into(), call(cx, || arrow_arith::boolean::and_kleene(b, &m).map(|x| Arc::new(x) as ArrayRef)));
                push("not".into(), call(cx, || arrow_arith::boolean::not(b).map(|x| Arc::new(x) as ArrayRef)));
                push("or".into(), call(cx, || arrow_arith::boolean::or(b, &m).map(|x| Arc::new(x) as ArrayRef)));
            }
            push("is_null".into(), call(cx, || arrow_arith::boolean::is_null(a.as_ref()).map(|x| Arc::new(x) as ArrayRef)));
        }
        18 | 19 => {
            let opts = arrow_ord::sort::SortOptions { descending: rng.chance(50), nulls_first: rng.chance(50) };
            push("sort".into(), call(cx, || arrow_ord::sort::sort(a.as_ref(), Some(opts))));
            let lim = rng.below(n + 2);
            push("sort_limit".into(), call(cx, || arrow_ord::sort::sort_limit(a.as_ref(), Some(opts), Some(lim))));
            if let Some(idx) = call(cx, || arrow_ord::sort::sort_to_indices(a.as_ref(), Some(opts), None).map(|x| Arc::new(x) as ArrayRef)) {
                push("take(sort_to_indices)".into(), call(cx, || arrow_select::take::take(a.as_ref(), idx.as_ref(), None)));
                push("sort_to_indices".into(), Some(idx));
            }
            push("cmp::eq".into(), call(cx, || arrow_ord::cmp::eq(a, a).map(|x| Arc::new(x) as ArrayRef)));
            push("cmp::lt".into(), call(cx, || arrow_ord::cmp::lt(a, a).map(|x| Arc::new(x) as ArrayRef)));
        }
        20 | 21 => {
            let start = rng.range(-5, 5);
            let len = if rng.chance(50) { None } else { Some(rng.below(6) as u64) };
            push("substring".into(), call(cx, || arrow_string::substring::substring(a.as_ref(), start, len)));
            push("concat_elements_dyn".into(), call(cx, || arrow_string::concat_elements::concat_elements_dyn(a.as_ref(), a.as_ref())));
            push("length".into(), call(cx, || arrow_string::length::length(a.as_ref())));
            push("bit_length".into(), call(cx, || arrow_string::length::bit_length(a.as_ref())));
            if matches!(dt, DataType::Utf8 | DataType::LargeUtf8 | DataType::Utf8View) {
                let pat = Scalar::new(StringArray::from(vec!["%a_"]));
                push("like".into(), call(cx, || arrow_string::like::like(a, &pat).map(|x| Arc::new(x) as ArrayRef)));
            }
            if let Some(s) = a.as_string_opt::<i32>() {
                push("substring_by_char".into(), call(cx, || arrow_string::substring::substring_by_char(s, start, len).map(|x| Arc::new(x) as ArrayRef)));
            }
        }
        22 => {
            let r = guarded(|| -> Result<Vec<ArrayRef>, ArrowError> {
                let conv = arrow_row::RowConverter::new(vec![arrow_row::SortField::new(dt.clone())])?;
                let rows = conv.convert_columns(&[a.clone()])?;
                conv.convert_rows(&rows)
            });
            match r {
                Ok(Ok(cols)) => {
                    for c in cols {
                        push("row:convert_rows".into(), Some(c));
                    }
                }
                Ok(Err(_)) => cx.errors += 1,
                Err(p) => cx.note_panic(&format!("[row] {p}")),
            }
        }
        23 | 24 => {
            if let Some(b) = single(a) {
                let file = rng.chance(50);
                match guarded(|| ipc_roundtrip(&b, file)) {
                    Ok(Ok(bs)) => {
                        for rb in bs {
                            cx.batch(if file { "ipc:FileReader" } else { "ipc:StreamReader" }, stage, &rb);
                            push("ipc:column".into(), Some(rb.column(0).clone()));
                        }
                    }
                    Ok(Err(_)) => cx.errors += 1,
                    Err(p) => cx.note_panic(&format!("[ipc] {p}")),
                }
            }
        }
        25 => {
            if let Some(b) = single(a) {
                match guarded(|| csv_roundtrip(&b)) {
                    Ok(Ok(bs)) => {
                        for rb in bs {
                            cx.batch("csv:Reader", stage, &rb);
                            push("csv:column".into(), Some(rb.column(0).clone()));
                        }
                    }
                    Ok(Err(_)) => cx.errors += 1,
                    Err(p) => cx.note_panic(&format!("[csv] {p}")),
                }
            }
        }
        26 => {
            if let Some(b) = single(a) {
                match guarded(|| json_roundtrip(&b)) {
                    Ok(Ok(bs)) => {
                        for rb in bs {
                            cx.batch("json:Reader", stage, &rb);
                            push("json:column".into(), Some(rb.column(0).clone()));
                        }
                    }
                    Ok(Err(_)) => cx.errors += 1,
                    Err(p) => cx.note_panic(&format!("[json] {p}")),
                }
            }
        }
        27 => {
            if let DataType::Dictionary(_, _) = dt {
                push("garbage_collect_any_dictionary".into(), call(cx, || arrow_select::dictionary::garbage_collect_any_dictionary(a.as_any_dictionary())));
            }
            if let Some(u) = a.as_any().downcast_ref::<UnionArray>() {
                let DataType::Union(fs, _) = &dt else { unreachable!() };
                for (_, f) in fs.iter() {
                    push("union_extract".into(), call(cx, || arrow_select::union_extract::union_extract(u, f.name())));
                }
            }
            if let Some(v) = a.as_string_view_opt() {
                push("StringViewArray::gc".into(), guarded(|| Arc::new(v.gc()) as ArrayRef).ok());
            }
            if let Some(v) = a.as_binary_view_opt() {
                push("BinaryViewArray::gc".into(), guarded(|| Arc::new(v.gc()) as ArrayRef).ok());
            }
            push("logical_nulls->BooleanArray".into(), a.logical_nulls().map(|x| Arc::new(BooleanArray::new(x.into_inner(), None)) as ArrayRef));
        }
        _ => {
            // record-batch level
            if let Some(b) = single(a) {
                let other = mk::array(rng, &DataType::Int32, n, Cfg::wild(20));
                let schema: SchemaRef = Arc::new(Schema::new(vec![Field::new("c", dt.clone(), true), Field::new("i", DataType::Int32, true)]));
                if let Ok(Ok(b2)) = guarded(|| RecordBatch::try_new(schema.clone(), vec![a.clone(), other])) {
                    cx.batch("RecordBatch::try_new", stage, &b2);
                    let o = rng.below(n + 1);
                    let l = rng.below(n - o + 1);
                    if let Ok(s) = guarded(|| b2.slice(o, l)) {
                        cx.batch("RecordBatch::slice", stage, &s);
                    }
                    if let Ok(Ok(p)) = guarded(|| b2.project(&[1])) {
                        cx.batch("RecordBatch::project", stage, &p);
                    }
                    if let Ok(Ok(c)) = guarded(|| arrow_select::concat::concat_batches(&schema, [&b2, &b2.slice(0, n / 2)])) {
                        cx.batch("concat_batches", stage, &c);
                    }
                    let m = rand_mask(rng, n);
                    if let Ok(Ok(f)) = guarded(|| arrow_select::filter::filter_record_batch(&b2, &m)) {
                        cx.batch("filter_record_batch", stage, &f);
                        push("filter_record_batch:column".into(), Some(f.column(0).clone()));
                    }
                    let k = rng.below(n + 2);
                    let idx = rand_indices(rng, k, n);
                    if let Ok(Ok(t)) = guarded(|| arrow_select::take::take_record_batch(&b2, idx.as_ref())) {
                        cx.batch("take_record_batch", stage, &t);
                    }
                }
                let _ = b;
            }
        }
    }
    out
}

/// CSV / JSON readers on generated text (not produced by the writers)
fn text_readers(cx: &mut Ctx, rng: &mut Rng) {
    let schema = Arc::new(Schema::new(vec![
        Field::new("i", DataType::Int64, true),
        Field::new("s", DataType::Utf8, true),
        Field::new("f", DataType::Float64, true),
        Field::new("b", DataType::Boolean, true),
        Field::new("d", DataType::Date32, true),
        Field::new("v", DataType::Utf8View, true),
    ]));
    let n = rng.below(12);
    let mut csv = String::from("i,s,f,b,d,v\n");
    let mut js = String::new();
    for _ in 0..n {
        let i = if rng.chance(20) { String::new() } else { format!("{}", rng.range(-1000, 1000)) };
        let s = if rng.chance(20) { String::new() } else { ["x", "é", "a b", "日本", "long string beyond twelve"][rng.below(5)].to_string() };
        let f = if rng.chance(20) { String::new() } else { format!("{}.5", rng.below(100)) };
        let b = ["true", "false", ""][rng.below(3)];
        let d = ["2020-01-02", "1969-12-31", ""][rng.below(3)];
        csv.push_str(&format!("{i},\"{s}\",{f},{b},{d},{s}\n"));
        let q = |x: &str, quote: bool| if x.is_empty() { "null".to_string() } else if quote { format!("\"{x}\"") } else { x.to_string() };
        js.push_str(&format!("{{\"i\":{},\"s\":{},\"f\":{},\"b\":{},\"d\":{},\"v\":{}}}\n", q(&i, false), q(&s, true), q(&f, false), q(b, false), q(d, true), q(&s, true)));
    }
    cx.pipe += 1;
    if let Ok(Ok(bs)) = guarded(|| -> Result<Vec<RecordBatch>, ArrowError> {
        arrow_csv::ReaderBuilder::new(schema.clone()).with_header(true).with_batch_size(5).build(std::io::Cursor::new(csv.into_bytes()))?.collect()
    }) {
        for b in bs {
            cx.batch("csv:Reader(text)", 1, &b);
            for c in b.columns() {
                cx.produced("csv:Reader(text):column", 1, c);
            }
        }
    }
    if let Ok(Ok(bs)) = guarded(|| -> Result<Vec<RecordBatch>, ArrowError> {
        arrow_json::ReaderBuilder::new(schema.clone()).with_batch_size(4).build(std::io::Cursor::new(js.into_bytes()))?.collect()
    }) {
        for b in bs {
            cx.batch("json:Reader(text)", 1, &b);
            for c in b.columns() {
                cx.produced("json:Reader(text):column", 1, c);
            }
        }
    }
}

fn main() {
    let args = Args::parse();
    vcore::quiet_panics();
    let mut rng = Rng::new(args.seed);
    let mut cx = Ctx { t: Shards::create(&args.out, "outputs", 14), pipe: 0, arrays: 0, batches: 0, skipped_big: 0, errors: 0, panics: 0, panic_msgs: Default::default(), max_rows: 33 };
    let types = mk::all_types();
    let rounds = args.scale(3, 60);
    for round in 0..rounds {
        cx.max_rows = if round % 4 == 3 { 64 } else { 24 };
        for dt in &types {
            let srcs = sources(&mut cx, &mut rng, dt);
            for (sname, a) in srcs {
                cx.pipe += 1;
                cx.produced(&sname, 1, &a);
                // depth 2 and 3
                let mut frontier = vec![a];
                for stage in 2..=3 {
                    let mut next = vec![];
                    for x in &frontier {
                        let k = if stage == 2 { 2 } else { 1 };
                        for _ in 0..k {
                            for (name, r) in step(&mut cx, &mut rng, x, stage) {
                                if r.len() <= 64 {
                                    cx.produced(&name, stage, &r);
                                    next.push(r);
                                }
                            }
                        }
                    }
                    // bound the fan-out
                    while next.len() > 3 {
                        let i = rng.below(next.len());
                        next.swap_remove(i);
                    }
                    frontier = next;
                }
                cx.t.next_episode();
            }
        }
        for _ in 0..4 {
            text_readers(&mut cx, &mut rng);
            cx.t.next_episode();
        }
    }
    // builder histories: every public append-style operation of every builder family
    let st = {
        let cxr = &mut cx;
        builders::run(&mut rng, args.scale(6, 150), |api, a| {
            cxr.pipe += 1;
            cxr.produced(api, 1, a);
            cxr.t.next_episode();
        })
    };
    for (m, c) in st.panic_msgs.iter().take(12) {
        println!("BUILDER-PANIC x{c}: {m}");
    }
    println!("BUILDERS histories={} op_panics={}", st.histories, st.op_panics);
    // panics inside kernels on valid inputs: observations for the report, not outputs
    for (m, c) in cx.panic_msgs.iter().take(12) {
        println!("KERNEL-PANIC x{c}: {m}");
    }
    let n = cx.t.finish();
    println!("DRIVER c01 events={n} arrays={} batches={} pipelines={} kernel_errors={} kernel_panics={} skipped_big={}",
        cx.arrays, cx.batches, cx.pipe, cx.errors, cx.panics, cx.skipped_big);
}
