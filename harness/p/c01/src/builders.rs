//! Builder histories (C01): for every builder family, short sequences of *all* its public
//! append-style operations, interleaved with finish() / finish_cloned() and continued use
//! after finish.  Sequences up to a small depth are enumerated exhaustively on a fresh
//! builder (every ordered pair -- for the view builders every ordered triple -- of
//! operations, then finish), longer ones are random.  Every array a finish returns is an
//! output, dumped and judged by TLC (WellFormed incl. exact null counts).  Nothing is
//! expected here; a panic inside an operation ends the history and is only counted.
use arrow_array::builder::*;
use arrow_array::types::*;
use arrow_array::*;
use arrow_buffer::{BooleanBufferBuilder, Buffer, NullBuffer, NullBufferBuilder};
use arrow_schema::{DataType, Field, Fields};
use std::sync::Arc;
use vcore::{guarded, Rng};

pub trait Hist {
    fn name(&self) -> String;
    fn ops(&self) -> &'static [&'static str];
    fn apply(&mut self, op: usize, rng: &mut Rng);
    fn finish(&mut self) -> ArrayRef;
    fn finish_cloned(&self) -> Option<ArrayRef>;
}

const SHORT: &[&str] = &["", "a", "é", "hello", "twelve bytes"];
const LONG: &[&str] = &["thirteen byte", "a long string of more than twelve bytes", "日本語の長い文字列です、十二バイト以上", "ééééééééééééé"];

fn short(r: &mut Rng) -> &'static str {
    SHORT[r.below(SHORT.len())]
}
fn long(r: &mut Rng) -> &'static str {
    LONG[r.below(LONG.len())]
}
fn any_str(r: &mut Rng) -> &'static str {
    if r.chance(50) { short(r) } else { long(r) }
}
fn opt_strs(r: &mut Rng, n: usize) -> Vec<Option<&'static str>> {
    (0..n).map(|_| if r.chance(25) { None } else { Some(any_str(r)) }).collect()
}
fn maybe_slice<A: Array + Clone + 'static>(r: &mut Rng, a: A, f: impl Fn(&A, usize, usize) -> A) -> A {
    let n = a.len();
    if n >= 2 && r.chance(50) {
        let o = 1 + r.below(n - 1);
        f(&a, o, r.below(n - o + 1))
    } else {
        a
    }
}

// ------------------------------------------------------------------ primitive
struct Prim(Int32Builder);
impl Hist for Prim {
    fn name(&self) -> String { "Int32Builder".into() }
    fn ops(&self) -> &'static [&'static str] {
        &["append_value", "append_value_n", "append_null", "append_nulls", "append_option", "append_values", "append_slice", "append_array", "append_array(sliced,nulls)", "extend", "append_trusted_len_iter"]
    }
    fn apply(&mut self, op: usize, r: &mut Rng) {
        let b = &mut self.0;
        match op {
            0 => b.append_value(r.next() as i32),
            1 => b.append_value_n(7, r.below(4)),
            2 => b.append_null(),
            3 => b.append_nulls(r.below(10)),
            4 => b.append_option(if r.chance(50) { None } else { Some(1) }),
            5 => b.append_values(&[1, 2, 3], &[true, false, true]),
            6 => b.append_slice(&[4, 5, 6, 7, 8, 9, 10, 11, 12][..r.below(10)]),
            7 => b.append_array(&Int32Array::from(vec![1, 2, 3])),
            8 => {
                let a = Int32Array::from((0..12).map(|i| if i % 3 == 0 { None } else { Some(i) }).collect::<Vec<_>>());
                b.append_array(&maybe_slice(r, a, |a, o, l| a.slice(o, l)))
            }
            9 => b.extend((0..r.below(9)).map(|i| if i % 2 == 0 { Some(i as i32) } else { None })),
            _ => unsafe { b.append_trusted_len_iter(vec![1, 2, 3].into_iter()) },
        }
    }
    fn finish(&mut self) -> ArrayRef { Arc::new(self.0.finish()) }
    fn finish_cloned(&self) -> Option<ArrayRef> { Some(Arc::new(self.0.finish_cloned())) }
}

struct Dec(Decimal128Builder);
impl Hist for Dec {
    fn name(&self) -> String { "Decimal128Builder".into() }
    fn ops(&self) -> &'static [&'static str] { &["append_value", "append_null", "append_nulls", "append_array(sliced)", "extend"] }
    fn apply(&mut self, op: usize, r: &mut Rng) {
        let b = &mut self.0;
        match op {
            0 => b.append_value(r.next() as i128 % 1000),
            1 => b.append_null(),
            2 => b.append_nulls(r.below(9)),
            3 => {
                let a = Decimal128Array::from(vec![Some(1), None, Some(3), Some(4)]).with_precision_and_scale(10, 2).unwrap();
                b.append_array(&maybe_slice(r, a, |a, o, l| a.slice(o, l)))
            }
            _ => b.extend([Some(5i128), None]),
        }
    }
    fn finish(&mut self) -> ArrayRef { Arc::new(self.0.finish()) }
    fn finish_cloned(&self) -> Option<ArrayRef> { Some(Arc::new(self.0.finish_cloned())) }
}

// ------------------------------------------------------------------ boolean
struct Bool(BooleanBuilder);
impl Hist for Bool {
    fn name(&self) -> String { "BooleanBuilder".into() }
    fn ops(&self) -> &'static [&'static str] {
        &["append_value", "append_null", "append_nulls", "append_option", "append_n", "append_values", "append_slice", "append_array(sliced)", "extend"]
    }
    fn apply(&mut self, op: usize, r: &mut Rng) {
        let b = &mut self.0;
        match op {
            0 => b.append_value(r.chance(50)),
            1 => b.append_null(),
            2 => b.append_nulls(r.below(11)),
            3 => b.append_option(if r.chance(50) { None } else { Some(true) }),
            4 => b.append_n(r.below(11), r.chance(50)),
            5 => b.append_values(&[true, false, true], &[true, true, false]).unwrap(),
            6 => b.append_slice(&[true, false, false, true, true, false, true, true, true][..r.below(10)]),
            7 => {
                let a = BooleanArray::from((0..19).map(|i| if i % 4 == 0 { None } else { Some(i % 3 == 0) }).collect::<Vec<_>>());
                b.append_array(&maybe_slice(r, a, |a, o, l| a.slice(o, l)))
            }
            _ => b.extend((0..r.below(9)).map(|i| if i % 3 == 0 { None } else { Some(i % 2 == 0) })),
        }
    }
    fn finish(&mut self) -> ArrayRef { Arc::new(self.0.finish()) }
    fn finish_cloned(&self) -> Option<ArrayRef> { Some(Arc::new(self.0.finish_cloned())) }
}

// ------------------------------------------------------------------ bytes
struct Str<O: OffsetSizeTrait>(GenericStringBuilder<O>);
impl<O: OffsetSizeTrait> Hist for Str<O> {
    fn name(&self) -> String { format!("{}StringBuilder", O::PREFIX) }
    fn ops(&self) -> &'static [&'static str] {
        &["append_value(short)", "append_value(long)", "append_value_n", "append_option", "append_null", "append_nulls", "append_array", "append_array(sliced)", "extend", "write_str+append_value"]
    }
    fn apply(&mut self, op: usize, r: &mut Rng) {
        let b = &mut self.0;
        match op {
            0 => b.append_value(short(r)),
            1 => b.append_value(long(r)),
            2 => b.append_value_n(any_str(r), r.below(4)),
            3 => b.append_option(if r.chance(50) { None } else { Some(any_str(r)) }),
            4 => b.append_null(),
            5 => b.append_nulls(r.below(9)),
            6 => b.append_array(&GenericStringArray::<O>::from(opt_strs(r, 4))).unwrap(),
            7 => {
                let a = GenericStringArray::<O>::from(opt_strs(r, 7));
                b.append_array(&maybe_slice(r, a, |a, o, l| a.slice(o, l))).unwrap()
            }
            8 => { let k = r.below(5); b.extend(opt_strs(r, k)) },
            _ => {
                use std::fmt::Write;
                let _ = write!(b, "{}-{}", short(r), 42);
                b.append_value("é")
            }
        }
    }
    fn finish(&mut self) -> ArrayRef { Arc::new(self.0.finish()) }
    fn finish_cloned(&self) -> Option<ArrayRef> { Some(Arc::new(self.0.finish_cloned())) }
}

struct Bin(LargeBinaryBuilder);
impl Hist for Bin {
    fn name(&self) -> String { "LargeBinaryBuilder".into() }
    fn ops(&self) -> &'static [&'static str] { &["append_value", "append_null", "append_nulls", "append_array(sliced)", "extend", "append_value_n"] }
    fn apply(&mut self, op: usize, r: &mut Rng) {
        let b = &mut self.0;
        match op {
            0 => b.append_value(vcore::mk::rand_bytes(r)),
            1 => b.append_null(),
            2 => b.append_nulls(r.below(9)),
            3 => {
                let a = LargeBinaryArray::from_iter(opt_strs(r, 6).into_iter().map(|x| x.map(|s| s.as_bytes())));
                b.append_array(&maybe_slice(r, a, |a, o, l| a.slice(o, l))).unwrap()
            }
            4 => b.extend([Some(&b"ab"[..]), None, Some(&[0xFFu8; 20][..])]),
            _ => b.append_value_n([1u8, 2], r.below(4)),
        }
    }
    fn finish(&mut self) -> ArrayRef { Arc::new(self.0.finish()) }
    fn finish_cloned(&self) -> Option<ArrayRef> { Some(Arc::new(self.0.finish_cloned())) }
}

// ------------------------------------------------------------------ byte views
/// source arrays for append_array: inline only / owning one data buffer / owning several / sliced
fn view_source(r: &mut Rng, kind: usize) -> StringViewArray {
    match kind {
        0 => StringViewArray::from(vec![Some("a"), None, Some("twelve bytes"), Some("")]),
        1 => StringViewArray::from(vec![Some(long(r)), None, Some("x"), Some(long(r))]),
        2 => {
            // several data buffers: a tiny block size
            let mut b = StringViewBuilder::new().with_fixed_block_size(24);
            for _ in 0..5 {
                b.append_value(long(r));
            }
            b.append_null();
            b.finish()
        }
        _ => {
            let a = StringViewArray::from(vec![Some(long(r)), Some("s"), Some(long(r)), None, Some(long(r))]);
            let o = 1 + r.below(3);
            a.slice(o, r.below(5 - o + 1))
        }
    }
}

struct SView {
    b: StringViewBuilder,
    cfg: &'static str,
    blocks: Vec<(u32, usize)>,
}
const ASCII_BLOCK: &[u8] = b"0123456789abcdefghijklmnopqrstuvwxyzABCDEFGHIJKLMNOPQRSTUVWXYZ";
impl SView {
    fn new(cfg: usize) -> SView {
        let (b, name) = match cfg {
            0 => (StringViewBuilder::new(), "default"),
            1 => (StringViewBuilder::new().with_fixed_block_size(32), "block32"),
            _ => (StringViewBuilder::new().with_deduplicate_strings(), "dedup"),
        };
        SView { b, cfg: name, blocks: vec![] }
    }
}
impl Hist for SView {
    fn name(&self) -> String { format!("StringViewBuilder({})", self.cfg) }
    fn ops(&self) -> &'static [&'static str] {
        &["append_value(short)", "append_value(long)", "try_append_value(long)", "append_option", "append_null", "extend",
          "append_block+try_append_view", "try_append_view(old block)", "append_array(inline)", "append_array(buffer)", "append_array(buffers)", "append_array(sliced)"]
    }
    fn apply(&mut self, op: usize, r: &mut Rng) {
        let b = &mut self.b;
        match op {
            0 => b.append_value(short(r)),
            1 => b.append_value(long(r)),
            2 => b.try_append_value(long(r)).unwrap(),
            3 => b.append_option(if r.chance(40) { None } else { Some(any_str(r)) }),
            4 => b.append_null(),
            5 => { let k = r.below(5); b.extend(opt_strs(r, k)) },
            6 => {
                let blk = b.append_block(Buffer::from_vec(ASCII_BLOCK.to_vec()));
                self.blocks.push((blk, ASCII_BLOCK.len()));
                let len = [3usize, 12, 13, 30][r.below(4)];
                let off = r.below(ASCII_BLOCK.len() - len + 1);
                b.try_append_view(blk, off as u32, len as u32).unwrap()
            }
            7 => {
                if let Some((blk, n)) = self.blocks.last().copied() {
                    let len = 13 + r.below(10);
                    b.try_append_view(blk, r.below(n - len + 1) as u32, len as u32).unwrap()
                } else {
                    b.append_value(long(r))
                }
            }
            k => b.append_array(&view_source(r, k - 8)),
        }
    }
    fn finish(&mut self) -> ArrayRef {
        self.blocks.clear();
        Arc::new(self.b.finish())
    }
    fn finish_cloned(&self) -> Option<ArrayRef> { Some(Arc::new(self.b.finish_cloned())) }
}

struct BView(BinaryViewBuilder);
impl Hist for BView {
    fn name(&self) -> String { "BinaryViewBuilder".into() }
    fn ops(&self) -> &'static [&'static str] {
        &["append_value(short)", "append_value(long)", "append_option", "append_null", "extend", "append_block+try_append_view", "append_array(inline)", "append_array(buffer)", "append_array(sliced)"]
    }
    fn apply(&mut self, op: usize, r: &mut Rng) {
        let b = &mut self.0;
        let src = |r: &mut Rng, k: usize| -> BinaryViewArray {
            match k {
                0 => BinaryViewArray::from(vec![Some(&b"ab"[..]), None, Some(&[0xFFu8; 12][..])]),
                1 => BinaryViewArray::from(vec![Some(&[0xFEu8; 40][..]), None, Some(&[1u8; 13][..])]),
                _ => {
                    let a = BinaryViewArray::from(vec![Some(&[7u8; 20][..]), Some(&b"s"[..]), Some(&[9u8; 33][..]), None]);
                    let o = 1 + r.below(2);
                    a.slice(o, r.below(4 - o + 1))
                }
            }
        };
        match op {
            0 => b.append_value([1u8, 2, 0xFF]),
            1 => b.append_value([0xC3u8; 17]),
            2 => b.append_option(if r.chance(40) { None } else { Some(vcore::mk::rand_bytes(r)) }),
            3 => b.append_null(),
            4 => b.extend([Some(&[5u8; 14][..]), None, Some(&b""[..])]),
            5 => {
                let blk = b.append_block(Buffer::from_vec(vec![0xABu8; 50]));
                b.try_append_view(blk, r.below(10) as u32, (13 + r.below(20)) as u32).unwrap()
            }
            k => b.append_array(&src(r, k - 6)),
        }
    }
    fn finish(&mut self) -> ArrayRef { Arc::new(self.0.finish()) }
    fn finish_cloned(&self) -> Option<ArrayRef> { Some(Arc::new(self.0.finish_cloned())) }
}

// ------------------------------------------------------------------ lists
struct List<O: OffsetSizeTrait>(GenericListBuilder<O, Int32Builder>);
impl<O: OffsetSizeTrait> Hist for List<O> {
    fn name(&self) -> String { format!("{}ListBuilder<Int32Builder>", O::PREFIX) }
    fn ops(&self) -> &'static [&'static str] { &["values+append(true)", "values+append(false)", "append_value", "append_null", "append_nulls", "append_option", "extend", "append(true) empty"] }
    fn apply(&mut self, op: usize, r: &mut Rng) {
        let b = &mut self.0;
        let item = |r: &mut Rng| -> Vec<Option<i32>> { (0..r.below(4)).map(|i| if r.chance(25) { None } else { Some(i as i32) }).collect() };
        match op {
            0 | 1 => {
                for _ in 0..r.below(4) {
                    b.values().append_option(if r.chance(20) { None } else { Some(3) });
                }
                b.append(op == 0)
            }
            2 => b.append_value(item(r)),
            3 => b.append_null(),
            4 => b.append_nulls(r.below(5)),
            5 => b.append_option(if r.chance(50) { None } else { Some(item(r)) }),
            6 => b.extend((0..r.below(4)).map(|i| if i == 1 { None } else { Some(vec![Some(1), None]) })),
            _ => b.append(true),
        }
    }
    fn finish(&mut self) -> ArrayRef { Arc::new(self.0.finish()) }
    fn finish_cloned(&self) -> Option<ArrayRef> { Some(Arc::new(self.0.finish_cloned())) }
}

struct ListStr(ListBuilder<StringViewBuilder>);
impl Hist for ListStr {
    fn name(&self) -> String { "ListBuilder<StringViewBuilder>".into() }
    fn ops(&self) -> &'static [&'static str] { &["values(long)+append", "append_value", "append_null", "values.append_array+append", "extend"] }
    fn apply(&mut self, op: usize, r: &mut Rng) {
        let b = &mut self.0;
        match op {
            0 => {
                b.values().append_value(long(r));
                b.values().append_value(short(r));
                b.append(r.chance(80))
            }
            1 => { let k = r.below(4); b.append_value(opt_strs(r, k)) }
            2 => b.append_null(),
            3 => {
                let k = 1 + r.below(3);
                b.values().append_array(&view_source(r, k));
                b.append(true)
            }
            _ => b.extend([Some(vec![Some(long(r)), None]), None]),
        }
    }
    fn finish(&mut self) -> ArrayRef { Arc::new(self.0.finish()) }
    fn finish_cloned(&self) -> Option<ArrayRef> { Some(Arc::new(self.0.finish_cloned())) }
}

struct ListV(ListViewBuilder<Int32Builder>);
impl Hist for ListV {
    fn name(&self) -> String { "ListViewBuilder<Int32Builder>".into() }
    fn ops(&self) -> &'static [&'static str] { &["values+append(true)", "values+append(false)", "append_value", "append_null", "append_option", "extend"] }
    fn apply(&mut self, op: usize, r: &mut Rng) {
        let b = &mut self.0;
        match op {
            0 | 1 => {
                for _ in 0..r.below(4) {
                    b.values().append_value(1);
                }
                b.append(op == 0)
            }
            2 => b.append_value([Some(1), None, Some(3)]),
            3 => b.append_null(),
            4 => b.append_option(if r.chance(50) { None } else { Some(vec![Some(9)]) }),
            _ => b.extend([Some(vec![Some(1)]), None, Some(vec![])]),
        }
    }
    fn finish(&mut self) -> ArrayRef { Arc::new(self.0.finish()) }
    fn finish_cloned(&self) -> Option<ArrayRef> { Some(Arc::new(self.0.finish_cloned())) }
}

struct Fsl(FixedSizeListBuilder<Int8Builder>);
impl Hist for Fsl {
    fn name(&self) -> String { "FixedSizeListBuilder<Int8Builder>".into() }
    fn ops(&self) -> &'static [&'static str] { &["values x2 + append(true)", "values x2 + append(false)", "values(nulls) + append(false)"] }
    fn apply(&mut self, op: usize, r: &mut Rng) {
        let b = &mut self.0;
        match op {
            0 | 1 => {
                b.values().append_value(r.next() as i8);
                b.values().append_option(if r.chance(30) { None } else { Some(2) });
                b.append(op == 0)
            }
            _ => {
                b.values().append_nulls(2);
                b.append(false)
            }
        }
    }
    fn finish(&mut self) -> ArrayRef { Arc::new(self.0.finish()) }
    fn finish_cloned(&self) -> Option<ArrayRef> { Some(Arc::new(self.0.finish_cloned())) }
}

struct Fsb(FixedSizeBinaryBuilder);
impl Hist for Fsb {
    fn name(&self) -> String { "FixedSizeBinaryBuilder(3)".into() }
    fn ops(&self) -> &'static [&'static str] { &["append_value", "append_null", "append_nulls", "append_array(sliced)"] }
    fn apply(&mut self, op: usize, r: &mut Rng) {
        let b = &mut self.0;
        match op {
            0 => b.append_value([r.next() as u8, 2, 3]).unwrap(),
            1 => b.append_null(),
            2 => b.append_nulls(r.below(9)),
            _ => {
                let a = FixedSizeBinaryArray::try_from_sparse_iter_with_size([Some([1u8, 2, 3]), None, Some([4, 5, 6]), Some([7, 8, 9])].into_iter(), 3).unwrap();
                b.append_array(&maybe_slice(r, a, |a, o, l| a.slice(o, l))).unwrap()
            }
        }
    }
    fn finish(&mut self) -> ArrayRef { Arc::new(self.0.finish()) }
    fn finish_cloned(&self) -> Option<ArrayRef> { Some(Arc::new(self.0.finish_cloned())) }
}

// ------------------------------------------------------------------ struct / map / union / null
struct Struct(StructBuilder);
fn struct_fields() -> Fields {
    Fields::from(vec![Field::new("a", DataType::Int32, true), Field::new("b", DataType::Utf8View, true)])
}
impl Struct {
    fn kids(&mut self, n: usize, r: &mut Rng) {
        for _ in 0..n {
            self.0.field_builder::<Int32Builder>(0).unwrap().append_option(if r.chance(30) { None } else { Some(4) });
            self.0.field_builder::<StringViewBuilder>(1).unwrap().append_option(if r.chance(30) { None } else { Some(any_str(r)) });
        }
    }
}
impl Hist for Struct {
    fn name(&self) -> String { "StructBuilder".into() }
    fn ops(&self) -> &'static [&'static str] { &["fields+append(true)", "fields+append(false)", "fields+append_null", "fields xn+append_nulls", "fields xn+append_non_nulls"] }
    fn apply(&mut self, op: usize, r: &mut Rng) {
        match op {
            0 | 1 => {
                self.kids(1, r);
                self.0.append(op == 0)
            }
            2 => {
                self.kids(1, r);
                self.0.append_null()
            }
            3 => {
                let n = r.below(9);
                self.kids(n, r);
                self.0.append_nulls(n)
            }
            _ => {
                let n = r.below(9);
                self.kids(n, r);
                self.0.append_non_nulls(n)
            }
        }
    }
    fn finish(&mut self) -> ArrayRef { Arc::new(self.0.finish()) }
    fn finish_cloned(&self) -> Option<ArrayRef> { Some(Arc::new(self.0.finish_cloned())) }
}

struct Map(MapBuilder<StringBuilder, Int32Builder>);
impl Hist for Map {
    fn name(&self) -> String { "MapBuilder".into() }
    fn ops(&self) -> &'static [&'static str] { &["entries+append(true)", "entries+append(false)", "append(true) empty", "append_nulls"] }
    fn apply(&mut self, op: usize, r: &mut Rng) {
        let b = &mut self.0;
        match op {
            0 | 1 => {
                for _ in 0..r.below(3) {
                    b.keys().append_value(any_str(r));
                    b.values().append_option(if r.chance(30) { None } else { Some(1) });
                }
                b.append(op == 0).unwrap()
            }
            2 => b.append(true).unwrap(),
            _ => b.append_nulls(r.below(4)).unwrap(),
        }
    }
    fn finish(&mut self) -> ArrayRef { Arc::new(self.0.finish()) }
    fn finish_cloned(&self) -> Option<ArrayRef> { Some(Arc::new(self.0.finish_cloned())) }
}

struct Union { b: Option<UnionBuilder>, dense: bool }
impl Hist for Union {
    fn name(&self) -> String { format!("UnionBuilder({})", if self.dense { "dense" } else { "sparse" }) }
    fn ops(&self) -> &'static [&'static str] { &["append i32", "append f64", "append_null i32", "append i64", "append_null f64"] }
    fn apply(&mut self, op: usize, r: &mut Rng) {
        let b = self.b.as_mut().unwrap();
        match op {
            0 => b.append::<Int32Type>("i", r.next() as i32).unwrap(),
            1 => b.append::<Float64Type>("f", 1.5).unwrap(),
            2 => b.append_null::<Int32Type>("i").unwrap(),
            3 => b.append::<Int64Type>("l", -1).unwrap(),
            _ => b.append_null::<Float64Type>("f").unwrap(),
        }
    }
    fn finish(&mut self) -> ArrayRef {
        let fresh = if self.dense { UnionBuilder::new_dense() } else { UnionBuilder::new_sparse() };
        let b = self.b.replace(fresh).unwrap();
        Arc::new(b.build().unwrap())
    }
    fn finish_cloned(&self) -> Option<ArrayRef> { None }
}

struct Null(NullBuilder);
impl Hist for Null {
    fn name(&self) -> String { "NullBuilder".into() }
    fn ops(&self) -> &'static [&'static str] { &["append_null", "append_nulls", "append_empty_value", "append_empty_values"] }
    fn apply(&mut self, op: usize, r: &mut Rng) {
        match op {
            0 => self.0.append_null(),
            1 => self.0.append_nulls(r.below(9)),
            2 => self.0.append_empty_value(),
            _ => self.0.append_empty_values(r.below(9)),
        }
    }
    fn finish(&mut self) -> ArrayRef { Arc::new(self.0.finish()) }
    fn finish_cloned(&self) -> Option<ArrayRef> { Some(Arc::new(self.0.finish_cloned())) }
}

// ------------------------------------------------------------------ dictionary / run-end
struct SDict(StringDictionaryBuilder<Int8Type>, bool);
impl Hist for SDict {
    fn name(&self) -> String { format!("StringDictionaryBuilder<Int8>{}", if self.1 { "(preserve)" } else { "" }) }
    fn ops(&self) -> &'static [&'static str] { &["append", "append_value", "append_n", "append_values", "append_null", "append_nulls", "append_option", "append_options", "extend"] }
    fn apply(&mut self, op: usize, r: &mut Rng) {
        let b = &mut self.0;
        match op {
            0 => { b.append(any_str(r)).unwrap(); }
            1 => b.append_value(short(r)),
            2 => { b.append_n(long(r), r.below(4)).unwrap(); }
            3 => b.append_values(short(r), r.below(4)),
            4 => b.append_null(),
            5 => b.append_nulls(r.below(5)),
            6 => b.append_option(if r.chance(50) { None } else { Some(short(r)) }),
            7 => b.append_options(if r.chance(50) { None } else { Some(long(r)) }, r.below(4)),
            _ => { let k = r.below(5); b.extend(opt_strs(r, k)) },
        }
    }
    fn finish(&mut self) -> ArrayRef { if self.1 { Arc::new(self.0.finish_preserve_values()) } else { Arc::new(self.0.finish()) } }
    fn finish_cloned(&self) -> Option<ArrayRef> { Some(Arc::new(self.0.finish_cloned())) }
}

struct PDict(PrimitiveDictionaryBuilder<UInt16Type, Int64Type>, bool);
impl Hist for PDict {
    fn name(&self) -> String { format!("PrimitiveDictionaryBuilder<UInt16,Int64>{}", if self.1 { "(preserve)" } else { "" }) }
    fn ops(&self) -> &'static [&'static str] { &["append", "append_value", "append_n", "append_values", "append_null", "append_nulls", "append_option", "append_options", "extend"] }
    fn apply(&mut self, op: usize, r: &mut Rng) {
        let b = &mut self.0;
        let v = r.below(6) as i64;
        match op {
            0 => { b.append(v).unwrap(); }
            1 => b.append_value(v),
            2 => { b.append_n(v, r.below(4)).unwrap(); }
            3 => b.append_values(v, r.below(4)),
            4 => b.append_null(),
            5 => b.append_nulls(r.below(5)),
            6 => b.append_option(if r.chance(50) { None } else { Some(v) }),
            7 => b.append_options(if r.chance(50) { None } else { Some(v) }, r.below(4)),
            _ => b.extend([Some(1), None, Some(v)]),
        }
    }
    fn finish(&mut self) -> ArrayRef { if self.1 { Arc::new(self.0.finish_preserve_values()) } else { Arc::new(self.0.finish()) } }
    fn finish_cloned(&self) -> Option<ArrayRef> { Some(Arc::new(self.0.finish_cloned())) }
}

struct FDict(FixedSizeBinaryDictionaryBuilder<Int8Type>);
impl Hist for FDict {
    fn name(&self) -> String { "FixedSizeBinaryDictionaryBuilder<Int8>(2)".into() }
    fn ops(&self) -> &'static [&'static str] { &["append", "append_value", "append_null", "append_nulls", "append_n"] }
    fn apply(&mut self, op: usize, r: &mut Rng) {
        let b = &mut self.0;
        let v = [r.below(3) as u8, 1];
        match op {
            0 => { b.append(v).unwrap(); }
            1 => b.append_value(v),
            2 => b.append_null(),
            3 => b.append_nulls(r.below(5)),
            _ => { b.append_n(v, r.below(4)).unwrap(); }
        }
    }
    fn finish(&mut self) -> ArrayRef { Arc::new(self.0.finish()) }
    fn finish_cloned(&self) -> Option<ArrayRef> { Some(Arc::new(self.0.finish_cloned())) }
}

struct PRun(PrimitiveRunBuilder<Int16Type, Int64Type>);
impl Hist for PRun {
    fn name(&self) -> String { "PrimitiveRunBuilder<Int16,Int64>".into() }
    fn ops(&self) -> &'static [&'static str] { &["append_value", "append_value(same)", "append_null", "append_option", "extend"] }
    fn apply(&mut self, op: usize, r: &mut Rng) {
        let b = &mut self.0;
        match op {
            0 => b.append_value(r.below(3) as i64),
            1 => b.append_value(5),
            2 => b.append_null(),
            3 => b.append_option(if r.chance(50) { None } else { Some(5) }),
            _ => b.extend([Some(1), Some(1), None, None, Some(2)]),
        }
    }
    fn finish(&mut self) -> ArrayRef { Arc::new(self.0.finish()) }
    fn finish_cloned(&self) -> Option<ArrayRef> { Some(Arc::new(self.0.finish_cloned())) }
}

struct SRun(StringRunBuilder<Int32Type>);
impl Hist for SRun {
    fn name(&self) -> String { "StringRunBuilder<Int32>".into() }
    fn ops(&self) -> &'static [&'static str] { &["append_value(short)", "append_value(long)", "append_null", "append_option", "extend"] }
    fn apply(&mut self, op: usize, r: &mut Rng) {
        let b = &mut self.0;
        match op {
            0 => b.append_value(["x", "y"][r.below(2)]),
            1 => b.append_value(LONG[0]),
            2 => b.append_null(),
            3 => b.append_option(if r.chance(50) { None } else { Some("x") }),
            _ => b.extend([Some("a"), Some("a"), None, Some("b")]),
        }
    }
    fn finish(&mut self) -> ArrayRef { Arc::new(self.0.finish()) }
    fn finish_cloned(&self) -> Option<ArrayRef> { Some(Arc::new(self.0.finish_cloned())) }
}

// ------------------------------------------------------------------ buffer builders
/// NullBufferBuilder + BooleanBufferBuilder histories, observed through BooleanArray::new
struct Bits { nulls: NullBufferBuilder, vals: BooleanBufferBuilder }
impl Hist for Bits {
    fn name(&self) -> String { "NullBufferBuilder+BooleanBufferBuilder".into() }
    fn ops(&self) -> &'static [&'static str] {
        &["append", "append_n/n_nulls", "append_n/n_non_nulls", "append_slice", "append_buffer(sliced)", "append_packed_range", "truncate", "set_bit", "append_word", "resize+advance"]
    }
    fn apply(&mut self, op: usize, r: &mut Rng) {
        match op {
            0 => {
                self.nulls.append(r.chance(70));
                self.vals.append(r.chance(50))
            }
            1 => {
                let n = r.below(20);
                self.nulls.append_n_nulls(n);
                self.vals.append_n(n, false)
            }
            2 => {
                let n = r.below(20);
                self.nulls.append_n_non_nulls(n);
                self.vals.append_n(n, true)
            }
            3 => {
                let s: Vec<bool> = (0..r.below(12)).map(|_| r.chance(60)).collect();
                self.nulls.append_slice(&s);
                self.vals.append_slice(&s)
            }
            4 => {
                let bits: Vec<bool> = (0..23).map(|i| i % 3 != 0).collect();
                let nb = NullBuffer::from(bits);
                let o = r.below(10);
                let nb = nb.slice(o, r.below(23 - o));
                self.nulls.append_buffer(&nb);
                self.vals.append_buffer(nb.inner())
            }
            5 => {
                let o = r.below(9);
                let e = o + r.below(8);
                self.vals.append_packed_range(o..e, &[0b1011_0101, 0b0110_1101]);
                self.nulls.append_n_non_nulls(e - o)
            }
            6 => {
                let n = self.vals.len();
                let k = if n == 0 { 0 } else { r.below(n + 1) };
                self.vals.truncate(k);
                self.nulls.truncate(k)
            }
            7 => {
                let n = self.vals.len();
                if n > 0 {
                    let i = r.below(n);
                    self.vals.set_bit(i, r.chance(50));
                    if self.nulls.len() == n && self.nulls.as_slice().is_some() {
                        self.nulls.set_bit(i, r.chance(50));
                    }
                }
            }
            8 => {
                let c = r.below(65);
                self.vals.append_word(r.next(), c);
                self.nulls.append_n_non_nulls(c)
            }
            _ => {
                let k = r.below(9);
                let n = self.vals.len();
                if r.chance(50) { self.vals.resize(n + k) } else { self.vals.advance(k) }
                self.nulls.append_n_nulls(k)
            }
        }
    }
    fn finish(&mut self) -> ArrayRef { Arc::new(BooleanArray::new(self.vals.finish(), self.nulls.finish())) }
    fn finish_cloned(&self) -> Option<ArrayRef> { Some(Arc::new(BooleanArray::new(self.vals.finish_cloned(), self.nulls.finish_cloned()))) }
}

// ------------------------------------------------------------------ runner
type Maker = Box<dyn Fn() -> Box<dyn Hist>>;

fn families() -> Vec<(Maker, usize)> {
    // (constructor, exhaustive depth on a fresh builder)
    let mut v: Vec<(Maker, usize)> = vec![];
    macro_rules! fam { ($d:expr, $e:expr) => { v.push((Box::new(move || Box::new($e) as Box<dyn Hist>), $d)); }; }
    fam!(2, Prim(Int32Builder::new()));
    fam!(2, Dec(Decimal128Builder::new().with_precision_and_scale(10, 2).unwrap()));
    fam!(2, Bool(BooleanBuilder::new()));
    fam!(2, Str::<i32>(GenericStringBuilder::new()));
    fam!(2, Str::<i64>(GenericStringBuilder::new()));
    fam!(2, Bin(LargeBinaryBuilder::new()));
    fam!(3, SView::new(0));
    fam!(2, SView::new(1));
    fam!(2, SView::new(2));
    fam!(2, BView(BinaryViewBuilder::new()));
    fam!(2, List::<i32>(GenericListBuilder::new(Int32Builder::new())));
    fam!(2, List::<i64>(GenericListBuilder::new(Int32Builder::new())));
    fam!(2, ListStr(ListBuilder::new(StringViewBuilder::new())));
    fam!(2, ListV(ListViewBuilder::new(Int32Builder::new())));
    fam!(2, Fsl(FixedSizeListBuilder::new(Int8Builder::new(), 2)));
    fam!(2, Fsb(FixedSizeBinaryBuilder::new(3)));
    fam!(2, Struct(StructBuilder::from_fields(struct_fields(), 0)));
    fam!(2, Map(MapBuilder::new(None, StringBuilder::new(), Int32Builder::new())));
    fam!(2, Union { b: Some(UnionBuilder::new_dense()), dense: true });
    fam!(2, Union { b: Some(UnionBuilder::new_sparse()), dense: false });
    fam!(2, Null(NullBuilder::new()));
    fam!(2, SDict(StringDictionaryBuilder::new(), false));
    fam!(1, SDict(StringDictionaryBuilder::new(), true));
    fam!(2, PDict(PrimitiveDictionaryBuilder::new(), false));
    fam!(1, PDict(PrimitiveDictionaryBuilder::new(), true));
    fam!(2, FDict(FixedSizeBinaryDictionaryBuilder::new(2)));
    fam!(2, PRun(PrimitiveRunBuilder::new()));
    fam!(2, SRun(StringRunBuilder::new()));
    fam!(2, Bits { nulls: NullBufferBuilder::new(0), vals: BooleanBufferBuilder::new(0) });
    v
}

pub struct Stats {
    pub histories: usize,
    pub op_panics: usize,
    pub panic_msgs: std::collections::BTreeMap<String, usize>,
}

/// run all builder histories; `out(api, array)` receives every array a finish returned
pub fn run(rng: &mut Rng, random_per_family: usize, mut out: impl FnMut(&str, &ArrayRef)) -> Stats {
    let mut st = Stats { histories: 0, op_panics: 0, panic_msgs: Default::default() };
    for (make, depth) in families() {
        let nops = make().ops().len();
        // exhaustive: every sequence of 1..=depth operations on a fresh builder, then finish
        let mut seqs: Vec<Vec<usize>> = vec![vec![]];
        let mut frontier: Vec<Vec<usize>> = vec![vec![]];
        for _ in 0..depth {
            let mut next = vec![];
            for s in &frontier {
                for o in 0..nops {
                    let mut t = s.clone();
                    t.push(o);
                    next.push(t);
                }
            }
            seqs.extend(next.iter().cloned());
            frontier = next;
        }
        for s in seqs {
            history(rng, make(), &s, false, &mut st, &mut out);
        }
        // random: longer, with finish / finish_cloned interleaved and the builder re-used
        for _ in 0..random_per_family {
            let n = 3 + rng.below(8);
            let s: Vec<usize> = (0..n).map(|_| rng.below(nops)).collect();
            history(rng, make(), &s, true, &mut st, &mut out);
        }
    }
    st
}

fn history(rng: &mut Rng, mut h: Box<dyn Hist>, seq: &[usize], interleave: bool, st: &mut Stats, out: &mut impl FnMut(&str, &ArrayRef)) {
    st.histories += 1;
    let name = h.name();
    let note = |st: &mut Stats, what: &str, p: String| {
        st.op_panics += 1;
        *st.panic_msgs.entry(format!("[{name}::{what}] {}", p.chars().take(70).collect::<String>().replace('\n', " "))).or_insert(0) += 1;
    };
    for (i, op) in seq.iter().enumerate() {
        let opn = h.ops()[*op];
        if let Err(p) = guarded(|| h.apply(*op, rng)) {
            note(st, opn, p);
            return; // the builder may be inconsistent now
        }
        if interleave && i + 1 < seq.len() && rng.chance(30) {
            if rng.chance(50) {
                match guarded(|| h.finish_cloned()) {
                    Ok(Some(a)) => out(&format!("hist:{name}::finish_cloned"), &a),
                    Ok(None) => {}
                    Err(p) => { note(st, "finish_cloned", p); return; }
                }
            } else {
                match guarded(|| h.finish()) {
                    Ok(a) => out(&format!("hist:{name}::finish(mid)"), &a),
                    Err(p) => { note(st, "finish(mid)", p); return; }
                }
            }
        }
    }
    if interleave {
        if let Ok(Some(a)) = guarded(|| h.finish_cloned()) {
            out(&format!("hist:{name}::finish_cloned"), &a);
        }
    }
    match guarded(|| h.finish()) {
        Ok(a) => out(&format!("hist:{name}::finish"), &a),
        Err(p) => { note(st, "finish", p); return; }
    }
    // a finished builder is empty and reusable
    match guarded(|| h.finish()) {
        Ok(a) => {
            if interleave { out(&format!("hist:{name}::finish(again)"), &a) }
        }
        Err(p) => note(st, "finish(again)", p),
    }
}
