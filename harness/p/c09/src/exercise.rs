//! After a constructor accepted a candidate: walk every safe accessor, iterator,
//! formatter and a fixed set of kernels over the result.  Runs in a forked child so that
//! a crash (the precondition of memory safety was violated) is an observation, not the
//! end of the driver.  Returns "ok", "panic: ..", or "signal N".
use arrow_array::*;
use arrow_cast::display::{ArrayFormatter, FormatOptions};
use vcore::guarded;

fn walk(a: ArrayRef) {
    let n = a.len();
    let small = n <= 4096;
    let _ = a.null_count();
    let _ = a.logical_null_count();
    let _ = a.logical_nulls();
    let _ = a.is_nullable();
    let _ = a.get_array_memory_size();
    let _ = a.get_buffer_memory_size();
    let d = a.to_data();
    let _ = d.get_slice_memory_size();
    let lim = if small { n } else { 16 };
    for i in 0..lim {
        let _ = a.is_null(i);
        let _ = a.is_valid(i);
    }
    if small {
        let _ = vcore::tok::rows(a.as_ref());
        if let Ok(f) = ArrayFormatter::try_new(a.as_ref(), &FormatOptions::default()) {
            for i in 0..n {
                let _ = f.value(i).try_to_string();
            }
        }
        let _ = format!("{a:?}");
        // equality with itself walks both sides
        let _ = a.to_data() == d;
    }
    // slices
    let cuts: Vec<(usize, usize)> = if n == 0 { vec![(0, 0)] } else { vec![(0, n.min(3)), (n - 1, 1), (n / 2, n - n / 2), (n, 0)] };
    for (o, l) in cuts {
        let s = a.slice(o, l);
        if l <= 4096 {
            let _ = vcore::tok::rows(s.as_ref());
            let _ = s.to_data().validate_full();
        }
    }
    if small {
        let idx = UInt32Array::from((0..n as u32).rev().collect::<Vec<_>>());
        if let Ok(t) = arrow_select::take::take(a.as_ref(), &idx, None) {
            let _ = vcore::tok::rows(t.as_ref());
        }
        let mask = BooleanArray::from((0..n).map(|i| i % 2 == 0).collect::<Vec<_>>());
        if let Ok(t) = arrow_select::filter::filter(a.as_ref(), &mask) {
            let _ = vcore::tok::rows(t.as_ref());
        }
        if let Ok(t) = arrow_select::concat::concat(&[a.as_ref(), a.as_ref()]) {
            let _ = vcore::tok::rows(t.as_ref());
        }
        if let Ok(t) = arrow_cast::cast(a.as_ref(), &arrow_schema::DataType::Utf8) {
            let _ = vcore::tok::rows(t.as_ref());
        }
    }
}

/// run `make` and walk the array it yields, isolated in a child process
pub fn exercise(make: impl FnOnce() -> ArrayRef) -> String {
    unsafe {
        let mut fds = [0i32; 2];
        if libc::pipe(fds.as_mut_ptr()) != 0 {
            return inline(make);
        }
        let pid = libc::fork();
        if pid < 0 {
            libc::close(fds[0]);
            libc::close(fds[1]);
            return inline(make);
        }
        if pid == 0 {
            libc::close(fds[0]);
            libc::alarm(20);
            let msg = inline(make);
            let b = msg.as_bytes();
            let n = b.len().min(160);
            let _ = libc::write(fds[1], b.as_ptr() as *const libc::c_void, n);
            libc::_exit(0);
        }
        libc::close(fds[1]);
        let mut buf = [0u8; 256];
        let mut got = vec![];
        loop {
            let n = libc::read(fds[0], buf.as_mut_ptr() as *mut libc::c_void, buf.len());
            if n <= 0 {
                break;
            }
            got.extend_from_slice(&buf[..n as usize]);
        }
        libc::close(fds[0]);
        let mut status = 0i32;
        libc::waitpid(pid, &mut status, 0);
        if libc::WIFSIGNALED(status) {
            return format!("signal {}", libc::WTERMSIG(status));
        }
        let s = String::from_utf8_lossy(&got).to_string();
        if s.is_empty() { "child exited without a report".into() } else { s }
    }
}

fn inline(make: impl FnOnce() -> ArrayRef) -> String {
    match guarded(move || walk(make())) {
        Ok(()) => "ok".into(),
        Err(p) => {
            let mut m = format!("panic: {p}");
            m.truncate(150);
            m.replace('\n', " ")
        }
    }
}
