//! After a constructor accepted a candidate: walk every safe accessor, iterator,
//! formatter and a fixed set of kernels over the result.  Runs in a forked child so that
//! a crash (the precondition of memory safety was violated) is an observation, not the
//! end of the driver.  Returns "ok", "panic: ..", or "signal N".
use arrow_array::*;
use arrow_data::ArrayData;
use arrow_cast::display::{ArrayFormatter, FormatOptions};
use vcore::guarded;

thread_local! {
    static STAGE: std::cell::Cell<&'static str> = const { std::cell::Cell::new("make_array") };
}
fn stage(s: &'static str) {
    STAGE.with(|x| x.set(s));
}

/// reading the *output* of a kernel: a panic there is the kernel's business (C03 / C01), not
/// an observation about the accepted candidate
fn read(a: &dyn Array) {
    let _ = guarded(|| vcore::tok::rows(a));
}

fn walk(a: ArrayRef) {
    stage("counts");
    let n = a.len();
    let small = n <= 4096;
    let _ = a.null_count();
    if small {
        // (these allocate O(len) memory: not for the legal 2^40-row Null / zero-width arrays)
        let _ = a.logical_null_count();
        let _ = a.logical_nulls();
        let _ = a.is_nullable();
    }
    let _ = a.get_array_memory_size();
    let _ = a.get_buffer_memory_size();
    let d = a.to_data();
    let _ = d.get_slice_memory_size();
    let lim = if small { n } else { 16 };
    for i in 0..lim {
        let _ = a.is_null(i);
        let _ = a.is_valid(i);
    }
    if small {
        stage("accessors");
        let _ = vcore::tok::rows(a.as_ref());
        stage("format");
        if let Ok(f) = ArrayFormatter::try_new(a.as_ref(), &FormatOptions::default()) {
            for i in 0..n {
                let _ = f.value(i).try_to_string();
            }
        }
        let _ = format!("{a:?}");
        // equality with itself walks both sides
        let _ = a.to_data() == d;
    }
    // slices
    stage("slice");
    let cuts: Vec<(usize, usize)> = if n == 0 { vec![(0, 0)] } else { vec![(0, n.min(3)), (n - 1, 1), (n / 2, n - n / 2), (n, 0)] };
    for (o, l) in cuts {
        let s = a.slice(o, l);
        if l <= 4096 {
            let _ = vcore::tok::rows(s.as_ref());
            let _ = s.to_data().validate_full();
        }
    }
    if small {
        stage("take");
        let idx = UInt32Array::from((0..n as u32).rev().collect::<Vec<_>>());
        if let Ok(t) = arrow_select::take::take(a.as_ref(), &idx, None) {
            read(t.as_ref());
        }
        stage("filter");
        let mask = BooleanArray::from((0..n).map(|i| i % 2 == 0).collect::<Vec<_>>());
        if let Ok(t) = arrow_select::filter::filter(a.as_ref(), &mask) {
            read(t.as_ref());
        }
        stage("concat");
        if let Ok(t) = arrow_select::concat::concat(&[a.as_ref(), a.as_ref()]) {
            read(t.as_ref());
        }
        stage("cast");
        if let Ok(t) = arrow_cast::cast(a.as_ref(), &arrow_schema::DataType::Utf8) {
            read(t.as_ref());
        }
    }
}

/// Walk every item in a forked child (one child per batch; fork is expensive in some
/// sandboxes).  The child streams one record per item; when it dies (signal) the item it
/// was working on is reported as "signal N" and a fresh child continues with the rest.
pub fn exercise_batch(items: Vec<ArrayData>) -> Vec<String> {
    let mut out = vec![String::new(); items.len()];
    let mut start = 0usize;
    while start < items.len() {
        let (done, sig) = unsafe { run_child(&items, start, &mut out) };
        start += done;
        if start < items.len() {
            match sig {
                Some(s) => {
                    out[start] = format!("signal {s}");
                    start += 1;
                }
                None => {
                    // no child could be started (or it stopped early without a signal): do the rest inline
                    for k in start..items.len() {
                        let d = items[k].clone();
                        out[k] = inline(move || make_array(d));
                    }
                    start = items.len();
                }
            }
        }
    }
    out
}

/// returns (number of items reported, terminating signal of the child if any)
unsafe fn run_child(items: &[ArrayData], start: usize, out: &mut [String]) -> (usize, Option<i32>) {
    unsafe {
        let mut fds = [0i32; 2];
        if libc::pipe(fds.as_mut_ptr()) != 0 {
            return (0, None);
        }
        let pid = libc::fork();
        if pid < 0 {
            libc::close(fds[0]);
            libc::close(fds[1]);
            return (0, None);
        }
        if pid == 0 {
            libc::close(fds[0]);
            for d in &items[start..] {
                libc::alarm(30);
                let d = d.clone();
                let msg = inline(move || make_array(d));
                let b = msg.as_bytes();
                let n = b.len().min(200) as u16;
                let hdr = n.to_le_bytes();
                let _ = libc::write(fds[1], hdr.as_ptr() as *const libc::c_void, 2);
                let _ = libc::write(fds[1], b.as_ptr() as *const libc::c_void, n as usize);
            }
            libc::_exit(0);
        }
        libc::close(fds[1]);
        let mut got: Vec<u8> = vec![];
        let mut buf = [0u8; 65536];
        loop {
            let n = libc::read(fds[0], buf.as_mut_ptr() as *mut libc::c_void, buf.len());
            if n <= 0 {
                break;
            }
            got.extend_from_slice(&buf[..n as usize]);
        }
        libc::close(fds[0]);
        let mut status = 0i32;
        libc::waitpid(pid, &mut status, 0);
        let mut done = 0usize;
        let mut p = 0usize;
        while p + 2 <= got.len() {
            let n = u16::from_le_bytes([got[p], got[p + 1]]) as usize;
            if p + 2 + n > got.len() {
                break;
            }
            out[start + done] = String::from_utf8_lossy(&got[p + 2..p + 2 + n]).to_string();
            done += 1;
            p += 2 + n;
        }
        let sig = if libc::WIFSIGNALED(status) { Some(libc::WTERMSIG(status)) } else { None };
        (done, sig)
    }
}

fn inline(make: impl FnOnce() -> ArrayRef) -> String {
    stage("make_array");
    match guarded(move || walk(make())) {
        Ok(()) => "ok".into(),
        Err(p) => {
            let mut m = format!("panic: [{}] {p}", STAGE.with(|x| x.get()));
            m.truncate(150);
            m.replace('\n', " ")
        }
    }
}
