//! Candidate layouts for C09: the parts a validating constructor is given, derived from
//! valid arrays, and the one-field corruptions applied to them.  Nothing here judges a
//! candidate: the labels only say what was changed (some "corruptions" are legal and act
//! as controls, e.g. an out-of-range key under a null slot).
use arrow_array::Array;
use arrow_buffer::{Buffer, MutableBuffer};
use arrow_data::ArrayData;
use arrow_schema::{DataType, Field, Fields, UnionMode};
use std::sync::Arc;
use vcore::dump::{self, NullsDump};
use vcore::{Rng, Value};

#[derive(Clone)]
pub struct Parts {
    pub dt: DataType,
    pub len: usize,
    pub offset: usize,
    /// validity bitmap addressed at `offset` (bit offset+i = slot i)
    pub null_buf: Option<Buffer>,
    /// null count declared to entry points that take one
    pub declared_nc: Option<usize>,
    pub buffers: Vec<Buffer>,
    pub children: Vec<ArrayData>,
}

/// a 64-byte aligned copy
pub fn aligned(bytes: &[u8]) -> Buffer {
    let mut m = MutableBuffer::new(bytes.len());
    m.extend_from_slice(bytes);
    m.into()
}

/// a copy whose first byte sits one past a 64-byte boundary
pub fn misaligned(bytes: &[u8]) -> Buffer {
    let mut m = MutableBuffer::new(bytes.len() + 1);
    m.push(0xEEu8);
    m.extend_from_slice(bytes);
    let b: Buffer = m.into();
    b.slice_with_length(1, bytes.len())
}

pub fn get_int(bytes: &[u8], w: usize, idx: usize) -> Option<i64> {
    let lo = idx.checked_mul(w)?;
    let s = bytes.get(lo..lo + w)?;
    let mut raw = [0u8; 8];
    raw[..w.min(8)].copy_from_slice(&s[..w.min(8)]);
    if w < 8 && s[w - 1] & 0x80 != 0 {
        for b in raw[w..].iter_mut() {
            *b = 0xFF;
        }
    }
    Some(i64::from_le_bytes(raw))
}

pub fn set_int(bytes: &mut [u8], w: usize, idx: usize, v: i64) -> bool {
    let Some(lo) = idx.checked_mul(w) else { return false };
    if lo + w > bytes.len() {
        return false;
    }
    bytes[lo..lo + w].copy_from_slice(&v.to_le_bytes()[..w]);
    true
}

impl Parts {
    /// the parts of a valid array; the validity bitmap is re-laid at the array offset,
    /// with random bits in front of it
    pub fn of(d: &ArrayData, rng: &mut Rng) -> Parts {
        let mut p = Parts {
            dt: d.data_type().clone(),
            len: d.len(),
            offset: d.offset(),
            null_buf: None,
            declared_nc: None,
            buffers: d.buffers().to_vec(),
            children: d.child_data().to_vec(),
        };
        if let Some(n) = d.nulls() {
            let bits: Vec<bool> = (0..d.len()).map(|i| n.is_valid(i)).collect();
            p.set_validity(&bits, rng);
        }
        p
    }

    pub fn set_validity(&mut self, bits: &[bool], rng: &mut Rng) {
        let total = self.offset + bits.len();
        let mut bytes = vec![0u8; total.div_ceil(8) + rng.below(2)];
        for b in bytes.iter_mut() {
            *b = rng.next() as u8;
        }
        for (i, v) in bits.iter().enumerate() {
            let p = self.offset + i;
            if *v {
                bytes[p / 8] |= 1 << (p % 8);
            } else {
                bytes[p / 8] &= !(1 << (p % 8));
            }
        }
        self.null_buf = Some(aligned(&bytes));
        self.declared_nc = Some(bits.iter().filter(|b| !**b).count());
    }

    pub fn valid_bits(&self) -> Option<Vec<bool>> {
        let b = self.null_buf.as_ref()?;
        let s = b.as_slice();
        Some((0..self.len).map(|i| {
            let p = self.offset + i;
            s.get(p / 8).map(|x| x >> (p % 8) & 1 == 1).unwrap_or(true)
        }).collect())
    }

    /// format-style slice: same buffers and children, new (offset, len)
    pub fn slice(&self, o: usize, n: usize, rng: &mut Rng) -> Parts {
        let bits = self.valid_bits();
        let mut p = self.clone();
        p.offset = self.offset + o;
        p.len = n;
        if let Some(bits) = bits {
            p.set_validity(&bits[o..o + n], rng);
        }
        p
    }

    pub fn dump(&self, use_declared: bool) -> Value {
        let nulls = match &self.null_buf {
            None => NullsDump::absent(),
            Some(b) => NullsDump::raw(b, self.offset, self.len, if use_declared { self.declared_nc } else { None }),
        };
        dump::layout_of_parts(&self.dt, self.len, self.offset, &nulls, &self.buffers, dump::kids_of(&self.dt, &self.children), false)
    }

    pub fn kind(&self) -> String {
        dump::type_desc(&self.dt)["k"].as_str().unwrap().to_string()
    }

    fn buf_vec(&self, i: usize) -> Vec<u8> {
        self.buffers[i].as_slice().to_vec()
    }

    fn with_buf(&self, i: usize, bytes: &[u8]) -> Parts {
        let mut p = self.clone();
        p.buffers[i] = aligned(bytes);
        p
    }

    /// buffer i with element `idx` (absolute) of width w set to v
    fn poke(&self, i: usize, w: usize, idx: usize, v: i64) -> Option<Parts> {
        let mut b = self.buf_vec(i);
        if !set_int(&mut b, w, idx, v) {
            return None;
        }
        Some(self.with_buf(i, &b))
    }

    fn peek(&self, i: usize, w: usize, idx: usize) -> Option<i64> {
        get_int(self.buffers.get(i)?.as_slice(), w, idx)
    }
}

/// width of the fixed-width elements of buffer `i` of this kind, if it is a fixed-width buffer
fn fixed_width(p: &Parts, i: usize) -> Option<usize> {
    let t = dump::type_desc(&p.dt);
    let k = t["k"].as_str().unwrap();
    let w = t["w"].as_i64().unwrap() as usize;
    match (k, i) {
        ("prim", 0) | ("dict", 0) => Some(w),
        ("bin", 0) | ("utf8", 0) | ("list", 0) | ("map", 0) | ("listview", 0) | ("listview", 1) => Some(w),
        ("binview", 0) | ("utf8view", 0) => Some(16),
        ("union", 0) => Some(1),
        ("union", 1) => Some(4),
        ("fsb", 0) => Some((t["size"].as_i64().unwrap().max(0)) as usize),
        _ => None,
    }
}

fn other_type(dt: &DataType) -> DataType {
    if matches!(dt, DataType::Int64) { DataType::Int32 } else { DataType::Int64 }
}

fn arr_of(dt: &DataType, len: usize, rng: &mut Rng) -> ArrayData {
    vcore::mk::array(rng, dt, len, vcore::mk::Cfg::tame(0)).to_data()
}

/// the first, a middle and the last index of 0..n (distinct)
pub fn positions(n: usize) -> Vec<(&'static str, usize)> {
    let mut v = vec![];
    if n >= 1 {
        v.push(("first", 0));
    }
    if n >= 3 {
        v.push(("mid", n / 2));
    }
    if n >= 2 {
        v.push(("last", n - 1));
    }
    v
}

/// all single corruptions (and a few legal variations) of a valid candidate
pub fn corruptions(p: &Parts, rng: &mut Rng) -> Vec<(String, Parts)> {
    let mut out: Vec<(String, Parts)> = vec![];
    let mut add = |name: &str, q: Option<Parts>| {
        if let Some(q) = q {
            out.push((name.to_string(), q));
        }
    };
    let kind = p.kind();
    let k = kind.as_str();
    let end = p.offset + p.len;

    // ---- length / offset
    add("len_plus_1", Some(Parts { len: p.len + 1, ..p.clone() }.fix_nulls(p, rng)));
    add("offset_plus_1", Some(Parts { offset: p.offset + 1, ..p.clone() }));
    add("len_2pow40", Some(Parts { len: 1 << 40, ..p.clone() }));
    add("len_max_overflow", Some(Parts { len: usize::MAX, offset: p.offset.max(1), ..p.clone() }));
    add("offset_max_no_overflow", Some(Parts { offset: usize::MAX - p.len, ..p.clone() }));
    add("len_i64max_plus_offset", Some(Parts { len: (i64::MAX as usize) - p.offset + 1, ..p.clone() }));

    // ---- validity bitmap
    if let Some(nb) = &p.null_buf {
        let need = end.div_ceil(8);
        if need >= 1 {
            add("null_buf_short", Some(Parts { null_buf: Some(nb.slice_with_length(0, need - 1)), ..p.clone() }));
        }
        let nc = p.declared_nc.unwrap_or(0);
        add("null_count_plus_1", Some(Parts { declared_nc: Some(nc + 1), ..p.clone() }));
        if nc >= 2 {
            add("null_count_minus_1", Some(Parts { declared_nc: Some(nc - 1), ..p.clone() }));
        }
        add("null_count_len_plus_1", Some(Parts { declared_nc: Some(p.len + 1), ..p.clone() }));
    } else if p.len > 0 {
        // a bitmap with one null where the type may (or may not: null / union / run-end) carry one
        let mut q = p.clone();
        let mut bits = vec![true; p.len];
        bits[rng.below(p.len)] = false;
        q.set_validity(&bits, rng);
        add("add_validity_one_null", Some(q));
    }

    // ---- buffers: count, size, alignment
    if !p.buffers.is_empty() {
        let mut q = p.clone();
        q.buffers.pop();
        add("buffer_missing", Some(q));
    }
    {
        let mut q = p.clone();
        q.buffers.push(aligned(&[0u8; 16]));
        add("buffer_extra", Some(q));
    }
    for i in 0..p.buffers.len() {
        if let Some(w) = fixed_width(p, i) {
            let extra = if matches!((k, i), ("bin", 0) | ("utf8", 0) | ("list", 0) | ("map", 0)) { 1 } else { 0 };
            let need = (end + extra) * w;
            if need >= 1 && p.buffers[i].len() >= need {
                add(&format!("buffer{i}_one_byte_short"), Some({
                    let mut q = p.clone();
                    q.buffers[i] = p.buffers[i].slice_with_length(0, need - 1);
                    q
                }));
                add(&format!("buffer{i}_exact"), Some({
                    let mut q = p.clone();
                    q.buffers[i] = aligned(&p.buffers[i].as_slice()[..need]);
                    q
                }));
            }
            if w > 1 || matches!(k, "binview" | "utf8view") {
                add(&format!("buffer{i}_misaligned"), Some({
                    let mut q = p.clone();
                    q.buffers[i] = misaligned(p.buffers[i].as_slice());
                    q
                }));
            }
        }
    }
    if k == "bool" {
        let need = end.div_ceil(8);
        if need >= 1 {
            let mut q = p.clone();
            q.buffers[0] = p.buffers[0].slice_with_length(0, need - 1);
            add("buffer0_one_byte_short", Some(q));
        }
    }

    // ---- children: count, type, length
    if !p.children.is_empty() {
        let mut q = p.clone();
        q.children.pop();
        add("child_missing", Some(q));
        let mut q = p.clone();
        q.children.push(p.children[0].clone());
        add("child_extra", Some(q));
        for c in 0..p.children.len() {
            let mut q = p.clone();
            let ot = other_type(p.children[c].data_type());
            q.children[c] = arr_of(&ot, p.children[c].len(), rng);
            add(&format!("child{c}_wrong_type"), Some(q));
            if p.children[c].len() >= 1 {
                let mut q = p.clone();
                q.children[c] = p.children[c].slice(0, p.children[c].len() - 1);
                add(&format!("child{c}_one_shorter"), Some(q));
                let mut q = p.clone();
                q.children[c] = p.children[c].slice(0, 0);
                add(&format!("child{c}_empty"), Some(q));
            }
        }
    } else if !matches!(k, "null") {
        let mut q = p.clone();
        q.children.push(arr_of(&DataType::Int32, p.len, rng));
        add("child_unexpected", Some(q));
    }
    // children exactly as long as `len` although offset > 0 (struct / fixed-size list / sparse union)
    if p.offset > 0 {
        match &p.dt {
            DataType::Struct(_) | DataType::Union(_, UnionMode::Sparse) => {
                if p.children.iter().all(|c| c.len() >= p.len) && !p.children.is_empty() {
                    let mut q = p.clone();
                    q.children = p.children.iter().map(|c| c.slice(0, p.len)).collect();
                    add("children_len_ignores_offset", Some(q));
                }
            }
            DataType::FixedSizeList(_, n) if *n > 0 => {
                let need = p.len * (*n as usize);
                if p.children[0].len() >= need {
                    let mut q = p.clone();
                    q.children[0] = p.children[0].slice(0, need);
                    add("children_len_ignores_offset", Some(q));
                }
            }
            _ => {}
        }
    }

    // Every per-element check of the validators is probed at the first, a middle and the last
    // element of the addressed window (and, through the sliced variant of every base array, with
    // array offset 0 and > 0).

    // ---- offsets (binary / utf8 / list / map)
    if matches!(k, "bin" | "utf8" | "list" | "map") && !p.buffers.is_empty() {
        let w = fixed_width(p, 0).unwrap();
        let limit = if matches!(k, "bin" | "utf8") { p.buffers.get(1).map(|b| b.len()).unwrap_or(0) } else { p.children.first().map(|c| c.len()).unwrap_or(0) } as i64;
        let o = |i: usize| p.peek(0, w, p.offset + i);
        if p.len >= 1 {
            // value i: its start offset above its end offset
            for (pl, i) in positions(p.len) {
                add(&format!("offset_out_of_order@{pl}"), o(i + 1).and_then(|b| p.poke(0, w, p.offset + i, b + 1)));
            }
            // each of the len+1 offsets: negative / past the end of the data
            for (pl, i) in positions(p.len + 1) {
                add(&format!("offset_{pl}_negative"), p.poke(0, w, p.offset + i, if i == 0 { -1 } else { -3 }));
                add(&format!("offset_{pl}_past_end"), p.poke(0, w, p.offset + i, limit + 1 + i as i64));
            }
            add("offset_last_2pow40", if w == 8 { p.poke(0, w, p.offset + p.len, 1 << 40) } else { p.poke(0, w, p.offset + p.len, i32::MAX as i64) });
            if let (Some(prev), true) = (o(p.len - 1), p.len >= 1) {
                if prev >= 1 {
                    add("offset_last_below_previous", p.poke(0, w, p.offset + p.len, prev - 1));
                }
            }
            // all offsets shifted: first offset > 0 is legal when it stays within the data
            if let Some(last) = o(p.len) {
                if last < limit {
                    let mut b = p.buf_vec(0);
                    for j in 0..=p.len {
                        let v = get_int(&b, w, p.offset + j).unwrap();
                        set_int(&mut b, w, p.offset + j, v + 1);
                    }
                    add("offsets_all_plus_1", Some(p.with_buf(0, &b)));
                }
            }
        }
        // an empty offsets buffer: legal for len 0 only
        add("offsets_buffer_empty", Some(p.with_buf(0, &[])));
    }

    // ---- utf8 data
    if k == "utf8" && p.buffers.len() == 2 && p.len >= 1 {
        let w = fixed_width(p, 0).unwrap();
        let data = p.buf_vec(1);
        let offs: Vec<i64> = (0..=p.len).filter_map(|i| p.peek(0, w, p.offset + i)).collect();
        let sane = offs.len() == p.len + 1 && offs.windows(2).all(|x| x[0] <= x[1]) && offs[0] >= 0 && offs[p.len] as usize <= data.len();
        if sane {
            let lo = offs[0] as usize;
            let hi = offs[p.len] as usize;
            if hi > lo {
                // garbage outside the referenced range is legal
                let mut d2 = data.clone();
                d2.extend_from_slice(&[0xFF, 0xC0, 0x80]);
                add("utf8_garbage_after_last_offset", Some(p.with_buf(1, &d2)));
            }
            // an invalid byte inside the first / a middle / the last value
            for (pl, i) in positions(p.len) {
                let (a, b) = (offs[i] as usize, offs[i + 1] as usize);
                if b > a {
                    let pos = a + rng.below(b - a);
                    let mut d2 = data.clone();
                    d2[pos] = 0xFF;
                    add(&format!("utf8_byte_ff@{pl}"), Some(p.with_buf(1, &d2)));
                    let mut d2 = data.clone();
                    d2[pos] = 0x80; // a continuation byte in place of whatever was there
                    add(&format!("utf8_stray_continuation@{pl}"), Some(p.with_buf(1, &d2)));
                }
            }
            // Each individual offset (first / middle / last of the window) moved into the middle of a
            // multi-byte character; the values buffer stays valid UTF-8 as a whole and the offsets stay
            // monotone.  `fwd`: into the character that starts at the offset; `back`: into the one
            // that ends there.
            for (pl, i) in positions(p.len + 1) {
                let cur = offs[i] as usize;
                let next = if i < p.len { offs[i + 1] as usize } else { data.len() };
                let prev = if i > 0 { offs[i - 1] as usize } else { 0 };
                if cur < data.len() && data[cur] >= 0xC2 && cur + 1 <= next {
                    add(&format!("utf8_offset_{pl}_into_char_fwd"), p.poke(0, w, p.offset + i, cur as i64 + 1));
                }
                if cur >= 1 && (0x80..0xC0).contains(&data[cur - 1]) && cur - 1 >= prev {
                    add(&format!("utf8_offset_{pl}_into_char_back"), p.poke(0, w, p.offset + i, cur as i64 - 1));
                }
            }
            // ill-formed sequences of every class in place of a well-formed character
            for i in 0..p.len {
                let (a, b) = (offs[i] as usize, offs[i + 1] as usize);
                let v = &data[a..b];
                if let Some(j) = v.iter().position(|x| *x >= 0xC2) {
                    let n = if v[j] >= 0xF0 { 4 } else if v[j] >= 0xE0 { 3 } else { 2 };
                    if j + n > v.len() {
                        continue;
                    }
                    let mut d2 = data.clone();
                    match n {
                        2 => { d2[a + j] = 0xC0; }                              // overlong 2-byte form
                        3 => { d2[a + j] = 0xED; d2[a + j + 1] = 0xA0; }        // surrogate U+D800..
                        _ => { d2[a + j] = 0xF4; d2[a + j + 1] = 0x90; }        // > U+10FFFF
                    }
                    add(["", "", "utf8_overlong_2byte", "utf8_surrogate", "utf8_above_10ffff"][n], Some(p.with_buf(1, &d2)));
                    let mut d2 = data.clone();
                    if n == 3 { d2[a + j] = 0xE0; d2[a + j + 1] = 0x80; add("utf8_overlong_3byte", Some(p.with_buf(1, &d2))); }
                    if n == 4 { d2[a + j] = 0xF0; d2[a + j + 1] = 0x80; add("utf8_overlong_4byte", Some(p.with_buf(1, &d2))); }
                }
            }
        }
    }

    // ---- views
    if matches!(k, "binview" | "utf8view") && !p.buffers.is_empty() && p.len >= 1 {
        let vb = p.buf_vec(0);
        let view_at = |r: usize| -> Option<[u8; 16]> { vb.get((p.offset + r) * 16..(p.offset + r + 1) * 16).map(|s| s.try_into().unwrap()) };
        let put = |r: usize, v: [u8; 16]| -> Parts {
            let mut b = vb.clone();
            b[(p.offset + r) * 16..(p.offset + r + 1) * 16].copy_from_slice(&v);
            p.with_buf(0, &b)
        };
        let mut dropped = false;
        for (pl, r) in positions(p.len) {
            let Some(v0) = view_at(r) else { continue };
            let vlen = u32::from_le_bytes(v0[0..4].try_into().unwrap());
            if (1..=12).contains(&vlen) {
                let l = vlen as usize;
                if l < 12 {
                    let mut v = v0;
                    v[15] = 1;
                    add(&format!("view_inline_padding_nonzero@{pl}"), Some(put(r, v)));
                }
                let mut v = v0;
                v[4] = 0xFF;
                add(&format!("view_inline_byte_ff@{pl}"), Some(put(r, v)));
                let mut v = v0;
                v[0..4].copy_from_slice(&13u32.to_le_bytes()); // now a "long" view with garbage index/offset
                v[8..12].copy_from_slice(&9u32.to_le_bytes());
                add(&format!("view_short_relabelled_long@{pl}"), Some(put(r, v)));
                // the value ends / starts in the middle of a code point (padding kept zero)
                if (0x80..0xC0).contains(&v0[4 + l - 1]) {
                    let mut v = v0;
                    v[4 + l - 1] = 0;
                    v[0..4].copy_from_slice(&(vlen - 1).to_le_bytes());
                    add(&format!("view_inline_len_into_char@{pl}"), Some(put(r, v)));
                }
                if v0[4] >= 0xC2 && l >= 2 {
                    let mut v = v0;
                    v.copy_within(5..4 + l, 4);
                    v[4 + l - 1] = 0;
                    v[0..4].copy_from_slice(&(vlen - 1).to_le_bytes());
                    add(&format!("view_inline_starts_in_char@{pl}"), Some(put(r, v)));
                }
            } else if vlen > 12 {
                let mut v = v0;
                v[0..4].copy_from_slice(&(vlen + 100_000).to_le_bytes());
                add(&format!("view_len_past_buffer@{pl}"), Some(put(r, v)));
                let mut v = v0;
                v[0..4].copy_from_slice(&u32::MAX.to_le_bytes());
                add(&format!("view_len_u32max@{pl}"), Some(put(r, v)));
                let mut v = v0;
                v[8..12].copy_from_slice(&((p.buffers.len() - 1) as u32).to_le_bytes());
                add(&format!("view_buffer_index_past_end@{pl}"), Some(put(r, v)));
                let mut v = v0;
                v[12..16].copy_from_slice(&(1u32 << 20).to_le_bytes());
                add(&format!("view_offset_past_buffer@{pl}"), Some(put(r, v)));
                let mut v = v0;
                v[4] ^= 0x01;
                add(&format!("view_prefix_mismatch@{pl}"), Some(put(r, v)));
                let bi = u32::from_le_bytes(v0[8..12].try_into().unwrap()) as usize;
                let off = u32::from_le_bytes(v0[12..16].try_into().unwrap()) as usize;
                if let Some(db) = p.buffers.get(1 + bi) {
                    let d = db.as_slice();
                    let end = off + vlen as usize;
                    if end <= d.len() {
                        let mut d2 = d.to_vec();
                        d2[off + 5] = 0xFF;
                        add(&format!("view_data_byte_ff@{pl}"), Some(p.with_buf(1 + bi, &d2)));
                        // the view points into the middle of a code point (prefix kept consistent with the data):
                        // it starts one byte into the character at its start / ends one byte short of its last one
                        if d[off] >= 0xC2 && vlen > 14 {
                            let mut v = v0;
                            v[0..4].copy_from_slice(&(vlen - 1).to_le_bytes());
                            v[4..8].copy_from_slice(&d[off + 1..off + 5]);
                            v[12..16].copy_from_slice(&((off + 1) as u32).to_le_bytes());
                            add(&format!("view_offset_into_char@{pl}"), Some(put(r, v)));
                        }
                        if (0x80..0xC0).contains(&d[end - 1]) && vlen > 14 {
                            let mut v = v0;
                            v[0..4].copy_from_slice(&(vlen - 1).to_le_bytes());
                            add(&format!("view_len_into_char@{pl}"), Some(put(r, v)));
                        }
                        if end < d.len() && d[end] >= 0xC2 {
                            let mut v = v0;
                            v[0..4].copy_from_slice(&(vlen + 1).to_le_bytes());
                            add(&format!("view_len_into_next_char@{pl}"), Some(put(r, v)));
                        }
                    }
                    if !dropped {
                        dropped = true;
                        let mut q = p.clone();
                        q.buffers.truncate(1);
                        add("view_data_buffers_missing", Some(q));
                    }
                }
            }
        }
    }

    // ---- list views
    if k == "listview" && p.buffers.len() == 2 && p.len >= 1 {
        let w = fixed_width(p, 0).unwrap();
        let cl = p.children.first().map(|c| c.len()).unwrap_or(0) as i64;
        for (pl, r) in positions(p.len) {
            add(&format!("listview_offset_past_child@{pl}"), p.poke(0, w, p.offset + r, cl + 1));
            add(&format!("listview_offset_negative@{pl}"), p.poke(0, w, p.offset + r, -1));
            add(&format!("listview_size_negative@{pl}"), p.poke(1, w, p.offset + r, -1));
            add(&format!("listview_size_past_child@{pl}"), p.poke(1, w, p.offset + r, cl + 1));
            if let Some(o) = p.peek(0, w, p.offset + r) {
                add(&format!("listview_offset_plus_size_past_child@{pl}"), p.poke(1, w, p.offset + r, cl - o + 1));
                add(&format!("listview_size_to_child_end@{pl}"), p.poke(1, w, p.offset + r, (cl - o).max(0)));
            }
        }
    }

    // ---- dictionary keys
    if k == "dict" && p.buffers.len() == 1 && p.len >= 1 {
        let w = fixed_width(p, 0).unwrap();
        let DataType::Dictionary(kt, _) = &p.dt else { unreachable!() };
        let signed = matches!(kt.as_ref(), DataType::Int8 | DataType::Int16 | DataType::Int32 | DataType::Int64);
        let vl = p.children.first().map(|c| c.len()).unwrap_or(0) as i64;
        let valid = p.valid_bits().unwrap_or(vec![true; p.len]);
        let valid_slots: Vec<usize> = (0..p.len).filter(|i| valid[*i]).collect();
        for (pl, j) in positions(valid_slots.len()) {
            let r = valid_slots[j];
            add(&format!("key_eq_dictionary_len@{pl}"), p.poke(0, w, p.offset + r, vl));
            if signed {
                add(&format!("key_negative@{pl}"), p.poke(0, w, p.offset + r, -1));
            }
            let big = match w { 1 => if signed { 127 } else { 255 }, 2 => if signed { 32767 } else { 65535 }, 4 => if signed { i32::MAX as i64 } else { u32::MAX as i64 }, _ => if signed { i64::MAX } else { -1 /* u64::MAX */ } };
            add(&format!("key_type_max@{pl}"), p.poke(0, w, p.offset + r, big));
        }
        if let Some(r) = (0..p.len).find(|i| !valid[*i]) {
            add("key_out_of_range_under_null", p.poke(0, w, p.offset + r, vl + 3)); // legal
        }
    }

    // ---- unions
    if k == "union" && !p.buffers.is_empty() && p.len >= 1 {
        let DataType::Union(fs, mode) = &p.dt else { unreachable!() };
        let ids: Vec<i8> = fs.iter().map(|(i, _)| i).collect();
        let undeclared = (0..127i8).find(|x| !ids.contains(x)).unwrap();
        for (pl, r) in positions(p.len) {
            add(&format!("type_id_undeclared@{pl}"), p.poke(0, 1, p.offset + r, undeclared as i64));
            add(&format!("type_id_negative@{pl}"), p.poke(0, 1, p.offset + r, -1));
            add(&format!("type_id_127@{pl}"), p.poke(0, 1, p.offset + r, 127));
            if *mode == UnionMode::Dense && p.buffers.len() == 2 {
                if let Some(t) = p.peek(0, 1, p.offset + r) {
                    let c = ids.iter().position(|x| *x as i64 == t).unwrap_or(0);
                    let cl = p.children.get(c).map(|x| x.len()).unwrap_or(0) as i64;
                    add(&format!("dense_offset_eq_child_len@{pl}"), p.poke(1, 4, p.offset + r, cl));
                    add(&format!("dense_offset_negative@{pl}"), p.poke(1, 4, p.offset + r, -1));
                    add(&format!("dense_offset_i32max@{pl}"), p.poke(1, 4, p.offset + r, i32::MAX as i64));
                    // switch the type id but keep the offset: in bounds of the other child or not
                    if let Some(other) = ids.iter().find(|x| **x as i64 != t) {
                        add(&format!("type_id_switched@{pl}"), p.poke(0, 1, p.offset + r, *other as i64));
                    }
                }
            }
        }
    }

    // ---- run ends
    if let DataType::RunEndEncoded(rf, _) = &p.dt {
        if p.children.len() == 2 && p.children[0].len() >= 1 && p.children[0].buffers().len() == 1 {
            let w = match rf.data_type() { DataType::Int16 => 2, DataType::Int32 => 4, _ => 8 };
            let re = &p.children[0];
            let n = re.len();
            let ends: Vec<i64> = (0..n).filter_map(|i| get_int(re.buffers()[0].as_slice(), w, re.offset() + i)).collect();
            let rebuild = |vals: &[i64], nulls: Option<arrow_buffer::NullBuffer>| -> ArrayData {
                let mut b = vec![0u8; vals.len() * w];
                for (i, v) in vals.iter().enumerate() {
                    set_int(&mut b, w, i, *v);
                }
                unsafe { ArrayData::builder(rf.data_type().clone()).len(vals.len()).add_buffer(aligned(&b)).nulls(nulls).build_unchecked() }
            };
            if ends.len() == n {
                let with_re = |re2: ArrayData| { let mut q = p.clone(); q.children[0] = re2; q };
                let mut e = ends.clone();
                e[0] = 0;
                add("run_end_first_zero", Some(with_re(rebuild(&e, None))));
                let mut e = ends.clone();
                e[0] = -1;
                add("run_end_first_negative", Some(with_re(rebuild(&e, None))));
                // every pair of neighbours: second, a middle one, the last
                for (pl, j) in positions(n.saturating_sub(1)) {
                    let i = j + 1;
                    let mut e = ends.clone();
                    e[i] = e[i - 1];
                    add(&format!("run_end_repeated@{pl}"), Some(with_re(rebuild(&e, None))));
                    let mut e = ends.clone();
                    e[i - 1] = e[i] + 1;
                    add(&format!("run_end_decreasing@{pl}"), Some(with_re(rebuild(&e, None))));
                }
                // run ends stop short of offset + len
                let mut e = ends.clone();
                e[n - 1] = (end as i64 - 1).max(if n >= 2 { e[n - 2] + 1 } else { 1 });
                if e[n - 1] < end as i64 && (n < 2 || e[n - 1] > e[n - 2]) {
                    add("run_ends_short_of_length", Some(with_re(rebuild(&e, None))));
                }
                add("length_past_last_run_end", Some(Parts { len: (ends[n - 1] as usize).saturating_sub(p.offset) + 1, ..p.clone() }));
                add("length_far_past_last_run_end", Some(Parts { len: (ends[n - 1] as usize).saturating_sub(p.offset) + 1000, ..p.clone() }));
                // a validity bitmap on the run ends
                let mut bits = vec![true; n];
                bits[0] = false;
                add("run_ends_have_null", Some(with_re(rebuild(&ends, Some(arrow_buffer::NullBuffer::from(bits))))));
                add("run_ends_all_valid_bitmap", Some(with_re(rebuild(&ends, Some(arrow_buffer::NullBuffer::new_valid(n))))));
                // run ends beyond the length are legal
                let mut e = ends.clone();
                e[n - 1] += 5;
                add("last_run_end_past_length", Some(with_re(rebuild(&e, None))));
            }
        }
    }

    // ---- map type-level rules
    if let DataType::Map(f, sorted) = &p.dt {
        if let DataType::Struct(kv) = f.data_type() {
            if kv.len() == 2 && p.children.len() == 1 {
                let remake = |kv2: Fields, fnull: bool| -> Parts {
                    let st = DataType::Struct(kv2);
                    let mut q = p.clone();
                    let c = &p.children[0];
                    q.children[0] = unsafe { c.clone().into_builder().data_type(st.clone()).build_unchecked() };
                    q.dt = DataType::Map(Arc::new(Field::new(f.name(), st, fnull)), *sorted);
                    q
                };
                let kn = Fields::from(vec![kv[0].as_ref().clone().with_nullable(true), kv[1].as_ref().clone()]);
                add("map_key_field_nullable", Some(remake(kn, false)));
                add("map_entries_field_nullable", Some(remake(kv.clone(), true)));
            }
        }
    }
    out
}

impl Parts {
    /// after a length change the validity bitmap may be too short: keep it as it is (that is the point),
    /// but keep the declared null count consistent with what is addressed when the bitmap still covers it
    fn fix_nulls(mut self, orig: &Parts, _rng: &mut Rng) -> Parts {
        if let Some(nb) = &orig.null_buf {
            let s = nb.as_slice();
            let end = self.offset + self.len;
            if end <= s.len() * 8 {
                let zeros = (self.offset..end).filter(|p| s[p / 8] >> (p % 8) & 1 == 0).count();
                self.declared_nc = Some(zeros);
            }
        }
        self
    }
}
