//! `c09 probe`: minimal reproductions of the known findings of C01 / C09 (and of a few
//! side observations made while building the checks), printed one per line.
use arrow_array::builder::PrimitiveRunBuilder;
use arrow_array::types::*;
use arrow_array::*;
use arrow_buffer::Buffer;
use arrow_data::ArrayData;
use arrow_schema::*;
use std::sync::Arc;
use vcore::guarded;

fn ok<T>(r: &Result<T, ArrowError>) -> String {
    match r {
        Ok(_) => "ACCEPTED".into(),
        Err(e) => format!("rejected ({})", e.to_string().chars().take(60).collect::<String>()),
    }
}

pub fn run() {
    let i32s = |v: Vec<i32>| Int32Array::from(v).to_data();
    let uf = UnionFields::try_new(vec![0, 1], vec![Field::new("a", DataType::Int32, true), Field::new("b", DataType::Int32, true)]).unwrap();

    // C09-union-ids
    let t = ArrayData::try_new(DataType::Union(uf.clone(), UnionMode::Sparse), 2, None, 0, vec![Buffer::from_vec(vec![0i8, 9])], vec![i32s(vec![1, 2]), i32s(vec![3, 4])]);
    println!("C09-union-ids        ArrayData::try_new(sparse union, type_ids [0, 9], declared ids {{0,1}}): {}", ok(&t));
    let t = ArrayData::try_new(DataType::Union(uf.clone(), UnionMode::Dense), 2, None, 0,
        vec![Buffer::from_vec(vec![0i8, 1]), Buffer::from_vec(vec![0i32, -1])], vec![i32s(vec![1]), i32s(vec![3])]);
    println!("C09-union-ids        ArrayData::try_new(dense union, offsets [0, -1]): {}; validate_full: {}", ok(&t), t.as_ref().map(|d| ok(&d.validate_full())).unwrap_or_default());

    // C09-ree-cover
    let ree = DataType::RunEndEncoded(Arc::new(Field::new("run_ends", DataType::Int32, false)), Arc::new(Field::new("values", DataType::Int32, true)));
    let t = ArrayData::try_new(ree, 10, None, 0, vec![], vec![i32s(vec![1, 2, 3]), i32s(vec![7, 8, 9])]);
    println!("C09-ree-cover        ArrayData::try_new(run-end array, len 10, run_ends [1,2,3]): {}", ok(&t));
    if let Ok(d) = t {
        let r = guarded(|| { let a = make_array(d); let ra = a.as_any().downcast_ref::<RunArray<Int32Type>>().unwrap(); ra.get_physical_index(9) });
        println!("                     get_physical_index(9) = {r:?} (values child has 3 rows)");
    }

    // C09-fsl-offset
    let f = Arc::new(Field::new("item", DataType::Int32, true));
    let t = ArrayData::try_new(DataType::FixedSizeList(f, 2), 2, None, 1, vec![], vec![i32s(vec![1, 2, 3, 4])]);
    println!("C09-fsl-offset       ArrayData::try_new(FixedSizeList(2), offset 1, len 2, child of 4 (needs 6)): {}; make_array: {:?}",
        ok(&t), t.map(|d| guarded(|| make_array(d).len())).ok());

    // C09-struct-offset
    let sdt = DataType::Struct(Fields::from(vec![Field::new("a", DataType::Int32, true)]));
    let t = ArrayData::try_new(sdt.clone(), 3, None, 2, vec![], vec![i32s(vec![1, 2, 3])]);
    println!("C09-struct-offset    ArrayData::try_new(Struct, offset 2, len 3, child of 3 (needs 5)): {}; make_array: {:?}",
        ok(&t), t.map(|d| guarded(|| make_array(d).len())).ok());

    // C09-union-kid-types
    let kids: Vec<ArrayRef> = vec![Arc::new(Int64Array::from(vec![1i64, 2])), Arc::new(Int32Array::from(vec![3, 4]))];
    let t = UnionArray::try_new(uf.clone(), vec![0i8, 1].into(), None, kids);
    println!("C09-union-kid-types  UnionArray::try_new(fields {{a: Int32, b: Int32}}, children [Int64, Int32]): {}; to_data().validate_full(): {}",
        ok(&t), t.as_ref().map(|u| ok(&u.to_data().validate_full())).unwrap_or_default());

    // C09-fsl-len-overflow
    let f = Arc::new(Field::new("item", DataType::Int8, true));
    let t = guarded(|| FixedSizeListArray::try_new_with_length(f, 2, Arc::new(Int8Array::from(Vec::<i8>::new())), None, 1usize << 63));
    println!("C09-fsl-len-overflow FixedSizeListArray::try_new_with_length(size 2, empty values, len 2^63): {}",
        match &t { Ok(r) => format!("{} (len {:?})", ok(r), r.as_ref().map(|a| a.len()).ok()), Err(p) => format!("panic {p}") });

    // C09-run-end-buffer-empty
    let r = guarded(|| arrow_buffer::RunEndBuffer::new(arrow_buffer::ScalarBuffer::<i32>::from(vec![1, 2, 3]), 1000, 0));
    println!("C09-run-end-buffer-empty  RunEndBuffer::new(run_ends [1,2,3], logical_offset 1000, logical_length 0): {}",
        if r.is_ok() { "ACCEPTED" } else { "rejected (panic)" });

    // C01-arraydata-slice-struct
    let st = StructArray::new(Fields::from(vec![Field::new("a", DataType::Int32, true)]), vec![Arc::new(Int32Array::from(vec![1, 2, 3, 4, 5]))], None);
    let s = st.to_data().slice(2, 3);
    println!("C01-arraydata-slice-struct  StructArray(5 rows).to_data().slice(2, 3): parent (offset {}, len {}), child (offset {}, len {}); make_array: {:?}",
        s.offset(), s.len(), s.child_data()[0].offset(), s.child_data()[0].len(), guarded(|| make_array(s.clone()).len()));

    // C01-filter-batch-zero-width
    let schema = Arc::new(Schema::new(vec![Field::new("z", DataType::FixedSizeBinary(0), true), Field::new("i", DataType::Int32, true)]));
    let z = FixedSizeBinaryArray::try_new_with_len(0, Buffer::from_vec(Vec::<u8>::new()), None, 3).unwrap();
    let b = RecordBatch::try_new(schema, vec![Arc::new(z), Arc::new(Int32Array::from(vec![1, 2, 3]))]).unwrap();
    let f = arrow_select::filter::filter_record_batch(&b, &BooleanArray::from(vec![true, false, true])).unwrap();
    println!("C01-filter-batch-zero-width  filter_record_batch keeps 2 of 3 rows: num_rows {}, column lengths {:?}", f.num_rows(), f.columns().iter().map(|c| c.len()).collect::<Vec<_>>());

    // ---- side observations (not layout violations)
    let tids = Buffer::from_vec(vec![0i8, 0, 0]);
    let su = ArrayData::try_new(DataType::Union(uf.clone(), UnionMode::Sparse), 3, None, 0, vec![tids], vec![i32s(vec![10, 20, 30]), i32s(vec![0, 0, 0])]).unwrap();
    let sl = make_array(su.slice(1, 2));
    let u = sl.as_any().downcast_ref::<UnionArray>().unwrap();
    let v = u.value(0);
    println!("side: sparse union [10,20,30] as ArrayData sliced (1,2) -> make_array -> value(0) = {:?} (row 1 of the child is 20)", v.as_any().downcast_ref::<Int32Array>().map(|x| x.value(0)));
    println!("side: cast(sparse union with ArrayData offset, Int32): {:?}", guarded(|| arrow_cast::cast(sl.as_ref(), &DataType::Int32).map(|a| a.len()).map_err(|e| e.to_string())));
    let mut rb = PrimitiveRunBuilder::<Int16Type, Int64Type>::new();
    rb.append_value(1);
    rb.append_value(1);
    let _ = rb.finish();
    println!("side: PrimitiveRunBuilder reuse: finish() after finish() with nothing appended: {:?}", guarded(|| rb.finish().len()));
    let mut rb = PrimitiveRunBuilder::<Int16Type, Int64Type>::new();
    rb.append_value(1);
    rb.append_value(1);
    let _ = rb.finish();
    rb.append_value(5);
    rb.append_value(5);
    println!("side: PrimitiveRunBuilder reuse: 2 rows, finish(), 2 rows (one run), finish() -> len {:?} (expected 2)", guarded(|| rb.finish().len()));
    let inner = StructArray::new(Fields::from(vec![Field::new("x", DataType::Int32, true)]), vec![Arc::new(Int32Array::from(vec![1, 2, 3, 4]))], None);
    let outer = DataType::Struct(Fields::from(vec![Field::new("s", inner.data_type().clone(), true)]));
    let t = ArrayData::try_new(outer, 2, None, 1, vec![], vec![inner.to_data()]).unwrap();
    println!("side: Struct{{s: Struct{{x}}}} with offset 1, len 2 over 4-row children (format-valid, validate_full {}): make_array: {:?}", ok(&t.validate_full()), guarded(|| make_array(t.clone()).len()));
}
