//! C09 driver: near-valid candidate layouts are fed to every validating entry point of
//! arrow-rs; each verdict is logged together with a physical dump of the candidate taken
//! from its parts *before* the call.  Trace_Layout.tla (TLC) re-judges every event with
//! the independent validator of ArrowLayout.tla: accepted => WellFormed.
//!
//! Entry points covered ("checked array-data construction and full validation, typed
//! try_new constructors, record-batch construction, checked C-Data-Interface import"):
//!   cls "data":  ArrayData::try_new; ArrayDataBuilder::build (with a declared null count);
//!                ArrayDataBuilder::align_buffers(true).build; build_unchecked + validate_full
//!                (also on corrupted *children* nested in a list / struct: only validate_full
//!                is recursive, try_new/build document that children are trusted);
//!                to_ffi -> from_ffi -> validate_full (from_ffi itself is `unsafe` and does not
//!                validate: the checked import is import + validate_full), also with the exported
//!                C struct tampered (null_count, length, offset);
//!   cls "typed": ScalarBuffer::new / OffsetBuffer::new / BooleanBuffer::new / NullBuffer::new /
//!                RunEndBuffer::new (panic = reject) composed with PrimitiveArray, BooleanArray,
//!                FixedSizeBinaryArray, GenericByteArray, GenericByteViewArray, GenericListArray,
//!                GenericListViewArray, FixedSizeListArray, StructArray, MapArray, DictionaryArray,
//!                RunArray, UnionArray `try_new*`;
//!   RecordBatch::try_new / try_new_with_options(row_count).
//! The cheap `ArrayData::validate()` alone is *not* claimed by the property and not judged.
mod entries;
mod exercise;
mod parts;
mod probe;

use arrow_array::*;
use arrow_buffer::Buffer;
use arrow_data::ArrayData;
use arrow_schema::{DataType, Field, Fields, Schema};
use entries::Verdict;
use parts::{aligned, corruptions, Parts};
use std::sync::Arc;
use vcore::mk::{self, Cfg};
use vcore::trace::Shards;
use vcore::{dump, guarded, json, Args, Rng, Value};

enum Pending {
    Event(Value, Option<ArrayData>),
    NextEpisode,
}

struct Ctx {
    t: Shards,
    pending: Vec<Pending>,
    to_exercise: usize,
    events: usize,
    accepted: usize,
    candidates: usize,
    exercised: usize,
    ex_ms: u128,
}

fn short(s: &str) -> String {
    let mut m: String = s.chars().take(120).collect();
    m = m.replace('\n', " ");
    m
}

impl Ctx {
    #[allow(clippy::too_many_arguments)]
    fn emit(&mut self, e: &str, entry: &str, cls: &str, fam: &str, corr: &str, aligns: bool, d: Value, v: Verdict, exercise_it: bool) {
        let (accepted, note, got, data) = match v {
            Verdict::NotApplicable => return,
            Verdict::Rejected(e) => (false, short(&e), None, None),
            Verdict::Accepted(data) => (true, String::new(), Some(dump::to_layout(&data)), if exercise_it { Some(data) } else { None }),
        };
        if dump::weight(&d) > 60_000 {
            return;
        }
        let mut ev = json!({"ev": "cand", "e": e, "entry": entry, "cls": cls, "fam": fam, "corr": corr, "aligns": aligns,
            "accepted": accepted, "d": d, "has_got": got.is_some(), "after": if accepted { "ok" } else { "none" },
            "crashed": false, "panicked": false, "note": note});
        if let Some(g) = got {
            ev.as_object_mut().unwrap().insert("got".into(), g);
        }
        self.events += 1;
        if accepted {
            self.accepted += 1;
        }
        if data.is_some() {
            self.to_exercise += 1;
        }
        self.pending.push(Pending::Event(ev, data));
        if self.to_exercise >= 400 {
            self.flush();
        }
    }

    fn raw(&mut self, ev: Value) {
        self.events += 1;
        self.pending.push(Pending::Event(ev, None));
    }

    fn next_episode(&mut self) {
        self.pending.push(Pending::NextEpisode);
    }

    /// exercise the accepted results of the pending events (isolated), then write the events
    fn flush(&mut self) {
        let items: Vec<ArrayData> = self.pending.iter().filter_map(|p| match p {
            Pending::Event(_, Some(d)) => Some(d.clone()),
            _ => None,
        }).collect();
        let t0 = std::time::Instant::now();
        self.exercised += items.len();
        let mut results = exercise::exercise_batch(items).into_iter();
        self.ex_ms += t0.elapsed().as_millis();
        for p in std::mem::take(&mut self.pending) {
            match p {
                Pending::NextEpisode => self.t.next_episode(),
                Pending::Event(mut ev, d) => {
                    if d.is_some() {
                        let r = results.next().unwrap_or_default();
                        let m = ev.as_object_mut().unwrap();
                        m.insert("crashed".into(), json!(!(r == "ok" || r.starts_with("panic"))));
                        m.insert("panicked".into(), json!(r.starts_with("panic")));
                        m.insert("after".into(), json!(r));
                    }
                    self.t.emit(ev);
                }
            }
        }
        self.to_exercise = 0;
    }
}

/// corruptions whose C-Data-Interface round trip is memory safe (`from_ffi` trusts length,
/// offset, the last offset and the buffer / child counts)
fn ffi_safe(corr: &str) -> bool {
    const OK: &[&str] = &[
        "none", "null_count_", "offset_out_of_order", "offset_mid_", "offset_first_negative", "offsets_all_plus_1", "utf8_",
        "view_", "key_", "type_id_", "dense_offset_", "run_end", "last_run_end", "listview_", "children_len_ignores_offset",
        "map_", "_misaligned", "_exact", "add_validity_one_null",
    ];
    const NOT: &[&str] = &["view_data_buffers_missing"];
    if NOT.iter().any(|x| corr.contains(x)) {
        return false;
    }
    OK.iter().any(|x| corr.starts_with(x) || (x.starts_with('_') && corr.ends_with(x)))
        || (corr.starts_with("child") && (corr.ends_with("_one_shorter") || corr.ends_with("_empty")))
}

fn run_candidate(cx: &mut Ctx, fam: &str, corr: &str, p: &Parts) {
    cx.candidates += 1;
    let is_nc = corr.starts_with("null_count");
    if !is_nc {
        cx.emit("try_new", "ArrayData::try_new", "data", fam, corr, false, p.dump(false), entries::try_new(p), true);
    }
    cx.emit("build", "ArrayDataBuilder::build", "data", fam, corr, false, p.dump(true), entries::build(p, false), !is_nc);
    if corr == "none" || corr.contains("misaligned") {
        cx.emit("build_align", "ArrayDataBuilder::align_buffers+build", "data", fam, corr, true, p.dump(true), entries::build(p, true), true);
    }
    cx.emit("vfull", "build_unchecked+validate_full", "data", fam, corr, false, p.dump(true), entries::unchecked_then_validate_full(p), false);
    if !is_nc {
        let (name, v) = entries::typed(p);
        cx.emit("typed", &name, "typed", fam, corr, false, p.dump(false), v, true);
        let re_ok = corr == "none" || corr.starts_with("run_end") || corr.starts_with("length_") || corr.starts_with("len_")
            || corr.starts_with("offset_") || corr.starts_with("last_run_end");
        if re_ok && !corr.starts_with("run_ends_have") && !corr.starts_with("run_ends_all") {
            if let Some(r) = entries::run_end_buffer_new(p) {
                let v = match r {
                    Ok(()) => None,
                    Err(e) => Some(e),
                };
                let mut ev = json!({"ev": "cand", "e": "run_end_buffer", "entry": "RunEndBuffer::new", "cls": "typed", "fam": fam, "corr": corr, "aligns": false,
                    "accepted": v.is_none(), "d": p.dump(false), "has_got": false, "after": if v.is_none() { "ok" } else { "none" },
                    "crashed": false, "panicked": false,
                    "note": short(&v.unwrap_or_default())});
                let _ = &mut ev;
                cx.raw(ev);
            }
        }
    }
    if ffi_safe(corr) {
        if let Some(d) = entries::unchecked(p) {
            if let Some(imp) = entries::ffi_roundtrip(&d) {
                let cand = dump::to_layout(&imp);
                let v = match entries::validate_full(&imp) {
                    Ok(()) => Verdict::Accepted(imp),
                    Err(e) => Verdict::Rejected(e),
                };
                // from_ffi re-aligns by itself; the dump is taken after the import
                cx.emit("ffi", "to_ffi+from_ffi+validate_full", "data", fam, corr, false, cand, v, true);
            }
        }
    }
}

/// the exported C struct with its first three fields (length, null_count, offset) rewritten
fn ffi_tampered(cx: &mut Ctx, fam: &str, d: &ArrayData) {
    let nc = d.null_count() as i64;
    let len = d.len() as i64;
    let mut plans: Vec<(&str, i64, i64, i64)> = vec![("ffi_null_count_unknown", len, -1, d.offset() as i64)];
    if d.nulls().is_some() {
        plans.push(("ffi_null_count_plus_1", len, nc + 1, d.offset() as i64));
        if nc >= 2 {
            plans.push(("ffi_null_count_minus_1", len, nc - 1, d.offset() as i64));
        }
        plans.push(("ffi_null_count_zero", len, 0, d.offset() as i64)); // the importer drops the bitmap: legal
    }
    if len >= 2 {
        plans.push(("ffi_length_minus_1", len - 1, -1, d.offset() as i64));
        plans.push(("ffi_offset_plus_1_length_minus_1", len - 1, -1, d.offset() as i64 + 1));
    }
    for (name, l, n, o) in plans {
        let dd = d.clone();
        let imp = guarded(move || {
            let (mut a, s) = arrow_array::ffi::to_ffi(&dd).ok()?;
            // FFI_ArrowArray is #[repr(C)] { length: i64, null_count: i64, offset: i64, .. } (C Data Interface)
            unsafe {
                let raw = &mut a as *mut arrow_array::ffi::FFI_ArrowArray as *mut i64;
                *raw = l;
                *raw.add(1) = n;
                *raw.add(2) = o;
                arrow_array::ffi::from_ffi(a, &s).ok()
            }
        })
        .ok()
        .flatten();
        if let Some(imp) = imp {
            let cand = dump::to_layout(&imp);
            let v = match entries::validate_full(&imp) {
                Ok(()) => Verdict::Accepted(imp),
                Err(e) => Verdict::Rejected(e),
            };
            cx.emit("ffi_tamper", "to_ffi+tamper+from_ffi+validate_full", "data", fam, name, false, cand, v, true);
        }
    }
}

/// a corrupted array nested as the child of a list / a struct: only the recursive
/// validate_full is expected to look inside
fn deep(cx: &mut Ctx, fam: &str, corr: &str, p: &Parts) {
    if corr.starts_with("len_") || corr.starts_with("offset_max") || corr.starts_with("length_far") {
        return;
    }
    let Some(c) = entries::unchecked(p) else { return };
    if c.len() > 1000 {
        return;
    }
    let ldt = DataType::List(Arc::new(Field::new("item", c.data_type().clone(), true)));
    let offs = aligned(&[0i32.to_le_bytes(), (c.len() as i32).to_le_bytes()].concat());
    let cc = c.clone();
    let list = guarded(move || unsafe { ArrayData::builder(ldt).len(1).add_buffer(offs).add_child_data(cc).build_unchecked() });
    let sdt = DataType::Struct(Fields::from(vec![Field::new("c", c.data_type().clone(), true)]));
    let n = c.len();
    let st = guarded(move || unsafe { ArrayData::builder(sdt).len(n).add_child_data(c).build_unchecked() });
    for (e, name, d) in [("vfull_in_list", "validate_full(list of candidate)", list), ("vfull_in_struct", "validate_full(struct of candidate)", st)] {
        let Ok(d) = d else { continue };
        let cand = dump::to_layout(&d);
        let v = match entries::validate_full(&d) {
            Ok(()) => Verdict::Accepted(d),
            Err(e) => Verdict::Rejected(e),
        };
        cx.emit(e, name, "data", fam, corr, false, cand, v, true);
    }
}

fn batches(cx: &mut Ctx, rng: &mut Rng, reps: usize) {
    let types = mk::all_types();
    for _ in 0..reps {
        let n = 1 + rng.below(5);
        let k = 1 + rng.below(3);
        let mut fields: Vec<Field> = vec![];
        let mut cols: Vec<ArrayRef> = vec![];
        for i in 0..k {
            let dt = rng.pick(&types).clone();
            let nullable = rng.chance(60);
            let a = mk::array(rng, &dt, n, if nullable { Cfg::wild(30) } else { Cfg::wild(0) });
            let a = if !nullable && a.null_count() > 0 { mk::array(rng, &dt, n, Cfg::wild(0)) } else { a };
            fields.push(Field::new(format!("c{i}"), dt, nullable || a.null_count() > 0));
            cols.push(a);
        }
        let mut cands: Vec<(String, Vec<Field>, Vec<ArrayRef>, Option<usize>)> = vec![("none".into(), fields.clone(), cols.clone(), None)];
        cands.push(("row_count_given".into(), fields.clone(), cols.clone(), Some(n)));
        cands.push(("row_count_plus_1".into(), fields.clone(), cols.clone(), Some(n + 1)));
        cands.push(("row_count_zero".into(), fields.clone(), cols.clone(), Some(0)));
        let j = rng.below(k);
        {
            let mut f = fields.clone();
            let ot = if *f[j].data_type() == DataType::Int64 { DataType::Int32 } else { DataType::Int64 };
            f[j] = Field::new(f[j].name(), ot, true);
            cands.push(("field_type_differs".into(), f, cols.clone(), None));
        }
        {
            let mut c = cols.clone();
            c[j] = c[j].slice(0, n - 1);
            cands.push(("column_one_shorter".into(), fields.clone(), c, None));
        }
        {
            let mut c = cols.clone();
            c.pop();
            cands.push(("column_missing".into(), fields.clone(), c, None));
            let mut f = fields.clone();
            f.pop();
            cands.push(("field_missing".into(), f, cols.clone(), None));
        }
        {
            // nulls in a non-nullable field
            let dt = fields[j].data_type().clone();
            let mut tries = 0;
            loop {
                let a = mk::array(rng, &dt, n.max(3), Cfg::wild(60));
                tries += 1;
                if a.null_count() > 0 || tries > 5 {
                    let mut f = fields.clone();
                    f[j] = Field::new(f[j].name(), dt.clone(), false);
                    let mut c: Vec<ArrayRef> = cols.iter().map(|x| if x.len() >= n.max(3) { x.clone() } else { mk::array(rng, x.data_type(), n.max(3), Cfg::wild(0)) }).collect();
                    c[j] = a;
                    // other columns must keep their declared nullability
                    let f: Vec<Field> = f.iter().zip(&c).enumerate().map(|(i, (fl, col))| if i == j { fl.clone() } else { fl.clone().with_nullable(fl.is_nullable() || col.null_count() > 0) }).collect();
                    cands.push(("nulls_in_non_nullable_field".into(), f, c, None));
                    break;
                }
            }
        }
        {
            // a struct column whose child field name differs from the schema's
            let st = StructArray::new(Fields::from(vec![Field::new("x", DataType::Int32, true)]), vec![mk::array(rng, &DataType::Int32, n, Cfg::wild(20))], None);
            let mut f = fields.clone();
            let mut c = cols.clone();
            f.push(Field::new("s", DataType::Struct(Fields::from(vec![Field::new("y", DataType::Int32, true)])), true));
            c.push(Arc::new(st));
            cands.push(("nested_field_name_differs".into(), f, c, None));
        }
        for (corr, f, c, rc) in cands {
            let schema = Arc::new(Schema::new(f));
            let sd = dump::schema_desc(&schema);
            let cd: Vec<Value> = c.iter().map(|x| dump::to_layout(&x.to_data())).collect();
            let nrows = rc.unwrap_or_else(|| c.first().map(|x| x.len()).unwrap_or(0));
            let (s2, c2) = (schema.clone(), c.clone());
            let (entry, r) = match rc {
                None => ("RecordBatch::try_new", guarded(move || RecordBatch::try_new(s2, c2))),
                Some(r) => ("RecordBatch::try_new_with_options(row_count)", guarded(move || RecordBatch::try_new_with_options(s2, c2, &RecordBatchOptions::new().with_row_count(Some(r))))),
            };
            let accepted = matches!(r, Ok(Ok(_)));
            if accepted {
                cx.accepted += 1;
            }
            cx.raw(json!({"ev": "candbatch", "e": "batch", "entry": entry, "corr": corr, "accepted": accepted, "schema": sd, "cols": cd, "nrows": nrows}));
            cx.next_episode();
        }
    }
}

/// handcrafted bases that guarantee every corruption of the family applies: every value starts
/// and ends with a multi-byte character, long (> 12 bytes) and short values alternate, one null;
/// the second Utf8 base leaves unused (valid UTF-8) bytes before the first and after the last offset
fn rich(dt: &DataType) -> Vec<ArrayRef> {
    let strs = vec![Some("éaé"), Some("日本語の長い文字列です、十二バイト以上日"), None, Some("ßé"), Some("😀 a long string, more than twelve bytes é"), Some("é"), Some("日x日")];
    let all: Vec<&str> = vec!["éaé", "日x日", "😀é", "é", "ßzß", "éé"];
    fn padded<O: OffsetSizeTrait>(vals: &[&str]) -> ArrayRef {
        let mut data = "é".as_bytes().to_vec();
        let mut offs = vec![O::usize_as(data.len())];
        for v in vals {
            data.extend_from_slice(v.as_bytes());
            offs.push(O::usize_as(data.len()));
        }
        data.extend_from_slice("é".as_bytes());
        Arc::new(GenericStringArray::<O>::new(arrow_buffer::OffsetBuffer::new(offs.into()), Buffer::from_vec(data), None))
    }
    match dt {
        DataType::Utf8 => vec![Arc::new(StringArray::from(strs)), padded::<i32>(&all)],
        DataType::LargeUtf8 => vec![Arc::new(LargeStringArray::from(strs)), padded::<i64>(&all)],
        DataType::Utf8View => {
            let (l1, l2, l3) = ("日本語の長い文字列です、十二バイト以上日", "😀 a long string, more than twelve bytes é", "éééééééééééééé");
            // long / short values at complementary positions, so that first / middle / last of both the
            // whole and the sliced array meet a buffer-backed and an inline view
            vec![
                Arc::new(StringViewArray::from(vec![Some(l1), Some("éaé"), None, Some(l2), Some("ßé"), Some(l3), Some("日x日")])),
                Arc::new(StringViewArray::from(vec![Some("éaé"), Some(l1), Some("é"), Some("ßzß"), Some(l2), Some("日x日"), Some(l3)])),
            ]
        }
        DataType::BinaryView => vec![Arc::new(BinaryViewArray::from(vec![Some(&b"abc"[..]), Some(&b"0123456789abcdefXYZ"[..]), None, Some(&b""[..]), Some(&[0xFFu8; 30][..]), Some(&[0xC3u8, 0xA9][..])]))],
        _ => vec![],
    }
}

fn zoo() -> Vec<DataType> {
    use DataType::*;
    let keep = [Boolean, Int8, Int32, Int64, UInt16, Float64, Decimal128(38, 10), Decimal256(76, 5), Date32,
        Interval(arrow_schema::IntervalUnit::DayTime), Interval(arrow_schema::IntervalUnit::MonthDayNano),
        Timestamp(arrow_schema::TimeUnit::Millisecond, Some("+01:00".into())),
        Utf8, LargeUtf8, Utf8View, Binary, LargeBinary, BinaryView, FixedSizeBinary(3), FixedSizeBinary(0)];
    let mut v: Vec<DataType> = mk::flat_types().into_iter().filter(|t| keep.contains(t)).collect();
    v.extend(mk::nested_types());
    v.push(Struct(Fields::empty()));
    v.push(Dictionary(Box::new(UInt64), Box::new(Utf8)));
    v
}

fn main() {
    let args = Args::parse();
    vcore::quiet_panics();
    if args.driver == "probe" {
        probe::run();
        return;
    }
    let mut rng = Rng::new(args.seed);
    let mut cx = Ctx { t: Shards::create(&args.out, "layout", 14), pending: vec![], to_exercise: 0, events: 0, accepted: 0, candidates: 0, exercised: 0, ex_ms: 0 };
    let reps = args.scale(1, 16);
    for dt in zoo() {
        let fam = dump::type_desc(&dt)["k"].as_str().unwrap().to_string();
        let mut bases: Vec<ArrayRef> = rich(&dt);
        let nrich = bases.len().max(1);
        for rep in bases.len()..(reps + nrich - 1) {
            let len = if rep == 0 { 6 } else { rng.below(9) };
            let np = [30usize, 0, 60][rep % 3];
            bases.push(mk::array(&mut rng, &dt, len, Cfg::wild(np)));
        }
        for (rep, a) in bases.into_iter().enumerate() {
            let data = a.to_data();
            let p0 = Parts::of(&data, &mut rng);
            let mut variants = vec![p0.clone()];
            if p0.len >= 3 {
                variants.push(p0.slice(1, p0.len - 2, &mut rng));
            }
            for (vi, p) in variants.iter().enumerate() {
                let mut cands = vec![("none".to_string(), p.clone())];
                cands.extend(corruptions(p, &mut rng));
                for (corr, c) in &cands {
                    run_candidate(&mut cx, &fam, corr, c);
                    if rep < 1 {
                        deep(&mut cx, &fam, corr, c);
                    }
                    cx.next_episode();
                }
                if vi == 0 {
                    ffi_tampered(&mut cx, &fam, &data);
                }
            }
        }
    }
    let breps = args.scale(40, 600);
    batches(&mut cx, &mut rng, breps);
    let _ = Buffer::from_vec(Vec::<u8>::new());
    cx.flush();
    let n = cx.t.finish();
    println!("DRIVER c09 events={n} candidates={} accepted={} exercised={} exercise_ms={}", cx.candidates, cx.accepted, cx.exercised, cx.ex_ms);
}
