//! The validating entry points of arrow-rs, applied to a candidate.
//! Every call is guarded: a panic inside a checked constructor counts as a rejection
//! (OffsetBuffer::new, ScalarBuffer::new, BooleanBuffer::new, RunEndBuffer::new document theirs).
use crate::parts::Parts;
use arrow_array::types::*;
use arrow_array::*;
use arrow_buffer::{BooleanBuffer, Buffer, NullBuffer, OffsetBuffer, RunEndBuffer, ScalarBuffer};
use arrow_data::{ArrayData, ArrayDataBuilder};
use arrow_schema::{ArrowError, DataType, UnionMode};
use vcore::guarded;

pub enum Verdict {
    /// accepted: the produced array (as data) and a way to exercise it
    Accepted(ArrayData),
    Rejected(String),
    /// the entry point cannot express this candidate
    NotApplicable,
}

fn flat<T>(r: Result<Result<T, ArrowError>, String>) -> Result<T, String> {
    match r {
        Ok(Ok(v)) => Ok(v),
        Ok(Err(e)) => Err(e.to_string()),
        Err(p) => Err(format!("panic: {p}")),
    }
}

fn verdict(r: Result<ArrayData, String>) -> Verdict {
    match r {
        Ok(d) => Verdict::Accepted(d),
        Err(e) => Verdict::Rejected(e),
    }
}

// ------------------------------------------------------------------ ArrayData level

pub fn try_new(p: &Parts) -> Verdict {
    let p = p.clone();
    verdict(flat(guarded(move || ArrayData::try_new(p.dt, p.len, p.null_buf, p.offset, p.buffers, p.children))))
}

fn builder(p: &Parts) -> ArrayDataBuilder {
    let mut b = ArrayDataBuilder::new(p.dt.clone())
        .len(p.len)
        .offset(p.offset)
        .buffers(p.buffers.clone())
        .child_data(p.children.clone())
        .null_bit_buffer(p.null_buf.clone());
    if let (Some(_), Some(n)) = (&p.null_buf, p.declared_nc) {
        b = b.null_count(n);
    }
    b
}

pub fn build(p: &Parts, align: bool) -> Verdict {
    let b = builder(p).align_buffers(align);
    verdict(flat(guarded(move || b.build())))
}

/// `build_unchecked` followed by `validate_full`
pub fn unchecked_then_validate_full(p: &Parts) -> Verdict {
    let b = builder(p);
    match guarded(move || unsafe { b.build_unchecked() }) {
        Err(e) => Verdict::Rejected(format!("panic: {e}")),
        Ok(d) => match flat(guarded(|| d.validate_full())) {
            Ok(()) => Verdict::Accepted(d),
            Err(e) => Verdict::Rejected(e),
        },
    }
}

/// the candidate as an (unvalidated) ArrayData, if it can be represented at all
pub fn unchecked(p: &Parts) -> Option<ArrayData> {
    let b = builder(p);
    guarded(move || unsafe { b.build_unchecked() }).ok()
}

/// export through the C Data Interface, import with `from_ffi`; returns the imported
/// (unvalidated) data.  Only called for candidates whose import is memory safe
/// (`from_ffi` derives buffer sizes from length/offset and the last offset).
pub fn ffi_roundtrip(d: &ArrayData) -> Option<ArrayData> {
    let d = d.clone();
    guarded(move || {
        let (a, s) = arrow_array::ffi::to_ffi(&d).ok()?;
        unsafe { arrow_array::ffi::from_ffi(a, &s) }.ok()
    })
    .ok()
    .flatten()
}

pub fn validate_full(d: &ArrayData) -> Result<(), String> {
    flat(guarded(|| d.validate_full()))
}

// ------------------------------------------------------------------ typed constructors

fn typed_nulls(p: &Parts) -> Result<Option<NullBuffer>, String> {
    match &p.null_buf {
        None => Ok(None),
        Some(b) => {
            let (b, o, l) = (b.clone(), p.offset, p.len);
            guarded(move || NullBuffer::new(BooleanBuffer::new(b, o, l))).map(Some).map_err(|e| format!("panic: {e}"))
        }
    }
}

fn scalar<T: arrow_buffer::ArrowNativeType>(b: &Buffer, offset: usize, len: usize) -> Result<ScalarBuffer<T>, String> {
    let b = b.clone();
    guarded(move || ScalarBuffer::<T>::new(b, offset, len)).map_err(|e| format!("panic: {e}"))
}

fn offsets<O: OffsetSizeTrait>(p: &Parts) -> Result<OffsetBuffer<O>, String> {
    let s = scalar::<O>(&p.buffers[0], p.offset, p.len.checked_add(1).ok_or("len overflow")?)?;
    guarded(move || OffsetBuffer::new(s)).map_err(|e| format!("panic: {e}"))
}

fn child_array(d: &ArrayData) -> Result<ArrayRef, String> {
    let d = d.clone();
    guarded(move || make_array(d)).map_err(|e| format!("panic: {e}"))
}

fn done<A: Array + 'static>(r: Result<Result<A, ArrowError>, String>) -> Result<ArrayData, String> {
    flat(r).map(|a| a.to_data())
}

fn prim<T: ArrowPrimitiveType>(p: &Parts) -> Result<ArrayData, String> {
    let values = scalar::<T::Native>(&p.buffers[0], p.offset, p.len)?;
    let nulls = typed_nulls(p)?;
    let dt = p.dt.clone();
    done(guarded(move || PrimitiveArray::<T>::try_new(values, nulls).map(|a| a.with_data_type(dt))))
}

fn bytes<T: ByteArrayType>(p: &Parts) -> Result<ArrayData, String> {
    let o = offsets::<T::Offset>(p)?;
    let nulls = typed_nulls(p)?;
    let data = p.buffers[1].clone();
    done(guarded(move || GenericByteArray::<T>::try_new(o, data, nulls)))
}

fn views<T: ByteViewType + ?Sized>(p: &Parts) -> Result<ArrayData, String> {
    let v = scalar::<u128>(&p.buffers[0], p.offset, p.len)?;
    let nulls = typed_nulls(p)?;
    let bufs: Vec<Buffer> = p.buffers[1..].to_vec();
    done(guarded(move || GenericByteViewArray::<T>::try_new(v, bufs, nulls)))
}

fn list<O: OffsetSizeTrait>(p: &Parts, f: &arrow_schema::FieldRef) -> Result<ArrayData, String> {
    let o = offsets::<O>(p)?;
    let nulls = typed_nulls(p)?;
    let values = child_array(&p.children[0])?;
    let f = f.clone();
    done(guarded(move || GenericListArray::<O>::try_new(f, o, values, nulls)))
}

fn list_view<O: OffsetSizeTrait>(p: &Parts, f: &arrow_schema::FieldRef) -> Result<ArrayData, String> {
    let o = scalar::<O>(&p.buffers[0], p.offset, p.len)?;
    let s = scalar::<O>(&p.buffers[1], p.offset, p.len)?;
    let nulls = typed_nulls(p)?;
    let values = child_array(&p.children[0])?;
    let f = f.clone();
    done(guarded(move || GenericListViewArray::<O>::try_new(f, o, s, values, nulls)))
}

fn dict<K: ArrowDictionaryKeyType>(p: &Parts) -> Result<ArrayData, String> {
    let k = scalar::<K::Native>(&p.buffers[0], p.offset, p.len)?;
    let nulls = typed_nulls(p)?;
    let values = child_array(&p.children[0])?;
    done(guarded(move || {
        let keys = PrimitiveArray::<K>::try_new(k, nulls)?;
        DictionaryArray::<K>::try_new(keys, values)
    }))
}

fn run<R: RunEndIndexType>(p: &Parts) -> Result<ArrayData, String> {
    let re = child_array(&p.children[0])?;
    let vals = child_array(&p.children[1])?;
    done(guarded(move || {
        let re = re.as_any().downcast_ref::<PrimitiveArray<R>>().ok_or_else(|| ArrowError::InvalidArgumentError("run ends type".into()))?.clone();
        RunArray::<R>::try_new(&re, vals.as_ref())
    }))
}

/// `RunEndBuffer::new` on the run ends child with the candidate's (offset, len)
fn run_end_buffer<R: RunEndIndexType>(p: &Parts) -> Result<(), String> {
    let re = &p.children[0];
    if re.buffers().len() != 1 {
        return Err("shape".into());
    }
    let s = scalar::<R::Native>(&re.buffers()[0], re.offset(), re.len())?;
    let (o, l) = (p.offset, p.len);
    guarded(move || RunEndBuffer::new(s, o, l)).map(|_| ()).map_err(|e| format!("panic: {e}"))
}

macro_rules! prim_helper {
    ($t:ty, $p:expr) => {
        prim::<$t>($p)
    };
}

/// the typed constructor for this candidate: (entry name, verdict)
pub fn typed(p: &Parts) -> (String, Verdict) {
    use DataType::*;
    let na = |n: &str| (n.to_string(), Verdict::NotApplicable);
    let nb = p.buffers.len();
    let nc = p.children.len();
    let r: (&str, Result<ArrayData, String>) = match &p.dt {
        Null => return na("NullArray"),
        Boolean => {
            if nb != 1 || nc != 0 { return na("BooleanArray::new"); }
            let (b, o, l) = (p.buffers[0].clone(), p.offset, p.len);
            let r = match typed_nulls(p) {
                Err(e) => Err(e),
                Ok(nulls) => guarded(move || BooleanArray::new(BooleanBuffer::new(b, o, l), nulls).to_data()).map_err(|e| format!("panic: {e}")),
            };
            ("BooleanBuffer::new+BooleanArray::new", r)
        }
        FixedSizeBinary(n) => {
            // the constructor has no offset argument: an offset only shows as a slice of the values buffer,
            // so a candidate whose len + offset overflows cannot be expressed
            if nb != 1 || nc != 0 || p.len.checked_add(p.offset).is_none() { return na("FixedSizeBinaryArray::try_new_with_len"); }
            let n = *n;
            let w = n.max(0) as usize;
            let r = match (typed_nulls(p), p.offset.checked_mul(w)) {
                (Err(e), _) => Err(e),
                (_, None) => Err("overflow".into()),
                (Ok(nulls), Some(lo)) => {
                    let b = p.buffers[0].clone();
                    let len = p.len;
                    // exactly the addressed window of the values buffer (the constructor has no offset
                    // argument); Buffer::slice_with_length panics when the buffer is too short
                    done(guarded(move || FixedSizeBinaryArray::try_new_with_len(n, b.slice_with_length(lo, len.checked_mul(w).expect("overflow")), nulls, len)))
                }
            };
            ("Buffer::slice_with_length+FixedSizeBinaryArray::try_new_with_len", r)
        }
        Utf8 if nb == 2 && nc == 0 => ("OffsetBuffer::new+GenericByteArray::try_new", bytes::<Utf8Type>(p)),
        LargeUtf8 if nb == 2 && nc == 0 => ("OffsetBuffer::new+GenericByteArray::try_new", bytes::<LargeUtf8Type>(p)),
        Binary if nb == 2 && nc == 0 => ("OffsetBuffer::new+GenericByteArray::try_new", bytes::<BinaryType>(p)),
        LargeBinary if nb == 2 && nc == 0 => ("OffsetBuffer::new+GenericByteArray::try_new", bytes::<LargeBinaryType>(p)),
        Utf8View if nb >= 1 && nc == 0 => ("GenericByteViewArray::try_new", views::<StringViewType>(p)),
        BinaryView if nb >= 1 && nc == 0 => ("GenericByteViewArray::try_new", views::<BinaryViewType>(p)),
        List(f) if nb == 1 && nc == 1 => ("OffsetBuffer::new+GenericListArray::try_new", list::<i32>(p, f)),
        LargeList(f) if nb == 1 && nc == 1 => ("OffsetBuffer::new+GenericListArray::try_new", list::<i64>(p, f)),
        ListView(f) if nb == 2 && nc == 1 => ("GenericListViewArray::try_new", list_view::<i32>(p, f)),
        LargeListView(f) if nb == 2 && nc == 1 => ("GenericListViewArray::try_new", list_view::<i64>(p, f)),
        FixedSizeList(f, n) if nc == 1 && nb == 0 && p.offset == 0 => {
            let r = match (typed_nulls(p), child_array(&p.children[0])) {
                (Err(e), _) | (_, Err(e)) => Err(e),
                (Ok(nulls), Ok(values)) => {
                    let (f, n, len) = (f.clone(), *n, p.len);
                    done(guarded(move || FixedSizeListArray::try_new_with_length(f, n, values, nulls, len)))
                }
            };
            ("FixedSizeListArray::try_new_with_length", r)
        }
        Struct(fs) if p.offset == 0 && nb == 0 => {
            let kids: Result<Vec<ArrayRef>, String> = p.children.iter().map(child_array).collect();
            let r = match (typed_nulls(p), kids) {
                (Err(e), _) | (_, Err(e)) => Err(e),
                (Ok(nulls), Ok(kids)) => {
                    let (fs, len) = (fs.clone(), p.len);
                    done(guarded(move || StructArray::try_new_with_length(fs, kids, nulls, len)))
                }
            };
            ("StructArray::try_new_with_length", r)
        }
        Map(f, sorted) if nb == 1 && nc == 1 => {
            let r = match (offsets::<i32>(p), typed_nulls(p), child_array(&p.children[0])) {
                (Err(e), _, _) | (_, Err(e), _) | (_, _, Err(e)) => Err(e),
                (Ok(o), Ok(nulls), Ok(entries)) => {
                    let (f, sorted) = (f.clone(), *sorted);
                    done(guarded(move || {
                        let st = entries.as_any().downcast_ref::<StructArray>().ok_or_else(|| ArrowError::InvalidArgumentError("entries not a struct".into()))?.clone();
                        MapArray::try_new(f, o, st, nulls, sorted)
                    }))
                }
            };
            ("OffsetBuffer::new+MapArray::try_new", r)
        }
        // DictionaryArray::try_new derives the value type from the values array
        Dictionary(k, v) if nb == 1 && nc == 1 && p.children[0].data_type() == v.as_ref() => (
            "PrimitiveArray::try_new+DictionaryArray::try_new",
            match k.as_ref() {
                Int8 => dict::<Int8Type>(p),
                Int16 => dict::<Int16Type>(p),
                Int32 => dict::<Int32Type>(p),
                Int64 => dict::<Int64Type>(p),
                UInt8 => dict::<UInt8Type>(p),
                UInt16 => dict::<UInt16Type>(p),
                UInt32 => dict::<UInt32Type>(p),
                UInt64 => dict::<UInt64Type>(p),
                _ => return na("DictionaryArray::try_new"),
            },
        ),
        RunEndEncoded(rf, vf) if nc == 2 && nb == 0 && p.null_buf.is_none()
            && p.children[0].data_type() == rf.data_type() && p.children[1].data_type() == vf.data_type() => {
            // RunArray::try_new derives the length from the last run end and has no offset
            let r = match rf.data_type() {
                Int16 => run::<Int16Type>(p),
                Int32 => run::<Int32Type>(p),
                Int64 => run::<Int64Type>(p),
                _ => return na("RunArray::try_new"),
            };
            if let Ok(d) = &r {
                if d.len() != p.len || p.offset != 0 {
                    return na("RunArray::try_new");
                }
            }
            ("RunArray::try_new", r)
        }
        Union(fs, mode) if p.offset == 0 && p.null_buf.is_none() && nb == (if *mode == UnionMode::Dense { 2 } else { 1 }) => {
            let kids: Result<Vec<ArrayRef>, String> = p.children.iter().map(child_array).collect();
            let tids = scalar::<i8>(&p.buffers[0], 0, p.len);
            let offs = if *mode == UnionMode::Dense { scalar::<i32>(&p.buffers[1], 0, p.len).map(Some) } else { Ok(None) };
            let r = match (kids, tids, offs) {
                (Err(e), _, _) | (_, Err(e), _) | (_, _, Err(e)) => Err(e),
                (Ok(kids), Ok(tids), Ok(offs)) => {
                    let fs = fs.clone();
                    done(guarded(move || UnionArray::try_new(fs, tids, offs, kids)))
                }
            };
            ("UnionArray::try_new", r)
        }
        t if t.is_primitive() && nb == 1 && nc == 0 => (
            "ScalarBuffer::new+PrimitiveArray::try_new",
            downcast_primitive! {
                t => (prim_helper, p),
                _ => return na("PrimitiveArray::try_new")
            },
        ),
        _ => return na("typed"),
    };
    (r.0.to_string(), verdict(r.1))
}

/// `RunEndBuffer::new(run ends, offset, len)`: sees only the run ends and (offset, len)
pub fn run_end_buffer_new(p: &Parts) -> Option<Result<(), String>> {
    let DataType::RunEndEncoded(rf, _) = &p.dt else { return None };
    if p.children.len() != 2 || p.children[0].data_type() != rf.data_type() || p.children[0].nulls().is_some() {
        return None;
    }
    Some(match rf.data_type() {
        DataType::Int16 => run_end_buffer::<Int16Type>(p),
        DataType::Int32 => run_end_buffer::<Int32Type>(p),
        DataType::Int64 => run_end_buffer::<Int64Type>(p),
        _ => return None,
    })
}
