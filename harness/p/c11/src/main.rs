fn main(){ println!("stub"); }
