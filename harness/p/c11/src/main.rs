//! C11 driver: records histories of real `RowConverter` instances: rows produced
//! by `convert_columns` / `append` from several input arrays (order keys of every
//! field + the encoded bytes), results of `Row`'s Ord / Eq, `convert_rows` on
//! selections (also through `RowParser`), and the trip through the binary-array
//! form.  No expectation is computed here: Trace_RowFormat.tla decides with the
//! order of Order.tla.
use arrow_array::*;
use arrow_row::{RowConverter, Rows, SortField};
use arrow_schema::{ArrowError, DataType, Field, Fields, SortOptions};
use std::sync::Arc;
use vcore::key::{self, Unions};
use vcore::mk::{self, Cfg};
use vcore::trace::Shards;
use vcore::{guarded, json, mutate, tok, Args, Rng, Value};

fn unsupported(msg: &str) -> bool {
    let m = msg.to_ascii_lowercase();
    m.contains("not supported") || m.contains("not yet implemented") || m.contains("not implemented") || m.contains("unsupported")
}

enum Out<T> {
    Ok(T),
    Err(String),
    Unsupported,
}

fn call<T>(f: impl FnOnce() -> Result<T, ArrowError>) -> Out<T> {
    match guarded(f) {
        Ok(Ok(v)) => Out::Ok(v),
        Ok(Err(e)) => {
            let s = e.to_string();
            if unsupported(&s) { Out::Unsupported } else { Out::Err(s) }
        }
        Err(p) => {
            if unsupported(&p) { Out::Unsupported } else { Out::Err(format!("panic: {p}")) }
        }
    }
}

const ALL_OPTS: [SortOptions; 4] = [
    SortOptions { descending: false, nulls_first: true },
    SortOptions { descending: false, nulls_first: false },
    SortOptions { descending: true, nulls_first: true },
    SortOptions { descending: true, nulls_first: false },
];

struct Stats {
    events: usize,
    instances: usize,
    rows: usize,
    skipped: usize,
    errs: usize,
}

fn short(s: String, n: usize) -> String {
    if s.len() > n { format!("{}..", s.chars().take(n).collect::<String>()) } else { s }
}

// ------------------------------------------------------------------ inputs

const BOUNDARY_LENS: [usize; 20] = [0, 1, 2, 7, 8, 9, 15, 16, 17, 23, 24, 25, 31, 32, 33, 40, 63, 64, 65, 66];

/// byte strings that are prefixes of one base string cut around the 8- and 32-byte block
/// boundaries, some with the last byte changed; bytes that look like sentinels, padding,
/// length bytes and continuation markers
fn boundary_values(rng: &mut Rng, n: usize, utf8: bool, null_pct: usize) -> Vec<Option<Vec<u8>>> {
    let alphabet: &[u8] = if utf8 { &[0x00, 0x01, 0x02, b'a', 0x7f, 0x20, 0x08] } else { &[0x00, 0x01, 0x02, 0xFF, 0xFE, 0xFD, b'a', 0x08, 0x20] };
    let style = rng.below(3);
    let fill = *rng.pick(alphabet);
    let base: Vec<u8> = (0..66).map(|_| if style == 0 { fill } else if style == 1 && rng.chance(70) { fill } else { *rng.pick(alphabet) }).collect();
    (0..n)
        .map(|_| {
            if rng.chance(null_pct) {
                return None;
            }
            let len = *rng.pick(&BOUNDARY_LENS);
            let mut v = base[..len].to_vec();
            if len > 0 && rng.chance(30) {
                let k = if rng.chance(70) { len - 1 } else { rng.below(len) };
                v[k] = *rng.pick(alphabet);
            }
            Some(v)
        })
        .collect()
}

fn boundary_array(rng: &mut Rng, dt: &DataType, n: usize, null_pct: usize) -> Option<ArrayRef> {
    use DataType::*;
    let utf8 = matches!(dt, Utf8 | LargeUtf8 | Utf8View);
    let vals = boundary_values(rng, n, utf8, null_pct);
    let strs = || vals.iter().map(|v| v.as_ref().map(|b| String::from_utf8(b.clone()).unwrap())).collect::<Vec<_>>();
    Some(match dt {
        Utf8 => Arc::new(StringArray::from(strs())),
        LargeUtf8 => Arc::new(LargeStringArray::from(strs())),
        Utf8View => Arc::new(StringViewArray::from_iter(strs())),
        Binary => Arc::new(BinaryArray::from_iter(vals.iter().map(|v| v.as_deref()))),
        LargeBinary => Arc::new(LargeBinaryArray::from_iter(vals.iter().map(|v| v.as_deref()))),
        BinaryView => Arc::new(BinaryViewArray::from_iter(vals.iter().map(|v| v.as_deref()))),
        _ => return None,
    })
}

fn low_card(rng: &mut Rng, dt: &DataType, n: usize, null_pct: usize) -> ArrayRef {
    let m = 1 + rng.below(3);
    let base = mk::array(rng, dt, m, Cfg::wild(null_pct));
    let idx = UInt32Array::from((0..n).map(|_| rng.below(m) as u32).collect::<Vec<_>>());
    match guarded(|| arrow_select::take::take(base.as_ref(), &idx, None)) {
        Ok(Ok(a)) if a.len() == n && a.data_type() == dt => a,
        _ => mk::array(rng, dt, n, Cfg::wild(null_pct)),
    }
}

fn gen_col(rng: &mut Rng, dt: &DataType, n: usize) -> ArrayRef {
    let null_pct = *rng.pick(&[0usize, 15, 15, 40]);
    if rng.chance(45) {
        if let Some(a) = boundary_array(rng, dt, n, null_pct) {
            return a;
        }
    }
    if rng.chance(35) { low_card(rng, dt, n, null_pct) } else { mk::array(rng, dt, n, Cfg::wild(null_pct)) }
}

/// a different physical realisation of the same logical column (checked)
fn relayout(rng: &mut Rng, a: &ArrayRef) -> ArrayRef {
    let reals = mutate::realisations(rng, a, 4);
    let (_, r) = reals[rng.below(reals.len())].clone();
    if r.data_type() == a.data_type() && tok::rows(r.as_ref()) == tok::rows(a.as_ref()) { r } else { a.clone() }
}

// ---------------------------------------------------------------- instance
//
// Every call into arrow-row goes through `guarded` (a panic is an outcome that is logged and
// judged, never a crash of the driver), and rows are only read after their lengths have been
// checked through the public API (`Rows::row_len` against `Rows::size`), so that corrupted
// offsets are reported instead of dereferenced.

/// rows `from..` of a Rows object as byte vectors
fn read_rows(rows: &Rows, from: usize) -> Result<Vec<Vec<u8>>, String> {
    let r = guarded(|| -> Result<Vec<Vec<u8>>, String> {
        let n = rows.num_rows();
        let cap = rows.size();
        let mut out = Vec::with_capacity(n.saturating_sub(from));
        for i in from..n {
            let len = rows.row_len(i);
            if len > cap {
                return Err(format!("row {i} of {n}: impossible length {len} (corrupt offsets)"));
            }
            let b = rows.row(i).as_ref().to_vec();
            if b.len() != len {
                return Err(format!("row {i}: row_len {len} but {} bytes", b.len()));
            }
            out.push(b);
        }
        Ok(out)
    });
    match r {
        Ok(x) => x,
        Err(p) => Err(format!("panic reading rows: {p}")),
    }
}

fn bytes_json(b: &[Vec<u8>]) -> Value {
    Value::Array(b.iter().map(|x| json!(x)).collect())
}

struct Inst<'a> {
    t: &'a mut Shards,
    st: &'a mut Stats,
    conv: RowConverter,
    ty: String,
    /// the Rows objects of this instance and, for each of their rows, the global row number
    objs: Vec<(Rows, Vec<usize>)>,
    total: usize,
    /// a Rows object turned out to be unreadable: reported, the episode ends
    broken: bool,
}

impl<'a> Inst<'a> {
    fn emit(&mut self, mut ev: Value) {
        ev.as_object_mut().unwrap().insert("ty".into(), json!(self.ty));
        self.t.emit(ev);
        self.st.events += 1;
    }

    fn keys_of(cols: &[ArrayRef]) -> Result<Vec<Value>, String> {
        guarded(|| cols.iter().map(|c| key::column(c.as_ref(), Unions::Keep)).collect::<Vec<_>>())
    }

    fn conv_failed(&mut self, via: &str, keys: Vec<Value>, msg: String) {
        self.st.errs += 1;
        self.emit(json!({"op": "conv", "via": via, "err": true, "msg": short(msg, 200), "keys": keys, "bytes": []}));
    }

    /// convert_columns: a new Rows object.  false = nothing to go on with
    fn convert(&mut self, cols: &[ArrayRef]) -> bool {
        let keys = match Self::keys_of(cols) {
            Ok(k) => k,
            Err(_) => return false,
        };
        let conv = &self.conv;
        match call(|| conv.convert_columns(cols)) {
            Out::Unsupported => {
                self.st.skipped += 1;
                false
            }
            Out::Err(e) => {
                self.conv_failed("convert", keys, e);
                true
            }
            Out::Ok(rows) => match read_rows(&rows, 0) {
                Err(e) => {
                    self.broken = true;
                    self.conv_failed("convert", keys, e);
                    false
                }
                Ok(bytes) => {
                    let n = bytes.len();
                    let ids: Vec<usize> = (self.total..self.total + n).collect();
                    self.total += n;
                    self.st.rows += n;
                    self.objs.push((rows, ids));
                    self.emit(json!({"op": "conv", "via": "convert", "err": false, "keys": keys, "bytes": bytes_json(&bytes)}));
                    true
                }
            },
        }
    }

    /// append to an existing Rows object
    fn append(&mut self, obj: usize, cols: &[ArrayRef]) {
        if self.broken {
            return;
        }
        let keys = match Self::keys_of(cols) {
            Ok(k) => k,
            Err(_) => return,
        };
        let conv = &self.conv;
        let (rows, ids) = &mut self.objs[obj];
        let before = ids.len();
        let res = call(|| conv.append(rows, cols));
        match res {
            Out::Unsupported => self.st.skipped += 1,
            Out::Err(e) => {
                // the Rows object may be half written: do not touch it again
                self.broken = true;
                self.conv_failed("append", keys, e);
            }
            Out::Ok(()) => match read_rows(rows, before) {
                Err(e) => {
                    self.broken = true;
                    self.conv_failed("append", keys, e);
                }
                Ok(bytes) => {
                    let n = bytes.len();
                    ids.extend(self.total..self.total + n);
                    self.total += n;
                    self.st.rows += n;
                    self.emit(json!({"op": "conv", "via": "append", "err": false, "keys": keys, "bytes": bytes_json(&bytes)}));
                }
            },
        }
    }

    fn locate(&self, g: usize) -> (usize, usize) {
        for (o, (_, ids)) in self.objs.iter().enumerate() {
            if let Some(p) = ids.iter().position(|x| *x == g) {
                return (o, p);
            }
        }
        unreachable!()
    }

    fn live(&self) -> Vec<usize> {
        self.objs.iter().flat_map(|(_, ids)| ids.iter().copied()).collect()
    }

    /// Row's Ord / Eq (and OwnedRow's) on pairs of rows of any of the live Rows objects
    fn ord(&mut self, rng: &mut Rng, k: usize) {
        let live = self.live();
        if live.is_empty() || self.broken {
            return;
        }
        let pairs: Vec<(usize, usize)> = (0..k).map(|_| (live[rng.below(live.len())], live[rng.below(live.len())])).collect();
        let owned: Vec<bool> = (0..k).map(|_| rng.chance(30)).collect();
        let locs: Vec<((usize, usize), (usize, usize))> = pairs.iter().map(|(a, b)| (self.locate(*a), self.locate(*b))).collect();
        let objs = &self.objs;
        let res = guarded(|| {
            let mut cmp = vec![];
            let mut eq = vec![];
            for (((oa, pa), (ob, pb)), own) in locs.iter().zip(&owned) {
                let ra = objs[*oa].0.row(*pa);
                let rb = objs[*ob].0.row(*pb);
                if *own {
                    let (xa, xb) = (ra.owned(), rb.owned());
                    cmp.push(xa.cmp(&xb) as i32);
                    eq.push(xa == xb);
                } else {
                    cmp.push(ra.cmp(&rb) as i32);
                    eq.push(ra == rb);
                }
            }
            (cmp, eq)
        });
        let pj: Vec<Value> = pairs.iter().map(|(a, b)| json!([a, b])).collect();
        match res {
            Ok((cmp, eq)) => self.emit(json!({"op": "ord", "err": false, "pairs": pj, "cmp": cmp, "eq": eq})),
            Err(p) => {
                self.st.errs += 1;
                self.emit(json!({"op": "ord", "err": true, "msg": short(format!("panic: {p}"), 200), "pairs": pj, "cmp": [], "eq": []}));
            }
        }
    }

    fn emit_decoded(&mut self, op: &str, via: &str, sel: &[usize], res: Out<Vec<ArrayRef>>, extra: Option<Value>) {
        let mut ev = json!({"op": op, "via": via, "sel": sel});
        let m = ev.as_object_mut().unwrap();
        if let Some(x) = extra {
            m.insert("bytes".into(), x);
        }
        match res {
            Out::Unsupported => {
                self.st.skipped += 1;
                return;
            }
            Out::Err(e) => {
                self.st.errs += 1;
                m.insert("err".into(), json!(true));
                m.insert("msg".into(), json!(short(e, 200)));
                m.insert("keys".into(), json!([]));
            }
            Out::Ok(cols) => match Self::keys_of(&cols) {
                Ok(k) => {
                    m.insert("err".into(), json!(false));
                    m.insert("keys".into(), json!(k));
                }
                Err(p) => {
                    self.st.errs += 1;
                    m.insert("err".into(), json!(true));
                    m.insert("msg".into(), json!(short(format!("panic reading decoded arrays: {p}"), 200)));
                    m.insert("keys".into(), json!([]));
                }
            },
        }
        self.emit(ev);
    }

    /// convert_rows on a selection mixing rows of all live Rows objects
    fn decode_selection(&mut self, rng: &mut Rng, k: usize, parser: bool) {
        let live = self.live();
        if live.is_empty() || self.broken {
            return;
        }
        let sel: Vec<usize> = (0..k).map(|_| live[rng.below(live.len())]).collect();
        let locs: Vec<(usize, usize)> = sel.iter().map(|g| self.locate(*g)).collect();
        let res = {
            let conv = &self.conv;
            let objs = &self.objs;
            if parser {
                // through the raw bytes and RowParser
                call(|| {
                    let raw: Vec<Vec<u8>> = locs.iter().map(|(o, p)| objs[*o].0.row(*p).as_ref().to_vec()).collect();
                    let parser = conv.parser();
                    conv.convert_rows(raw.iter().map(|b| parser.parse(b)))
                })
            } else {
                call(|| conv.convert_rows(locs.iter().map(|(o, p)| objs[*o].0.row(*p))))
            }
        };
        self.emit_decoded("dec", if parser { "parser" } else { "rows" }, &sel, res, None);
    }

    /// the rows of a Rows object read again (they must still be what they were when they were
    /// produced, whatever was appended since) and decoded with convert_rows(&rows)
    fn reread(&mut self, obj: usize) {
        if self.broken {
            return;
        }
        let sel = self.objs[obj].1.clone();
        match read_rows(&self.objs[obj].0, 0) {
            Err(e) => {
                self.broken = true;
                self.emit_decoded("bin", "reread", &sel, Out::Err(e), Some(json!([])));
            }
            Ok(bytes) => {
                let res = {
                    let conv = &self.conv;
                    let rows = &self.objs[obj].0;
                    call(|| conv.convert_rows(rows))
                };
                self.emit_decoded("bin", "reread", &sel, res, Some(bytes_json(&bytes)));
            }
        }
    }

    /// Rows::push: copies of a selection of rows in a fresh Rows object, then decoded
    fn push_copy(&mut self, rng: &mut Rng, k: usize) {
        let live = self.live();
        if live.is_empty() || self.broken {
            return;
        }
        let sel: Vec<usize> = (0..k).map(|_| live[rng.below(live.len())]).collect();
        let locs: Vec<(usize, usize)> = sel.iter().map(|g| self.locate(*g)).collect();
        let (c1, c2) = (rng.below(3), rng.below(16));
        let mut bytes: Vec<Vec<u8>> = vec![];
        let res = {
            let conv = &self.conv;
            let objs = &self.objs;
            call(|| {
                let mut r = conv.empty_rows(c1, c2);
                for (o, p) in &locs {
                    r.push(objs[*o].0.row(*p));
                }
                bytes = read_rows(&r, 0).map_err(ArrowError::ComputeError)?;
                conv.convert_rows(&r)
            })
        };
        self.emit_decoded("bin", "push", &sel, res, Some(bytes_json(&bytes)));
    }

    /// Rows -> BinaryArray -> Rows -> convert_rows (consumes the Rows object)
    fn binary_round_trip(&mut self, obj: usize) {
        if self.broken {
            return;
        }
        let (rows, ids) = self.objs.remove(obj);
        let conv = &self.conv;
        let mut bytes: Vec<Vec<u8>> = vec![];
        let res = call(|| {
            let bin = rows.try_into_binary()?;
            let back = conv.from_binary(bin);
            bytes = read_rows(&back, 0).map_err(ArrowError::ComputeError)?;
            conv.convert_rows(&back)
        });
        // the object is gone: its rows stay in the specification's row set (they are values), but
        // the driver can no longer address them
        self.emit_decoded("bin", "binary", &ids, res, Some(bytes_json(&bytes)));
    }
}

/// a converter for `fields`; the `new` event is written.  None: unsupported (skipped) or failed (reported)
fn open<'a>(t: &'a mut Shards, st: &'a mut Stats, fields: &[DataType], opts: &[SortOptions], note: &str) -> Option<Inst<'a>> {
    let sort_fields: Vec<SortField> = fields.iter().zip(opts).map(|(f, o)| SortField::new_with_options(f.clone(), *o)).collect();
    let made = call(|| RowConverter::new(sort_fields));
    if let Out::Unsupported = made {
        st.skipped += 1;
        return None;
    }
    t.next_episode();
    let ty = short(fields.iter().map(tok::type_str).collect::<Vec<_>>().join(" | "), 70);
    // type facts the specification uses to identify known findings: the family of every field and
    // whether it is a dense union with a type id that is not a valid child position
    let fam: Vec<&str> = fields.iter().map(tok::family).collect();
    let dn: Vec<bool> = fields
        .iter()
        .map(|f| match f {
            DataType::Union(uf, arrow_schema::UnionMode::Dense) => uf.iter().any(|(id, _)| id as usize >= uf.len()),
            _ => false,
        })
        .collect();
    t.emit(json!({"op": "new", "ty": ty, "note": note, "fam": fam, "dn": dn, "opts": opts.iter().map(|o| json!([o.descending, o.nulls_first])).collect::<Vec<_>>()}));
    st.events += 1;
    st.instances += 1;
    match made {
        Out::Ok(conv) => Some(Inst { t, st, conv, ty, objs: vec![], total: 0, broken: false }),
        Out::Err(e) => {
            // RowConverter::new failed for another reason than "not supported": an outcome to judge
            st.errs += 1;
            t.emit(json!({"op": "conv", "via": "new", "ty": ty, "err": true, "msg": short(e, 200), "keys": [], "bytes": []}));
            st.events += 1;
            None
        }
        Out::Unsupported => unreachable!(),
    }
}

fn instance(rng: &mut Rng, args: &Args, t: &mut Shards, st: &mut Stats, fields: &[DataType], opts: &[SortOptions]) {
    let Some(mut inst) = open(t, st, fields, opts, "mixed calls") else { return };
    let max_rows = 40usize;
    let n1 = 1 + rng.below(12);
    let a: Vec<ArrayRef> = fields.iter().map(|f| gen_col(rng, f, n1)).collect();
    if !inst.convert(&a) || inst.objs.is_empty() {
        return; // unsupported, or the first conversion failed (reported)
    }
    // the same logical rows in another physical layout: must give the same bytes
    let a2: Vec<ArrayRef> = a.iter().map(|c| relayout(rng, c)).collect();
    inst.convert(&a2);
    // other arrays
    let n2 = rng.below(10);
    let b: Vec<ArrayRef> = fields.iter().map(|f| gen_col(rng, f, n2)).collect();
    inst.convert(&b);
    // append to the first Rows object: fresh rows, then the rows of a again
    let n3 = (max_rows - inst.total.min(max_rows)).min(1 + rng.below(8));
    if n3 > 0 {
        let c: Vec<ArrayRef> = fields.iter().map(|f| gen_col(rng, f, n3)).collect();
        inst.append(0, &c);
    }
    if rng.chance(50) && inst.total + n1 <= max_rows {
        inst.append(0, &a);
    }
    // an empty conversion
    if rng.chance(20) && !inst.broken {
        let e: Vec<ArrayRef> = fields.iter().map(|f| gen_col(rng, f, 0)).collect();
        inst.convert(&e);
    }
    inst.ord(rng, args.scale(24, 60));
    let k = 1 + rng.below(10);
    inst.decode_selection(rng, k, false);
    let k = 1 + rng.below(10);
    inst.decode_selection(rng, k, true);
    inst.reread(0);
    let k = rng.below(8);
    inst.push_copy(rng, k);
    if inst.objs.len() > 1 {
        inst.binary_round_trip(1);
    }
    // rows of the remaining objects are still decodable after another object is gone
    let k = 1 + rng.below(6);
    inst.decode_selection(rng, k, false);
}

/// append across conversions: one Rows object that receives a conversion and then 2-3 appends (other
/// arrays, other lengths, an empty one now and then); every row is compared with every other one as it
/// arrives, then all rows are read again, compared through Row's Ord / Eq and decoded
fn append_chain(rng: &mut Rng, args: &Args, t: &mut Shards, st: &mut Stats, fields: &[DataType], opts: &[SortOptions], note: &str) {
    let Some(mut inst) = open(t, st, fields, opts, note) else { return };
    let n1 = 1 + rng.below(8);
    let a: Vec<ArrayRef> = fields.iter().map(|f| gen_col(rng, f, n1)).collect();
    if !inst.convert(&a) || inst.objs.is_empty() {
        return;
    }
    for k in 0..2 + rng.below(2) {
        let n = if rng.chance(12) { 0 } else { 1 + rng.below(8) };
        let c: Vec<ArrayRef> = if k == 1 && rng.chance(30) { a.clone() } else { fields.iter().map(|f| gen_col(rng, f, n)).collect() };
        inst.append(0, &c);
    }
    inst.reread(0);
    inst.ord(rng, args.scale(30, 60));
    let k = 1 + rng.below(12);
    let via_parser = rng.chance(40);
    inst.decode_selection(rng, k, via_parser);
    // a second object appended to as well, then both mixed in one selection
    let nb = 1 + rng.below(4);
    let b: Vec<ArrayRef> = fields.iter().map(|f| gen_col(rng, f, nb)).collect();
    if inst.convert(&b) && inst.objs.len() > 1 {
        let nc = 1 + rng.below(4);
        let c: Vec<ArrayRef> = fields.iter().map(|f| gen_col(rng, f, nc)).collect();
        inst.append(1, &c);
        inst.reread(1);
        inst.reread(0);
        let k = 1 + rng.below(10);
        inst.decode_selection(rng, k, false);
    }
}

/// field types whose row encoding has a fixed width (every row of such a schema has the same length)
fn fixed_width_types() -> Vec<DataType> {
    mk::flat_types().into_iter().filter(|t| t.is_primitive() || matches!(t, DataType::Boolean | DataType::FixedSizeBinary(_))).chain(std::iter::once(DataType::Null)).collect()
}

fn extra_types() -> Vec<DataType> {
    use DataType::*;
    let f = |n: &str, t: DataType| Arc::new(Field::new(n, t, true));
    vec![
        // nested combinations the zoo of vcore::mk does not hold
        Struct(Fields::from(vec![Field::new("d", Dictionary(Box::new(Int8), Box::new(Utf8)), true), Field::new("f", Float64, true)])),
        List(f("item", FixedSizeList(f("item", Int16), 2))),
        FixedSizeList(f("item", Utf8), 2),
        FixedSizeList(f("item", List(f("item", Int8))), 2),
        List(f("item", Binary)),
        LargeList(f("item", Struct(Fields::from(vec![Field::new("x", Utf8, true), Field::new("y", Boolean, true)])))),
        Struct(Fields::from(vec![Field::new("e", Struct(Fields::empty()), true)])),
        RunEndEncoded(Arc::new(Field::new("run_ends", Int32, false)), f("values", List(f("item", Int32)))),
        Dictionary(Box::new(Int16), Box::new(Float32)),
        Dictionary(Box::new(UInt8), Box::new(Binary)),
        Dictionary(Box::new(Int32), Box::new(FixedSizeBinary(3))),
        List(f("item", RunEndEncoded(Arc::new(Field::new("run_ends", Int32, false)), f("values", Utf8)))),
        Union(arrow_schema::UnionFields::try_new(vec![2, 5], vec![Field::new("f", Float32, true), Field::new("s", Utf8, true)]).unwrap(), arrow_schema::UnionMode::Sparse),
        Union(arrow_schema::UnionFields::try_new(vec![1, 0], vec![Field::new("i", Int16, true), Field::new("b", Binary, true)]).unwrap(), arrow_schema::UnionMode::Dense),
        List(f("item", Union(arrow_schema::UnionFields::try_new(vec![0, 1], vec![Field::new("i", Int8, true), Field::new("s", Utf8, true)]).unwrap(), arrow_schema::UnionMode::Sparse))),
    ]
}

/// minimal reproductions of the known findings of this property (`c11 repro`)
fn repro() {
    use arrow_schema::{UnionFields, UnionMode};
    // C11-union-descending-child-not-inverted
    let uf = UnionFields::try_new(vec![0], vec![Field::new("i", DataType::Int32, true)]).unwrap();
    let u = UnionArray::try_new(uf.clone(), vec![0i8, 0, 0].into(), None, vec![Arc::new(Int32Array::from(vec![Some(1), Some(2), None])) as ArrayRef]).unwrap();
    let t = DataType::Union(uf, UnionMode::Sparse);
    for o in ALL_OPTS {
        let c = RowConverter::new(vec![SortField::new_with_options(t.clone(), o)]).unwrap();
        let r = c.convert_columns(&[Arc::new(u.clone()) as ArrayRef]).unwrap();
        println!(
            "union<i32> [1, 2, null] descending={} nulls_first={}: row(1) {:?} row(2), row(null) {:?} row(1)   [expected {:?}, {:?}]",
            o.descending,
            o.nulls_first,
            r.row(0).cmp(&r.row(1)),
            r.row(2).cmp(&r.row(0)),
            if o.descending { std::cmp::Ordering::Greater } else { std::cmp::Ordering::Less },
            if o.nulls_first { std::cmp::Ordering::Less } else { std::cmp::Ordering::Greater },
        );
    }
    // C11-dense-union-decode-type-id-index
    let uf = UnionFields::try_new(vec![3, 7], vec![Field::new("i", DataType::Int64, true), Field::new("b", DataType::Boolean, true)]).unwrap();
    let u = UnionArray::try_new(
        uf.clone(),
        vec![3i8, 7].into(),
        Some(vec![0i32, 0].into()),
        vec![Arc::new(Int64Array::from(vec![5])) as ArrayRef, Arc::new(BooleanArray::from(vec![true])) as ArrayRef],
    )
    .unwrap();
    let c = RowConverter::new(vec![SortField::new(DataType::Union(uf, UnionMode::Dense))]).unwrap();
    let r = c.convert_columns(&[Arc::new(u) as ArrayRef]).unwrap();
    match guarded(|| c.convert_rows(&r)) {
        Ok(Ok(a)) => println!("dense union type ids {{3,7}}: convert_rows ok, {} rows", a[0].len()),
        Ok(Err(e)) => println!("dense union type ids {{3,7}}: convert_rows Err({e})"),
        Err(p) => println!("dense union type ids {{3,7}}: convert_rows PANIC {p}   [expected the 2 input rows]"),
    }
}

fn main() {
    vcore::quiet_panics();
    let args = Args::parse();
    if args.driver == "repro" {
        return repro();
    }
    let mut rng = Rng::new(args.seed ^ 0xC11);
    let mut t = Shards::create(&args.out, "rows", 14);
    let mut st = Stats { events: 0, instances: 0, rows: 0, skipped: 0, errs: 0 };
    let mut types = mk::all_types();
    types.extend(extra_types());
    let rounds = args.scale(1, 3);
    for _ in 0..rounds {
        // every field type alone under every SortOptions
        for dt in &types {
            for o in ALL_OPTS {
                instance(&mut rng, &args, &mut t, &mut st, std::slice::from_ref(dt), &[o]);
            }
        }
        // variable-length types once more (boundary lengths dominate there)
        for dt in [DataType::Utf8, DataType::LargeUtf8, DataType::Utf8View, DataType::Binary, DataType::LargeBinary, DataType::BinaryView] {
            for o in ALL_OPTS {
                for _ in 0..args.scale(2, 4) {
                    instance(&mut rng, &args, &mut t, &mut st, std::slice::from_ref(&dt), &[o]);
                }
            }
        }
        // append across conversions: all-fixed-width schemas (rows of one length) and mixed ones
        let fixed = fixed_width_types();
        let variable: Vec<DataType> = types.iter().filter(|t| !fixed.contains(t)).cloned().collect();
        for i in 0..args.scale(90, 240) {
            let k = 1 + rng.below(3);
            let all_fixed = i % 2 == 0;
            let mut fields: Vec<DataType> = (0..k).map(|_| rng.pick(&fixed).clone()).collect();
            if !all_fixed {
                let j = rng.below(k);
                fields[j] = rng.pick(&variable).clone();
            }
            let opts: Vec<SortOptions> = (0..k).map(|_| ALL_OPTS[rng.below(4)]).collect();
            append_chain(&mut rng, &args, &mut t, &mut st, &fields, &opts, if all_fixed { "append chain, fixed width" } else { "append chain, mixed" });
        }
        // cross-type tuples, one SortOptions per field
        for _ in 0..args.scale(120, 300) {
            let k = 2 + rng.below(2);
            let fields: Vec<DataType> = (0..k).map(|_| rng.pick(&types).clone()).collect();
            let opts: Vec<SortOptions> = (0..k).map(|_| ALL_OPTS[rng.below(4)]).collect();
            instance(&mut rng, &args, &mut t, &mut st, &fields, &opts);
        }
    }
    let written = t.finish();
    assert_eq!(written, st.events);
    println!(
        "DRIVER c11 events={} instances={} rows={} skipped_unsupported={} error_outcomes={}",
        st.events, st.instances, st.rows, st.skipped, st.errs
    );
}
